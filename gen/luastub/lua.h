#ifndef VERIF_STUB_LUA_H
#define VERIF_STUB_LUA_H
#include <stddef.h>
#define LUA_VERSION_NUM 503
typedef struct lua_State lua_State;
typedef long long lua_Integer;
typedef double lua_Number;
typedef int (*lua_CFunction)(lua_State *L);
#define LUA_TNONE (-1)
#define LUA_TNIL 0
#define LUA_TBOOLEAN 1
#define LUA_TLIGHTUSERDATA 2
#define LUA_TNUMBER 3
#define LUA_TSTRING 4
#define LUA_TTABLE 5
#define LUA_TFUNCTION 6
#define LUA_TUSERDATA 7
#define LUA_TTHREAD 8
#ifdef __cplusplus
extern "C" {
#endif
int lua_gettop(lua_State *L);
int lua_type(lua_State *L, int idx);
lua_Integer lua_tointeger(lua_State *L, int idx);
lua_Number lua_tonumber(lua_State *L, int idx);
int lua_toboolean(lua_State *L, int idx);
const char *lua_tostring(lua_State *L, int idx);
void lua_pushinteger(lua_State *L, lua_Integer n);
void lua_pushnumber(lua_State *L, lua_Number n);
void lua_pushboolean(lua_State *L, int b);
const char *lua_pushstring(lua_State *L, const char *s);
void lua_pushvalue(lua_State *L, int idx);
void *lua_newuserdata(lua_State *L, size_t sz);
int lua_setmetatable(lua_State *L, int objindex);
void lua_setfield(lua_State *L, int idx, const char *k);
#ifdef __cplusplus
}
#endif
#endif
