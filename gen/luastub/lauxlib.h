#ifndef VERIF_STUB_LAUXLIB_H
#define VERIF_STUB_LAUXLIB_H
#include "lua.h"
typedef struct luaL_Reg { const char *name; lua_CFunction func; } luaL_Reg;
#ifdef __cplusplus
extern "C" {
#endif
int luaL_error(lua_State *L, const char *fmt, ...);
void *luaL_checkudata(lua_State *L, int ud, const char *tname);
int luaL_newmetatable(lua_State *L, const char *tname);
int luaL_getmetatable(lua_State *L, const char *tname);
void luaL_setfuncs(lua_State *L, const luaL_Reg *l, int nup);
void luaL_newlib_(lua_State *L, const luaL_Reg *l);
#define luaL_newlib(L,l) luaL_newlib_(L,l)
#ifdef __cplusplus
}
#endif
#endif
