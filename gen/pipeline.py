"""In-memory run of Shroud's real generation pipeline (the body of main.main_with_args after
argument handling), with every output file captured as a list of written pieces.

Nothing is re-modelled: the real ast / generate / wrapc / wrapf / wrapp / wrapl code runs; only
the module-global names `open` and `print` of shroud.util are bound at harness time so that
WrapperMixin.write_output_file writes into memory (proxy strings survive as objects).
"""
import copy
import io
import os


class MemFile(object):
    def __init__(self, store, name):
        self.pieces = []
        store[name] = self.pieces

    def write(self, x):
        self.pieces.append(x)

    def close(self):
        pass

    def __enter__(self):
        return self

    def __exit__(self, *a):
        return False


class Result(object):
    def __init__(self):
        self.files = {}        # path -> list of pieces
        self.config = None
        self.library = None
        self.error = None

    def text(self, name):
        return "".join(self.files[name])


def run(allinput, splicers=None, outdirs=None, write_version=False, deep=True):
    """allinput: the dictionary a YAML file would give.  splicers: dict(c=,f=,py=,lua=).
    Returns Result.  Exceptions from Shroud propagate."""
    from shroud import ast, generate, main as smain, typemap, util, wrapc, wrapf, wrapl, wrapp, metadata
    import shroud.util as U
    res = Result()
    if deep:
        allinput = copy.deepcopy(allinput)
    outdirs = outdirs or {}
    config = smain.Config()
    config.out_dir = outdirs.get("out", "")
    config.c_fortran_dir = outdirs.get("c_fortran") or config.out_dir
    config.python_dir = outdirs.get("python") or config.out_dir
    config.lua_dir = outdirs.get("lua") or config.out_dir
    config.yaml_dir = outdirs.get("yaml") or config.out_dir
    config.write_helpers = ""
    config.write_statements = ""
    config.yaml_types = ""
    config.log = io.StringIO()
    config.write_version = metadata.__version__ if write_version else "nowrite-version"
    res.config = config
    sp = dict(c={}, f={}, py={}, lua={})
    if splicers:
        for k, v in splicers.items():
            sp[k] = v

    def mem_open(path, mode="r", *a, **k):
        if "w" in mode:
            return MemFile(res.files, path)
        return open(path, mode, *a, **k)

    U.open = mem_open
    U.print = lambda *a, **k: None
    # Each run models a fresh process: Shroud keeps its destructor tables in class attributes that are
    # never reset (observation F9 in DESIGN.md, property C07), so they are emptied here.
    wrapc.Wrapc.capsule_code = {}
    wrapc.Wrapc.capsule_order = []
    wrapc.Wrapc.capsule_include = {}
    wrapp.Wrapp.capsule_code = {}
    wrapp.Wrapp.capsule_order = []
    # The statement tables are specialised for the library's language IN PLACE (statements.update_for_language
    # overwrites `clause` with `<lang>_clause` and never restores it), so a C library processed after a C++
    # library in the same process gets C++ casts (same C07 observation).  Restore the pristine tables.
    _restore_tables()
    try:
        typemap.initialize()
        newlibrary = ast.create_library_from_dictionary(allinput)
        res.library = newlibrary
        generate.generate_functions(newlibrary, config)
        if "splicer_code" in allinput:
            sp.update(allinput["splicer_code"])
        smain.TypeOut(newlibrary, config).write_class_types()
        wrap = newlibrary.wrap
        clibrary = wrapc.Wrapc(newlibrary, config, sp["c"])
        if wrap.c:
            clibrary.wrap_library()
        if wrap.fortran:
            wrapf.Wrapf(newlibrary, config, sp["f"]).wrap_library()
        clibrary.write_impl_utility()
        if wrap.python:
            wrapp.Wrapp(newlibrary, config, sp["py"]).wrap_library()
        if wrap.lua:
            wrapl.Wrapl(newlibrary, config, sp["lua"]).wrap_library()
    finally:
        try:
            del U.open
        except AttributeError:
            pass
        try:
            del U.print
        except AttributeError:
            pass
    return res


_PRISTINE = {}


def _restore_tables():
    from shroud import statements, wrapp, wrapl
    tabs = [(statements, "fc_statements"), (wrapp, "py_statements"), (wrapl, "lua_statements")]
    for mod, name in tabs:
        key = (mod.__name__, name)
        cur = getattr(mod, name, None)
        if cur is None:
            continue
        if key not in _PRISTINE:
            _PRISTINE[key] = copy.deepcopy(cur)
        else:
            cur[:] = copy.deepcopy(_PRISTINE[key])
    for mod, name in ((statements, "cf_tree"), (wrapp, "py_tree"), (wrapl, "lua_tree")):
        t = getattr(mod, name, None)
        if isinstance(t, dict):
            t.clear()
    # helper tables: entries created for a library (capsule structs, array helpers, ...) are cached by name and
    # reused by later runs in the same process, whatever that run's options say
    from shroud import whelpers
    for name in ("CHelpers", "FHelpers"):
        cur = getattr(whelpers, name, None)
        if not isinstance(cur, dict):
            continue
        key = ("shroud.whelpers", name)
        if key not in _PRISTINE:
            _PRISTINE[key] = copy.deepcopy(cur)
        else:
            cur.clear()
            cur.update(copy.deepcopy(_PRISTINE[key]))


def load_yaml(text):
    import yaml
    return yaml.safe_load(text)


try:
    _restore_tables()        # first call: snapshot the tables as imported, before anything specialises them
except Exception:            # pragma: no cover - shroud not importable yet (environment set-up)
    pass
