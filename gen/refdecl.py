"""Reference reading of a C/C++ declaration token list (oracle for C09 / C17).

Written from the C++ declarator grammar (ISO C++ [dcl.decl], [dcl.spec]) restricted to the
subset Shroud documents (docs/declarations / HACKING): it does NOT share code with
shroud.declast.  Input is a list of (kind, spelling) pairs as produced by the real
tokenizer.  Output is a RefDecl whose .type is a nested tuple:

    ("base", canonical_name, frozenset(cv), template_args_tuple)
    ("ptr", inner, frozenset(cv))         ("ref", inner)
    ("array", inner, dimtext)             ("func", ret, (param types...), is_const_method)

Rejections are classified:  "syntax:unbalanced", "syntax:dangling", "syntax:keyword",
"syntax:other" (not derivable from the grammar), "semantic:*" (derivable shape, but the
reference cannot give it a C++ meaning, e.g. an unknown type name).
"""


def cxx_integer(text):
    """value of a C++ integer literal made of digits: a leading 0 makes it octal"""
    if len(text) > 1 and text[0] == "0":
        if any(c in "89" for c in text):
            raise RefReject("syntax:literal", "digit 8 or 9 in the octal literal %s" % text)
        return int(text, 8)
    return int(text)


class RefReject(Exception):
    def __init__(self, category, msg):
        Exception.__init__(self, "%s: %s" % (category, msg))
        self.category = category


class Sym(object):
    """Symbol environment for the reference reader."""

    def __init__(self, types=(), templates=(), namespaces=None, class_name=None):
        self.types = set(types)              # fully qualified type names
        self.templates = set(templates)      # fully qualified template type names
        self.namespaces = dict(namespaces or {})   # name -> Sym-like dict of members
        self.class_name = class_name

    def with_types(self, extra, tparams=False):
        s = Sym(self.types | set(extra), self.templates, self.namespaces, self.class_name)
        # the parameters of an enclosing template: they hide any type of the same name in an outer scope
        s.tparams = set(getattr(self, "tparams", ())) | (set(extra) if tparams else set())
        return s


DEFAULT_TYPES = {"size_t", "int8_t", "int16_t", "int32_t", "int64_t", "uint8_t", "uint16_t",
                 "uint32_t", "uint64_t", "MPI_Comm", "TypeID", "Color", "Class1",
                 "std::string", "std::vector"}


def default_sym(class_name=None):
    return Sym(types=DEFAULT_TYPES, templates={"std::vector"}, namespaces={"std": {"string", "vector"}},
               class_name=class_name)


def canon_specifier(words):
    """Canonical name of a simple-type-specifier multiset per [dcl.type.simple] table."""
    w = sorted(words)
    cnt = {}
    for x in w:
        cnt[x] = cnt.get(x, 0) + 1
    def only(*allowed):
        return all(k in allowed for k in cnt)
    if cnt.get("signed") and cnt.get("unsigned"):
        raise RefReject("semantic:specifier", "signed and unsigned")
    for k, v in cnt.items():
        if v > 1 and not (k == "long" and v == 2):
            raise RefReject("semantic:specifier", "duplicate '%s'" % k)
    sign = "unsigned " if cnt.get("unsigned") else ""
    has = lambda k: cnt.get(k, 0)
    if has("void") and len(w) == 1:
        return "void"
    if has("bool") and len(w) == 1:
        return "bool"
    if has("float") and only("float", "complex"):
        return "float complex" if has("complex") else "float"
    if has("double") and only("double", "long", "complex") and has("long") <= 1:
        base = "long double" if has("long") else "double"
        return base + (" complex" if has("complex") else "")
    if has("char") and only("char", "signed", "unsigned"):
        if has("signed"):
            return "signed char"
        return sign + "char"
    if only("short", "int", "signed", "unsigned") and has("short"):
        return sign + "short"
    if only("long", "int", "signed", "unsigned") and has("long") == 1:
        return sign + "long"
    if only("long", "int", "signed", "unsigned") and has("long") == 2:
        return sign + "long long"
    if only("int", "signed", "unsigned") and (has("int") or has("signed") or has("unsigned")):
        return sign + "int"
    raise RefReject("semantic:specifier", "no such type: %s" % " ".join(words))


class RefDecl(object):
    def __init__(self):
        self.kind = "declaration"
        self.name = None
        self.type = None
        self.params = None      # list of RefDecl or None
        self.storage = []
        self.attrs = {}
        self.init = None
        self.is_ctor = False
        self.is_dtor = False
        self.extra = {}

    def summary(self):
        return {"kind": self.kind, "name": self.name, "type": self.type,
                "params": None if self.params is None else [p.summary() for p in self.params],
                "storage": self.storage, "attrs": self.attrs, "init": self.init}


OPENERS = {"LPAREN": "RPAREN", "LBRACKET": "RBRACKET", "LCURLY": "RCURLY"}
CLOSERS = {v: k for k, v in OPENERS.items()}


def check_balance(toks):
    """Bracket balance of the token list.  Inside the parentheses of an attribute
    (+name( ... )) the text is free-form and only parentheses are balanced."""
    stack = []
    i = 0
    n = len(toks)
    while i < n:
        t, v = toks[i]
        if t == "PLUS" and i + 2 < n and toks[i + 1][0] == "ID" and toks[i + 2][0] == "LPAREN":
            depth = 0
            j = i + 2
            while j < n:
                if toks[j][0] == "LPAREN":
                    depth += 1
                elif toks[j][0] == "RPAREN":
                    depth -= 1
                    if depth == 0:
                        break
                j += 1
            if j >= n:
                raise RefReject("syntax:unbalanced", "unclosed ( in attribute")
            i = j + 1
            continue
        if t in OPENERS:
            stack.append(t)
        elif t in CLOSERS:
            if not stack or stack[-1] != CLOSERS[t]:
                raise RefReject("syntax:unbalanced", "unmatched %s" % v)
            stack.pop()
        i += 1
    if stack:
        raise RefReject("syntax:unbalanced", "unclosed %s" % stack[-1])


class Reader(object):
    def __init__(self, toks, sym):
        self.toks = list(toks) + [("EOF", None)]
        self.i = 0
        self.sym = sym

    @property
    def typ(self):
        return self.toks[self.i][0]

    @property
    def val(self):
        return self.toks[self.i][1]

    def adv(self):
        t = self.toks[self.i]
        self.i += 1
        return t

    def have(self, typ, val=None):
        if self.typ == typ and (val is None or self.val == val):
            self.i += 1
            return True
        return False

    def need(self, typ, cat="syntax:other"):
        if self.typ != typ:
            raise RefReject(cat, "expected %s, found %s %r" % (typ, self.typ, self.val))
        return self.adv()

    # ------------------------------------------------------------------ statements
    def statement(self):
        t, v = self.typ, self.val
        if t == "NAMESPACE" and v == "::":
            raise RefReject("syntax:keyword", "'::' cannot start a declaration statement")
        if t == "CLASS":
            d = self.class_stmt()
        elif t == "ENUM":
            d = self.enum_stmt()
        elif t == "STRUCT":
            d = self.struct_stmt()
        elif t == "NAMESPACE":
            self.adv()
            name = self.need("ID")[1]
            d = RefDecl()
            d.kind = "namespace"
            d.name = name
        elif t == "TEMPLATE":
            d = self.template_stmt()
        else:
            d = self.declaration(top=True)
        self.have("SEMICOLON")
        if self.typ != "EOF":
            raise RefReject("syntax:other", "trailing text at %r" % (self.val,))
        return d

    def class_stmt(self):
        self.need("CLASS")
        d = RefDecl()
        d.kind = "class"
        d.name = self.need("ID")[1]
        if self.have("COLON"):
            access = "private"
            if self.typ in ("PUBLIC", "PRIVATE", "PROTECTED"):
                access = self.adv()[1]
            if self.typ != "ID":
                raise RefReject("syntax:dangling", "base class name expected after ':'")
            q = self.qualified_type()
            d.extra["base"] = (access, q)
        return d

    def enum_stmt(self):
        self.need("ENUM")
        d = RefDecl()
        d.kind = "enum"
        scope = None
        if self.typ in ("STRUCT", "CLASS"):
            scope = self.adv()[1]
        d.name = self.need("ID")[1]
        self.need("LCURLY")
        members = []
        while self.typ != "RCURLY":
            name = self.need("ID")[1]
            value = None
            if self.have("EQUALS"):
                value = self.expression()
            members.append((name, value))
            if not self.have("COMMA"):
                break
        self.need("RCURLY", "syntax:unbalanced")
        d.extra["scope"] = scope
        d.extra["members"] = members
        return d

    def struct_stmt(self):
        self.need("STRUCT")
        d = RefDecl()
        d.kind = "struct"
        d.name = self.need("ID")[1]
        members = []
        if self.have("LCURLY"):
            while self.typ != "RCURLY":
                members.append(self.declaration())
                self.need("SEMICOLON")
            self.need("RCURLY", "syntax:unbalanced")
        d.extra["members"] = members
        return d

    def template_stmt(self):
        self.need("TEMPLATE")
        self.need("LT")
        params = []
        if self.typ != "GT":
            while True:
                if self.typ in ("TYPENAME", "CLASS"):
                    self.adv()
                if self.typ != "ID":
                    raise RefReject("syntax:dangling", "template parameter name expected")
                params.append(self.adv()[1])
                if not self.have("COMMA"):
                    break
        self.need("GT", "syntax:unbalanced")
        d = RefDecl()
        d.kind = "template"
        d.extra["parameters"] = params
        if self.typ == "CLASS":
            d.extra["decl"] = self.class_stmt()
        else:
            saved = self.sym
            self.sym = self.sym.with_types(params, tparams=True)
            try:
                d.extra["decl"] = self.declaration(top=True)
            finally:
                self.sym = saved
        return d

    # ------------------------------------------------------------------ declaration
    def qualified_type(self):
        """ID { :: ID } resolving to a type; returns the qualified name."""
        name = self.need("ID")[1]
        parts = [name]
        scope = None
        if name in self.sym.namespaces:
            scope = self.sym.namespaces[name]
        while self.typ == "NAMESPACE" and self.val == "::":
            self.adv()
            if self.typ != "ID":
                raise RefReject("syntax:dangling", "name expected after '::'")
            nxt = self.adv()[1]
            if scope is None or nxt not in scope:
                # qualified lookup does not fall back to enclosing scopes: a compiler rejects the name outright
                raise RefReject("semantic:member", "'%s' is not a member of '%s'" % (nxt, "::".join(parts)))
            parts.append(nxt)
            scope = None
        q = "::".join(parts)
        if q not in self.sym.types:
            raise RefReject("semantic:lookup", "'%s' does not name a type" % q)
        return q

    def is_type_name(self, name):
        return name in self.sym.types or name in self.sym.namespaces

    def specifiers(self, d, allow_ctor=False):
        words = []
        named = None
        targs = ()
        cv = set()
        seen_any = False
        while True:
            t, v = self.typ, self.val
            if t == "TYPE_SPECIFIER":
                if named is not None:
                    raise RefReject("semantic:specifier", "type name combined with '%s'" % v)
                words.append(v)
                self.adv()
            elif t == "TYPE_QUALIFIER":
                cv.add(v)
                self.adv()
            elif t == "STORAGE_CLASS":
                d.storage.append(v)
                self.adv()
            elif t == "ID" and named is None and not words and self.is_type_name(v):
                named = self.qualified_type()
                if self.typ == "LT":
                    self.adv()
                    args = []
                    if self.typ == "GT":
                        raise RefReject("semantic:template", "empty template argument list")
                    while True:
                        sub = RefDecl()
                        args.append(self.specifiers(sub))
                        if not self.have("COMMA"):
                            break
                        if self.typ == "GT":
                            raise RefReject("syntax:dangling", "template argument expected after ','")
                    self.need("GT", "syntax:unbalanced")
                    if named not in self.sym.templates:
                        raise RefReject("semantic:template", "'%s' is not a template" % named)
                    targs = tuple(args)
                if allow_ctor and self.sym.class_name == named and self.typ == "LPAREN":
                    d.is_ctor = True
                    break
            else:
                break
            seen_any = True
        if named is None and not words:
            raise RefReject("syntax:other", "type specifier expected, found %s %r" % (self.typ, self.val))
        if named is not None:
            if named in self.sym.templates and not targs and not d.is_ctor:
                raise RefReject("semantic:template", "template '%s' used without arguments" % named)
            base = ("tparam:" + named) if named in getattr(self.sym, "tparams", ()) else named
        else:
            base = canon_specifier(words)
        return ("base", base, frozenset(cv), targs)

    def ptr_ops(self):
        ops = []
        while self.typ in ("STAR", "REF"):
            op = self.adv()[1]
            cv = set()
            while self.typ == "TYPE_QUALIFIER":
                cv.add(self.adv()[1])
            ops.append((op, frozenset(cv)))
        return ops

    def declarator(self):
        """returns (ptr_ops, name, inner) where inner is a nested declarator or None"""
        ops = self.ptr_ops()
        name = None
        inner = None
        if self.typ == "ID":
            name = self.adv()[1]
        elif self.typ == "LPAREN" and self.paren_is_declarator():
            self.adv()
            inner = self.declarator()
            if self.typ == "LPAREN" and inner[1] is None and inner[2] is None:
                # '( * ( params ) )': an abstract function declarator inside the parentheses - grammatical C++,
                # not part of the documented grammar (same class as 'void ()')
                raise RefReject("semantic:abstract-function", "abstract function declarator")
            self.need("RPAREN", "syntax:unbalanced")
        return (ops, name, inner)

    def paren_is_declarator(self):
        """'(' starts a nested declarator iff followed by a ptr-operator, or by ID/'(' that is not a
        parameter list.  Shroud documents only the (*name) form."""
        nt = self.toks[self.i + 1][0]
        return nt in ("STAR", "REF")

    def apply_ops(self, t, ops):
        for (op, cv) in ops:
            if op == "*":
                t = ("ptr", t, cv)
            else:
                if cv:
                    raise RefReject("semantic:reference", "cv-qualified reference")
                t = ("ref", t)
        return t

    def declaration(self, top=False):
        d = RefDecl()
        if self.typ == "TILDE":
            self.adv()
            if self.sym.class_name is None:
                raise RefReject("semantic:dtor", "destructor outside class")
            nm = self.need("ID")[1]
            if nm != self.sym.class_name:
                raise RefReject("semantic:dtor", "destructor name mismatch")
            d.is_dtor = True
            d.name = "~" + nm
            base = ("base", "void", frozenset(), ())
            decl = ([], None, None)
        else:
            base = self.specifiers(d, allow_ctor=True)
            if d.is_ctor:
                decl = ([], None, None)
            else:
                decl = self.declarator()
        ops, name, inner = decl
        t = self.apply_ops(base, ops)
        # suffixes of the direct-declarator
        if self.typ == "LPAREN" and name is None and inner is None and not d.is_ctor and not d.is_dtor:
            # abstract function declarator, e.g. 'void ()': not part of the documented grammar
            raise RefReject("semantic:abstract-function", "abstract function declarator")
        if self.typ == "LPAREN":
            params = self.parameter_list()
            const_method = False
            if self.typ == "TYPE_QUALIFIER":
                if self.val != "const":
                    raise RefReject("semantic:method", "only const may follow a parameter list")
                self.adv()
                const_method = True
            d.params = params
            t = ("func", t, tuple(p.type for p in params), const_method)
        dims = []
        while self.typ == "LBRACKET":
            self.adv()
            if self.typ == "RBRACKET":
                raise RefReject("semantic:array", "array bound required")
            dims.append(self.expression())
            self.need("RBRACKET", "syntax:unbalanced")
        for dim in reversed(dims):
            t = ("array", t, dim)
        while inner is not None:
            iops, iname, iinner = inner
            t = self.apply_ops(t, iops)
            name = iname if iname is not None else name
            inner = iinner
        d.name = d.name or name
        d.type = t
        # attributes
        while self.typ == "PLUS":
            self.adv()
            if self.typ != "ID":
                raise RefReject("syntax:dangling", "attribute name expected after '+'")
            an = self.adv()[1]
            if self.typ == "LPAREN":
                depth = 0
                parts = []
                while True:
                    if self.typ == "EOF":
                        raise RefReject("syntax:unbalanced", "unbalanced parens in attribute")
                    if self.typ == "LPAREN":
                        depth += 1
                        if depth > 1:
                            parts.append(self.val)
                    elif self.typ == "RPAREN":
                        depth -= 1
                        if depth == 0:
                            self.adv()
                            break
                        parts.append(self.val)
                    else:
                        parts.append(self.val)
                    self.adv()
                d.attrs[an] = join_words(parts)
            elif self.typ == "EQUALS":
                self.adv()
                d.attrs[an] = self.initializer()
            else:
                d.attrs[an] = True
        if self.typ == "EQUALS":
            self.adv()
            d.init = self.initializer()
        return d

    def initializer(self):
        t, v = self.typ, self.val
        if t == "REAL":
            self.adv()
            return float(v)
        if t == "INTEGER":
            self.adv()
            return cxx_integer(v)
        if t in ("DQUOTE", "SQUOTE", "ID"):
            self.adv()
            return v
        raise RefReject("syntax:dangling", "initializer expected after '='")

    def parameter_list(self):
        self.need("LPAREN")
        params = []
        if self.typ != "RPAREN":
            while True:
                if self.typ == "VARARG":
                    raise RefReject("semantic:varargs", "varargs")
                params.append(self.declaration())
                if not self.have("COMMA"):
                    break
                if self.typ == "RPAREN":
                    raise RefReject("syntax:dangling", "parameter expected after ','")
        self.need("RPAREN", "syntax:unbalanced")
        if len(params) == 1:
            p = params[0]
            if p.type == ("base", "void", frozenset(), ()) and p.name is None and not p.attrs and p.init is None:
                params = []
        for p in params:
            if p.type[0] == "base" and p.type[1] == "void":
                raise RefReject("semantic:void-param", "parameter of type void")
        return params

    # ------------------------------------------------------------------ expressions
    PREC = {"+": 1, "-": 1, "*": 2, "/": 2}

    def expression(self, minp=0):
        lhs = self.primary()
        while self.val in self.PREC and self.typ in ("PLUS", "MINUS", "STAR", "SLASH") \
                and self.PREC[self.val] >= minp:
            op = self.adv()[1]
            rhs = self.expression(self.PREC[op] + 1)
            lhs = ("bin", op, lhs, rhs)
        return lhs

    def primary(self):
        t, v = self.typ, self.val
        if t == "ID":
            self.adv()
            if self.typ == "LPAREN":
                self.adv()
                args = []
                if self.typ != "RPAREN":
                    while True:
                        args.append(self.expression())
                        if not self.have("COMMA"):
                            break
                        if self.typ == "RPAREN":
                            raise RefReject("syntax:dangling", "argument expected after ','")
                self.need("RPAREN", "syntax:unbalanced")
                return ("call", v, tuple(args))
            return ("id", v)
        if t == "INTEGER":
            self.adv()
            return ("const", str(cxx_integer(v)))
        if t == "REAL":
            self.adv()
            return ("const", v)
        if t == "LPAREN":
            self.adv()
            e = self.expression()
            self.need("RPAREN", "syntax:unbalanced")
            return ("paren", e)
        if t in ("PLUS", "MINUS"):
            self.adv()
            return ("unary", v, self.primary())
        raise RefReject("syntax:dangling", "operand expected, found %s %r" % (t, v))


def read(toks, sym=None):
    """Reference reading of a full declaration statement."""
    sym = sym or default_sym()
    check_balance(toks)
    return Reader(toks, sym).statement()


def read_declaration(toks, sym=None):
    sym = sym or default_sym()
    check_balance(toks)
    r = Reader(toks, sym)
    d = r.declaration(top=True)
    if r.typ != "EOF":
        raise RefReject("syntax:other", "trailing text")
    return d


def join_words(parts):
    """The text of an attribute value: its tokens, two adjacent words kept apart by one blank ('3 4' is not '34',
    'unsigned int' is not 'unsignedint'); no blank anywhere else."""
    out = []
    for v in parts:
        v = str(v)
        if out and (out[-1][-1:].isalnum() or out[-1][-1:] == "_") and (v[:1].isalnum() or v[:1] == "_"):
            out.append(" ")
        out.append(v)
    return "".join(out)


def expr_struct(e):
    """Text that shows the TREE (every binary node in brackets), so that two readings of the same tokens with
    different associativity or precedence differ."""
    k = e[0]
    if k == "bin":
        return "[" + expr_struct(e[2]) + e[1] + expr_struct(e[3]) + "]"
    if k == "unary":
        return e[1] + expr_struct(e[2])
    if k == "paren":
        return "(" + expr_struct(e[1]) + ")"
    if k == "call":
        return e[1] + "(" + ",".join(expr_struct(a) for a in e[2]) + ")"
    return str(e[1])


def expr_text(e):
    """Canonical text of an expression tree (same shape todict.print_node produces)."""
    k = e[0]
    if k == "bin":
        return expr_text(e[2]) + e[1] + expr_text(e[3])
    if k == "unary":
        return e[1] + expr_text(e[2])
    if k == "paren":
        return "(" + expr_text(e[1]) + ")"
    if k == "call":
        return e[1] + "(" + ",".join(expr_text(a) for a in e[2]) + ")"
    return e[1]
