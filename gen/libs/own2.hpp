#ifndef OWN2_HPP
#define OWN2_HPP
namespace inner {
class Widget {
public:
    Widget();
    ~Widget();
    int weight() const;
    int w;
};
Widget *makeWidget();
}
namespace outer {
class Widget {
public:
    Widget();
    ~Widget();
    int weight() const;
    double w[4];
};
class Gadget {
public:
    Gadget();
    ~Gadget();
    int g;
};
Widget *makeWidget();
}
#endif
