#ifndef CLS_HPP
#define CLS_HPP
#include <string>
#include <cstdint>
namespace ns {
enum Color { RED, BLUE = 5 };
class Shape {
public:
    Shape();
    Shape(int sides, double size = 1.5);
    ~Shape();
    int sides() const;
    void scale(double factor);
    static int count();
    int which();
    int which() const;
    bool same(const Shape &other) const;
    int touch(Shape &other) const;
    int touch(const Shape &other) const;
    Shape * clone() const;
    Shape & self();
    void setColor(Color c);
    Color getColor() const;
private:
    int m_sides; double m_size; Color m_color;
};
class Plain {
public:
    int value() const;
    int v;
};
Shape * makeShape(int sides);
Shape * borrowShape();
Plain * makePlain();
int area(const Shape &s, int scale = 0, bool flag = true);
void swap(int &a, int &b);
long total(const long *values, int n);
double mix(int i, long l, double d, float f, bool b, char c, unsigned int u, short s);
int overload(int a);
int overload(double a, int b);
int * getArray(int *n);
int * getRaw();
struct Pair { int a; double b; };
double sumPair(const Pair &p);
void scalePair(Pair &p, double f);
int firstOf(const Pair *p);
template<typename T> T half(T v);
template<typename T> T biggest();
template<typename T, typename U> void store(T first, U second);
template<typename T> void note(T v);
int normalize(std::string &text);
int normalize(const std::string &text);
int64_t scale64(int64_t v, int k);
namespace inner { int which2(int k); }
}
// a decoy of the same unqualified scope and name outside ns
namespace inner { int which2(int k); }
#endif
