#ifndef FLIBC_H
#define FLIBC_H
#include <stdbool.h>
int add(int a, int b);
bool isSet(bool flag);
void toggle(bool *flag);
void getPair(int *a, double *b);
long total(const long *values, int n);
void fill(double *out, int n);
int count(const char *text, int ntext);
void name(char *out);
enum Color { RED, BLUE = 5 };
int next(int c);
struct Pt { double x; double y; };
typedef struct Pt Pt;
double norm(const Pt *p);
void clamp(double v, double lo, double hi);
int *peek(int *n);
int *counterPtr(void);
#endif
