#ifndef STC_HPP
#define STC_HPP
#include <string>
void passCharIn(const char *s);
void passCharOut(char *s);
void passCharInOut(char *s);
void passTwo(char *dest, const char *src);
char returnChar();
const char *getCharPtrAlloc();
const char *getCharPtrLen();
const char *getCharPtrAsArg();
const std::string getStringResult();
const std::string getStringLen();
const std::string& getStringRefAlloc();
const std::string * getStringPtrOwns();
void acceptStringConstRef(const std::string & arg1);
void acceptStringRefOut(std::string & arg1);
void acceptStringRef(std::string & arg1);
void acceptStringPtrConst(const std::string * arg1);
void acceptStringPtr(std::string * arg1);
int acceptStringInstance(std::string arg1);
void acceptNames(char **names);
int mixed(int n, const char *name, double x, std::string &out);
int valAndRef(std::string text, const std::string &other);
#endif
