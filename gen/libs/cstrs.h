#ifndef CSTRS_H
#define CSTRS_H
void passCharIn(const char *s);
void passCharOut(char *s);
void passCharInOut(char *s);
void passTwo(char *dest, const char *src);
char returnChar(void);
const char *getCharPtrAlloc(void);
const char *getCharPtrLen(void);
void acceptNames(char **names);
int mixed(int n, const char *name, double x, char *out);
#endif
