#ifndef OWN_HPP
#define OWN_HPP
#include <string>
#include <vector>
class Item {
public:
    Item();
    ~Item();
    int id() const;
    int m_id;
};
class Blob {
public:
    int size() const;
    int m_size;
};
void pool_release_item(Item *item);
Item *newItem();
Item *acquireItem();
Item *cloneItem(int id);
Item *peekItem();
Item &refItem();
Blob *newBlob();
const std::string getName();
const std::string *newName();
const std::string &peekName();
const std::string *ownedName();
int *newInts(int *n);
int *peekInts(int *n);
void useName(const std::string &name);
void fillName(char *name);
void takeNames(char **names);
void listIds(std::vector<int> &ids);
void listWeights(std::vector<double> &weights);
#endif
