#ifndef VRES_HPP
#define VRES_HPP
#include <vector>
std::vector<int> makeSeq(int n);
#endif
