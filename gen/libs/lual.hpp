#ifndef LUAL_HPP
#define LUAL_HPP
#include <string>
int add(int a, int b);
double scale(double x, int times = 1, bool neg = false);
bool isPositive(long v);
void noArgs();
const std::string getName();
void setName(const std::string &name);
int pick(int a, int b, int c);
int pick(int a, const std::string &s, int c);
int pick(double x);
int stride(int num, int offset = 0, int step = 1);
int window(int lo, const std::string &tag, bool closed = true, int step = 2);
double blend(double a, double b, double w = 0.5);
int ping(int n = 3);
void reset();
void reset(int v);
int measure(int w);
double measure(double w, double h);
int kind(int v);
int kind(const std::string &s);
int pair(int a, const std::string &s);
int pair(int a, int b);
const std::string & lastLabel();
class Counter {
public:
    Counter();
    Counter(int start);
    ~Counter();
    int get() const;
    void bump(int by);
    int combine(int a, double b);
    const std::string & label() const;
    int n;
};
class Gauge {
public:
    Gauge();
    ~Gauge();
    int get() const;
    int level;
};
enum Tone { DULL, BRIGHT = 4 };
int paint(Tone tone, int coats);
float halve(float x);
#include <cstdint>
int64_t big(int64_t v);
#include <cstddef>
int fillTo(int v, size_t n = 3);
int get(int k);
void setv(int a);
int setv(const std::string &name, double v = 1.5);
int add(const std::string &s);
int mix(int a);
int mix(int a, int b);
int mix(const std::string &s);
#endif
