#ifndef PYL_HPP
#define PYL_HPP
#include <string>
#include <vector>
int add(int a, int b);
double scale(double x, int times = 1, bool neg = false);
bool isPositive(long v);
void noArgs();
const std::string getName();
void setName(const std::string &name);
int len(const char *s);
void divmod(int a, int b, int *q, int *r);
int pick(int a, int b, int c);
int pick(double x);
int stride(int num, int offset = 0, int step = 1);
int combo(int a, int b, int c, int d);
int combo(double v, int k = 2, int off = 0);
int toggle(bool flag, int n = 1, int m = 2);
int divide(int num, int *rem, int den = 10, bool neg = false);
void fill2(int nrow, int ncol, double *out);
int *getRow(int n);
int vsum(const std::vector<int> &v);
long isum(const int *v, int n);
int total(const int *v, int n);
double total(const double *v, int n);
int countNames(char **names, int n);
int tag(int k, std::string &label);
#include <cstddef>
int bump(int *v, int n);
size_t findPos(int k);
int sumdef(const int *x, int n, int scale = 1);
int clamp(int v, int *flag);
class Tally {
public:
    static int total();
    static int scaled(int k);
    int own() const;
    Tally(int start);
    ~Tally();
    int bumpBy(int k, int times = 1);
    void reset();
    double ratio(double d) const;
    int t;
};
#endif
