#ifndef FLIB_HPP
#define FLIB_HPP
#include <string>
int add(int a, int b);
double scale(double x, int times = 1, bool neg = false);
bool isSet(bool flag);
void toggle(bool *flag);
void swap(int &a, int &b);
void getPair(int *a, double *b);
long total(const long *values, int n);
void fill(double *out, int n);
int count(const char *text, int ntext);
enum Color { RED, BLUE = 5 };
Color next(Color c);
long widen(short s, unsigned int u, float f, long l);
int mixed(int n, const std::string &name, double *x, bool flag);
int overload(int a);
int overload(double a, int b);
class Counter {
public:
    Counter();
    ~Counter();
    int get() const;
    void bump(int by = 1);
    bool same(const Counter &other) const;
    int n;
};
Counter *makeCounter();
#endif
