#ifndef FLIB_HPP
#define FLIB_HPP
#include <string>
#include <vector>
int add(int a, int b);
double scale(double x, int times = 1, bool neg = false);
bool isSet(bool flag);
void toggle(bool *flag);
void swap(int &a, int &b);
void getPair(int *a, double *b);
long total(const long *values, int n);
void fill(double *out, int n);
int count(const char *text, int ntext);
int compute(int x, int *status);
void retrim(char *text, int nch);
enum Color { RED, BLUE = 5 };
Color next(Color c);
long widen(short s, unsigned int u, float f, long l);
int mixed(int n, const std::string &name, double *x, bool flag);
int overload(int a);
int overload(double a, int b);
int sumVec(const std::vector<int> &v);
void scaleVec(std::vector<double> &v, double f);
struct Pt { double x; double y; };
double norm(const Pt &p);
void shift(Pt *p, double dx);
void tagValue(const std::string &name, double v);
void clamp(double v, double lo, double hi);
#include <cstddef>
void save(void *addr, int type, size_t n);
void save32(void *addr, int type, size_t n);
template<typename T> T twice(T v);
const std::string & label(int which);
class Counter {
public:
    Counter();
    ~Counter();
    int get() const;
    void bump(int by = 1);
    bool same(const Counter &other) const;
    int n;
};
Counter *makeCounter();
#endif
