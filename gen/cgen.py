"""Generate wrappers with the real Shroud from /repo, compile them with clang -O0 to LLVM IR and
parse the IR.  Scratch files live in a temporary directory outside /repo and /verif that is removed
before returning."""
import os
import re
import shutil
import subprocess
import tempfile

from engines.llsym import ir
from gen import pipeline

CLANG_FLAGS = ["-O0", "-fno-exceptions", "-Xclang", "-disable-O0-optnone", "-S", "-emit-llvm", "-w"]


class Built(object):
    def __init__(self):
        self.files = {}        # generated file name -> text
        self.modules = {}      # source file name -> ir.Module
        self.ir_text = {}
        self.library = None
        self.errors = []


def build(yaml_text, headers, language="c++", extra_includes=(), only=None, defines=()):
    """headers: dict name -> text (the library's own header(s)).  Returns Built."""
    d = pipeline.load_yaml(yaml_text) if isinstance(yaml_text, str) else yaml_text
    res = pipeline.run(d)
    out = Built()
    out.library = res.library
    tmp = tempfile.mkdtemp(prefix="llsym_")
    try:
        for name, pieces in res.files.items():
            text = "".join(pieces)
            out.files[os.path.basename(name)] = text
            with open(os.path.join(tmp, os.path.basename(name)), "w") as f:
                f.write(text)
        for name, text in headers.items():
            with open(os.path.join(tmp, name), "w") as f:
                f.write(text)
        for name in sorted(out.files):
            if not name.endswith((".c", ".cpp")):
                continue
            if only is not None and not only(name):
                continue
            cxx = name.endswith(".cpp")
            cmd = ["clang++" if cxx else "clang"] + (["-std=c++11"] if cxx else ["-std=c99"]) + CLANG_FLAGS + \
                  ["-I", tmp] + sum((["-I", p] for p in extra_includes), []) + ["-D%s" % x for x in defines] + \
                  [os.path.join(tmp, name), "-o", os.path.join(tmp, name + ".ll")]
            p = subprocess.run(cmd, stdout=subprocess.PIPE, stderr=subprocess.STDOUT, universal_newlines=True)
            if p.returncode != 0:
                out.errors.append("%s: %s" % (name, p.stdout[-1500:]))
                continue
            with open(os.path.join(tmp, name + ".ll")) as f:
                text = f.read()
            out.ir_text[name] = text
            out.modules[name] = ir.parse_module(text)
    finally:
        shutil.rmtree(tmp, ignore_errors=True)
    return out


def prototypes(header_text):
    """C prototypes of a generated header: name -> (return type text, [(type text, param name)])."""
    out = {}
    text = re.sub(r"//[^\n]*", "", header_text)
    text = re.sub(r"(?s)/\*.*?\*/", "", text)
    for m in re.finditer(r"(?ms)^([A-Za-z_][\w \t\*]*?)\b(\w+)\s*\(([^;{}()]*)\)\s*;", text):
        ret, name, params = m.group(1).strip(), m.group(2), m.group(3)
        if ret.startswith(("typedef", "return", "extern \"C\"")):
            continue
        plist = []
        params = " ".join(params.split())
        if params and params != "void":
            for p in params.split(","):
                p = p.strip()
                mm = re.match(r"^(.*?)(\w+)\s*(\[\s*\])?$", p)
                plist.append((mm.group(1).strip() + ("*" if mm.group(3) else ""), mm.group(2)))
        out[name] = (ret, plist)
    return out
