"""Generated Fortran -> gfortran's GIMPLE (SSA dump at -O0), regenerated from /repo on every run.

run the real pipeline in memory -> write the wrapf*.f files into a temporary directory outside
/repo and /verif -> `gfortran -cpp -ffree-form -O0 -c -fdump-tree-ssa` each module in dependency
order -> read the dumps -> remove the directory.
"""
import os
import re
import shutil
import subprocess
import tempfile

from gen import pipeline
from engines.gimsym import gimple


class FBuild(object):
    def __init__(self):
        self.files = {}       # generated file name -> text
        self.dumps = {}       # fortran file -> ssa dump text
        self.functions = {}   # name -> GFunction (all modules)
        self.errors = []
        self.library = None
        self.result = None


def build(yaml_text):
    b = FBuild()
    d = pipeline.load_yaml(yaml_text)
    res = pipeline.run(d, deep=False)
    b.result = res
    b.library = res.library
    for name, parts in res.files.items():
        b.files[os.path.basename(name)] = "".join(parts)
    tmp = tempfile.mkdtemp(prefix="fgen_")
    try:
        ffiles = [n for n in b.files if n.endswith(".f")]
        for n in ffiles:
            with open(os.path.join(tmp, n), "w") as f:
                f.write(b.files[n])
        pending = list(ffiles)
        last_err = {}
        for _round in range(len(ffiles) + 1):
            if not pending:
                break
            still = []
            for n in pending:
                p = subprocess.run(["gfortran", "-cpp", "-ffree-form", "-ffree-line-length-none", "-O0", "-c",
                                    "-fdump-tree-ssa", n, "-o", n + ".o"], cwd=tmp,
                                   stdout=subprocess.PIPE, stderr=subprocess.STDOUT, universal_newlines=True)
                if p.returncode != 0:
                    still.append(n)
                    last_err[n] = p.stdout
                else:
                    dumps = [x for x in os.listdir(tmp) if x.startswith(n + ".") and x.endswith(".ssa")]
                    if dumps:
                        with open(os.path.join(tmp, dumps[0])) as f:
                            b.dumps[n] = f.read()
            if len(still) == len(pending):
                for n in still:
                    b.errors.append("%s: %s" % (n, last_err[n][-1500:]))
                break
            pending = still
    finally:
        shutil.rmtree(tmp, ignore_errors=True)
    for n, text in b.dumps.items():
        for name, fn in gimple.parse_dump(text).items():
            fn.source_file = n
            b.functions[name] = fn
    return b


C_KIND_BYTES = {"C_INT": 4, "C_LONG": 8, "C_SIZE_T": 8, "C_SHORT": 2, "C_LONG_LONG": 8, "C_INT8_T": 1, "C_INT16_T": 2,
                "C_INT32_T": 4, "C_INT64_T": 8, "C_DOUBLE": 8, "C_FLOAT": 4, "C_BOOL": 1, "C_CHAR": 1, "C_SIGNED_CHAR": 1,
                "C_PTRDIFF_T": 8, "C_INTPTR_T": 8}


def derived_types(b):
    """Layouts of the derived types the generated Fortran declares (C layout rules: natural alignment),
    keyed by the lower-case name gfortran uses.  -> {name: {"size": n, "align": a, "fields": {f: (off, kind, size, tyname)}}}"""
    decls = {}
    for n, text in b.files.items():
        if not n.endswith(".f"):
            continue
        for m in re.finditer(r"(?ims)^\s*type\s*(?:,\s*bind\(C\)\s*)?(?:,\s*\w+\s*)*(?:::)?\s*(\w+)\s*\n(.*?)^\s*end type", text):
            name, body = m.group(1).lower(), m.group(2)
            comps = []
            for ln in body.split("\n"):
                ln = ln.split("!")[0].strip()
                if not ln or ln.lower().startswith(("contains", "procedure", "generic", "final", "private", "public", "#", "sequence")):
                    if ln.lower().startswith("contains"):
                        break
                    continue
                cm = re.match(r"(?i)^(type|integer|real|logical|character)\s*\(\s*([^)]*)\)\s*(?:,[^:]*)?::\s*(.*)$", ln)
                if not cm:
                    continue
                base, kind, rest = cm.group(1).lower(), cm.group(2).strip(), cm.group(3)
                for item in re.split(r",(?![^()]*\))", rest):
                    im = re.match(r"^\s*(\w+)\s*(?:\(([^)]*)\))?", item)
                    if not im:
                        continue
                    count = 1
                    if im.group(2):
                        try:
                            count = int(im.group(2))
                        except ValueError:
                            count = None
                    comps.append((im.group(1).lower(), base, kind, count))
            decls[name] = comps
    out = {}

    def layout(name):
        if name in out:
            return out[name]
        off, align = 0, 1
        fields = {}
        for fname, base, kind, count in decls.get(name, []):
            if base == "type":
                k = kind.strip()
                if k.upper() in ("C_PTR", "C_FUNPTR"):
                    sz, al, kd, tn = 8, 8, "ptr", None
                else:
                    sub = layout(k.lower())
                    sz, al, kd, tn = sub["size"], sub["align"], "struct", k.lower()
            else:
                k = kind.replace("kind=", "").replace("KIND=", "").strip().upper()
                sz = C_KIND_BYTES.get(k)
                if sz is None:
                    sz = int(k) if k.isdigit() else (8 if base == "real" else 4)
                al, kd, tn = sz, ("float" if base == "real" else "int"), None
            off = (off + al - 1) // al * al
            fields[fname] = (off, kd, sz, tn, count)
            off += sz * (count or 1)
            align = max(align, al)
        size = (off + align - 1) // align * align if off else 0
        out[name] = {"size": size, "align": align, "fields": fields}
        return out[name]
    for n in list(decls):
        layout(n)
    return out
