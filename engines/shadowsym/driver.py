"""Parallel exploration driver for shadowsym harnesses.

A harness is an object with
    run(engine)                      -> outcome            (the real code, on proxies)
    judge(engine, kind, value)       -> dict(cls=str, reached=bool,
                                             violation=None|json, sample=None|json)
Harness objects are constructed inside each worker process from
(module_name, factory_name, kwargs) so nothing needs pickling.
"""
import importlib
import multiprocessing
import os
import time
import traceback
from collections import Counter

from .core import Engine, Inconclusive, Stats


class Acc(object):
    def __init__(self):
        self.counts = Counter()
        self.violations = []
        self.vcount = Counter()
        self.counters = Counter()
        self.extras = []
        self.nviol = 0
        self.samples = {}
        self.reached = 0
        self.stats = Stats()
        self.inconclusive = []

    def record(self, j):
        cls = j.get("cls", "?")
        self.counts[cls] += 1
        if j.get("reached", True):
            self.reached += 1
        v = j.get("violation")
        if v is not None:
            self.nviol += 1
            key = j.get("vkey") or str(v.get("what"))[:80]
            self.vcount[key] += 1
            if self.vcount[key] <= 3 and len(self.violations) < 3000:
                v = dict(v)
                v["_vkey"] = key
                self.violations.append(v)
        for k, n in (j.get("counters") or {}).items():
            self.counters[k] += n
        if j.get("extra") is not None and len(self.extras) < 5000:
            self.extras.append(j["extra"])
        s = j.get("sample")
        if s is not None:
            lst = self.samples.setdefault(cls, [])
            if len(lst) < 2:
                lst.append(s)

    def merge(self, o):
        self.counts.update(o.counts)
        self.nviol += o.nviol
        have = Counter(v.get("_vkey") for v in self.violations) if o.violations else None
        for v in o.violations:
            if have[v.get("_vkey")] < 3 and len(self.violations) < 3000:
                self.violations.append(v)
                have[v.get("_vkey")] += 1
        self.vcount.update(o.vcount)
        self.counters.update(o.counters)
        self.extras.extend(o.extras[:max(0, 5000 - len(self.extras))])
        for k, lst in o.samples.items():
            mine = self.samples.setdefault(k, [])
            for s in lst:
                if len(mine) < 2:
                    mine.append(s)
        self.reached += o.reached
        self.stats.add(o.stats)
        self.inconclusive.extend(o.inconclusive)


def _make(spec):
    mod, fac, kw = spec
    m = importlib.import_module(mod)
    return getattr(m, fac)(**kw)


def _explore(spec, prefixes, frontier_depth, deadline, max_decisions):
    acc = Acc()
    h = _make(spec)
    e = Engine(max_decisions=max_decisions)

    def cb(eng, kind, value):
        acc.record(h.judge(eng, kind, value))

    frontier = []
    try:
        frontier = e.explore(h.run, cb, prefixes=prefixes, frontier_depth=frontier_depth,
                             deadline=deadline)
    except Inconclusive as ex:
        acc.inconclusive.append("%s: %s" % (type(ex).__name__, ex))
    except Exception:
        acc.inconclusive.append("harness error: " + traceback.format_exc()[-1500:])
    acc.stats.add(e.stats)
    return acc, frontier


def _worker(args):
    spec, prefix, deadline, max_decisions = args
    acc, _ = _explore(spec, [prefix], None, deadline, max_decisions)
    return acc


def explore(spec, nworkers=None, split_depth=6, time_budget_s=None, max_decisions=4000,
            min_tasks=None):
    """Explore all paths of the harness described by spec=(module, factory, kwargs)."""
    if nworkers is None:
        nworkers = min(16, os.cpu_count() or 1)
    deadline = time.time() + time_budget_s if time_budget_s else None
    if nworkers <= 1 or split_depth is None:
        acc, _ = _explore(spec, None, None, deadline, max_decisions)
        return acc
    acc, frontier = _explore(spec, None, split_depth, deadline, max_decisions)
    if acc.inconclusive or not frontier:
        return acc
    ctx = multiprocessing.get_context("fork")
    tasks = [(spec, p, deadline, max_decisions) for p in frontier]
    with ctx.Pool(min(nworkers, len(tasks))) as pool:
        for a in pool.imap_unordered(_worker, tasks, chunksize=1):
            acc.merge(a)
    return acc


def _stage1(args):
    spec, depth, deadline, max_decisions = args
    return _explore(spec, None, depth, deadline, max_decisions)


def explore_many(specs, nworkers=None, split_depth=7, time_budget_s=None, max_decisions=4000):
    """Explore several harness specs with one shared process pool.
    Returns a list of Acc, one per spec (same order)."""
    from concurrent.futures import ProcessPoolExecutor
    if nworkers is None:
        nworkers = min(16, os.cpu_count() or 1)
    deadline = time.time() + time_budget_s if time_budget_s else None
    accs = [Acc() for _ in specs]
    ctx = multiprocessing.get_context("fork")
    with ProcessPoolExecutor(max_workers=nworkers, mp_context=ctx) as ex:
        import queue
        doneq = queue.Queue()
        pending = {}

        def submit(fn, args, tag):
            f = ex.submit(fn, args)
            pending[f] = tag
            f.add_done_callback(doneq.put)

        for i, spec in enumerate(specs):
            submit(_stage1, (spec, split_depth, deadline, max_decisions), (i, 1))
        while pending:
            f = doneq.get()
            i, stage = pending.pop(f)
            if stage == 1:
                acc, frontier = f.result()
                accs[i].merge(acc)
                if not acc.inconclusive:
                    for p in frontier:
                        submit(_worker, (specs[i], p, deadline, max_decisions), (i, 2))
            else:
                accs[i].merge(f.result())
    return accs
