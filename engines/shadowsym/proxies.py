"""Proxy values for shadowsym.  Only operations actually modelled are defined;
anything else raises Unsupported (=> the run is inconclusive, never silently
concretised)."""
import z3
from .core import Unsupported

# str.isspace() code points (Python 3.12 / Unicode 15)
WS_CODEPOINTS = [c for c in range(0x110000) if chr(c).isspace()]


def _z(o):
    if isinstance(o, (SymInt, SymBool)):
        return o.z
    return o


class SymBool(object):
    __slots__ = ("e", "z")

    def __init__(self, e, z):
        self.e = e
        self.z = z

    def __bool__(self):
        return self.e.branch(self.z)

    def __eq__(self, o):
        if isinstance(o, SymBool):
            return self.e.branch(self.z == o.z)
        if isinstance(o, bool):
            return self.e.branch(self.z == o)
        if o is None:
            return False
        raise Unsupported("SymBool == %r" % (type(o),))

    def __ne__(self, o):
        return not self.__eq__(o)

    def __hash__(self):
        raise Unsupported("hash(SymBool)")

    def __repr__(self):
        raise Unsupported("repr(SymBool)")

    __str__ = __repr__

    def __format__(self, spec):
        raise Unsupported("format(SymBool)")


class SymInt(object):
    __slots__ = ("e", "z")

    def __init__(self, e, z):
        self.e = e
        self.z = z

    def _chk(self, o):
        if isinstance(o, bool) or not isinstance(o, (int, SymInt)):
            raise Unsupported("SymInt op with %r" % (type(o),))
        return o.z if isinstance(o, SymInt) else o

    def __eq__(self, o):
        if isinstance(o, (int, SymInt)) and not isinstance(o, bool):
            return self.e.branch(self.z == self._chk(o))
        if o is None or isinstance(o, str):
            return False
        raise Unsupported("SymInt == %r" % (type(o),))

    def __ne__(self, o):
        return not self.__eq__(o)

    def __lt__(self, o):
        return self.e.branch(self.z < self._chk(o))

    def __le__(self, o):
        return self.e.branch(self.z <= self._chk(o))

    def __gt__(self, o):
        return self.e.branch(self.z > self._chk(o))

    def __ge__(self, o):
        return self.e.branch(self.z >= self._chk(o))

    def __add__(self, o):
        return SymInt(self.e, self.z + self._chk(o))

    __radd__ = __add__

    def __sub__(self, o):
        return SymInt(self.e, self.z - self._chk(o))

    def __rsub__(self, o):
        return SymInt(self.e, self._chk(o) - self.z)

    def __mul__(self, o):
        return SymInt(self.e, self.z * self._chk(o))

    __rmul__ = __mul__

    def __neg__(self):
        return SymInt(self.e, -self.z)

    def __pos__(self):
        return self

    def __bool__(self):
        return self.e.branch(self.z != 0)

    def realize(self):
        return self.e.choose(self.z)

    def __index__(self):
        return self.realize()

    def __int__(self):
        raise Unsupported("int(SymInt)")

    def __hash__(self):
        raise Unsupported("hash(SymInt)")

    def __repr__(self):
        raise Unsupported("repr(SymInt)")

    __str__ = __repr__

    def __format__(self, spec):
        raise Unsupported("format(SymInt)")


class SymChar(object):
    """One character; z is a z3 Int code point."""
    __slots__ = ("e", "z")

    def __init__(self, e, z):
        self.e = e
        self.z = z

    def __eq__(self, o):
        if isinstance(o, str):
            if len(o) != 1:
                return False
            return self.e.branch(self.z == ord(o))
        if isinstance(o, SymChar):
            return self.e.branch(self.z == o.z)
        if isinstance(o, SymStr):
            return o.__eq__(self)
        if o is None:
            return False
        raise Unsupported("SymChar == %r" % (type(o),))

    def __ne__(self, o):
        return not self.__eq__(o)

    def __hash__(self):
        raise Unsupported("hash(SymChar)")

    def __len__(self):
        return 1

    def __bool__(self):
        return True

    def __iter__(self):
        yield self

    def __getitem__(self, i):
        return SymStr(self.e, [self])[i]

    def isspace(self):
        return self.e.branch(is_space_term(self.z))

    def lstrip(self):
        return SymStr(self.e, [self]).lstrip()

    def rstrip(self):
        return SymStr(self.e, [self]).rstrip()

    def strip(self):
        return SymStr(self.e, [self]).strip()

    def __add__(self, o):
        return SymStr(self.e, [self]) + o

    def __radd__(self, o):
        return o + SymStr(self.e, [self])

    def __repr__(self):
        raise Unsupported("repr(SymChar)")

    __str__ = __repr__

    def __format__(self, spec):
        raise Unsupported("format(SymChar)")


_SPACE_CACHE = {}


def is_space_term(z):
    key = z.get_id()
    t = _SPACE_CACHE.get(key)
    if t is None or not t[0].eq(z):
        t = (z, _is_space_term(z))
        if len(_SPACE_CACHE) > 5000:
            _SPACE_CACHE.clear()
        _SPACE_CACHE[key] = t
    return t[1]


def _is_space_term(z):
    # contiguous ranges of WS_CODEPOINTS
    terms = []
    pts = WS_CODEPOINTS
    i = 0
    while i < len(pts):
        j = i
        while j + 1 < len(pts) and pts[j + 1] == pts[j] + 1:
            j += 1
        if i == j:
            terms.append(z == pts[i])
        else:
            terms.append(z3.And(z >= pts[i], z <= pts[j]))
        i = j + 1
    return z3.Or(terms)


def _chars(e, o):
    if isinstance(o, SymStr):
        return o.c
    if isinstance(o, SymChar):
        return [o]
    if isinstance(o, str):
        return list(o)
    raise Unsupported("SymStr op with %r" % (type(o),))


def _ceq(e, a, b):
    """z3 term (or python bool) for equality of two chars (str or SymChar)."""
    if isinstance(a, str) and isinstance(b, str):
        return a == b
    az = a.z if isinstance(a, SymChar) else ord(a)
    bz = b.z if isinstance(b, SymChar) else ord(b)
    return az == bz


def _cspace(e, a):
    if isinstance(a, str):
        return a.isspace()
    return a.isspace()


class SymStr(object):
    """String of concrete length; each element is a python 1-char str or a SymChar."""
    __slots__ = ("e", "c")

    def __init__(self, e, chars):
        self.e = e
        self.c = list(chars)

    def __len__(self):
        return len(self.c)

    def __bool__(self):
        return len(self.c) > 0

    def __iter__(self):
        return iter(list(self.c))

    def __getitem__(self, i):
        if isinstance(i, slice):
            return SymStr(self.e, self.c[i])
        return self.c[i]  # IndexError like str

    def __add__(self, o):
        if isinstance(o, (SymStr, SymChar, str)):
            return SymStr(self.e, self.c + _chars(self.e, o))
        return NotImplemented

    def __radd__(self, o):
        if isinstance(o, (str, SymChar)):
            return SymStr(self.e, _chars(self.e, o) + self.c)
        return NotImplemented

    def __mul__(self, n):
        if isinstance(n, int):
            return SymStr(self.e, self.c * n)
        raise Unsupported("SymStr * %r" % type(n))

    def eq_term(self, o):
        oc = _chars(self.e, o)
        if len(oc) != len(self.c):
            return False
        terms = []
        for a, b in zip(self.c, oc):
            t = _ceq(self.e, a, b)
            if t is False:
                return False
            if t is True:
                continue
            terms.append(t)
        if not terms:
            return True
        return z3.And(terms)

    def __eq__(self, o):
        if isinstance(o, (str, SymStr, SymChar)):
            return self.e.branch(self.eq_term(o))
        if o is None:
            return False
        raise Unsupported("SymStr == %r" % (type(o),))

    def __ne__(self, o):
        return not self.__eq__(o)

    def __hash__(self):
        raise Unsupported("hash(SymStr)")

    def __contains__(self, o):
        return self.find(o) >= 0

    def startswith(self, lit):
        lit = _chars(self.e, lit)
        if len(lit) > len(self.c):
            return False
        return SymStr(self.e, self.c[:len(lit)]) == SymStr(self.e, lit)

    def endswith(self, lit):
        lit = _chars(self.e, lit)
        if len(lit) > len(self.c):
            return False
        if not lit:
            return True
        return SymStr(self.e, self.c[-len(lit):]) == SymStr(self.e, lit)

    def find(self, lit, start=0):
        lit = _chars(self.e, lit)
        n = len(lit)
        for i in range(start, len(self.c) - n + 1):
            if SymStr(self.e, self.c[i:i + n]) == SymStr(self.e, lit):
                return i
        return -1

    def _in_set(self, ch, chars):
        """does the character belong to the concrete set `chars`?  (one branch on the disjunction)"""
        if not isinstance(chars, str):
            raise Unsupported("strip with a symbolic character set")
        if isinstance(ch, str):
            return ch in chars
        if not chars:
            return False
        return self.e.branch(z3.Or([ch.z == ord(k) for k in chars]))

    def lstrip(self, chars=None):
        if chars is not None:
            i = 0
            while i < len(self.c) and self._in_set(self.c[i], chars):
                i += 1
            return SymStr(self.e, self.c[i:])
        i = 0
        while i < len(self.c) and _cspace(self.e, self.c[i]):
            i += 1
        return SymStr(self.e, self.c[i:])

    def rstrip(self, chars=None):
        if chars is not None:
            j = len(self.c)
            while j > 0 and self._in_set(self.c[j - 1], chars):
                j -= 1
            return SymStr(self.e, self.c[:j])
        j = len(self.c)
        while j > 0 and _cspace(self.e, self.c[j - 1]):
            j -= 1
        return SymStr(self.e, self.c[:j])

    def strip(self, chars=None):
        return self.lstrip(chars).rstrip(chars)

    def replace(self, old, new, count=-1):
        """str.replace for a concrete one-character pattern and a concrete replacement (one branch per character)."""
        if count != -1 or not isinstance(old, str) or len(old) != 1 or not isinstance(new, str):
            raise Unsupported("replace with a symbolic or multi-character pattern")
        out = []
        for ch in self.c:
            if self._in_set(ch, old):
                out.extend(list(new))
            else:
                out.append(ch)
        return SymStr(self.e, out)

    def split(self, sep=None, maxsplit=-1):
        if maxsplit != -1:
            raise Unsupported("split maxsplit")
        out = []
        if sep is None:
            cur = []
            for ch in self.c:
                if _cspace(self.e, ch):
                    if cur:
                        out.append(SymStr(self.e, cur))
                        cur = []
                else:
                    cur.append(ch)
            if cur:
                out.append(SymStr(self.e, cur))
            return out
        sep = _chars(self.e, sep)
        n = len(sep)
        if n == 0:
            raise ValueError("empty separator")
        i = 0
        cur = []
        while i < len(self.c):
            if i + n <= len(self.c) and SymStr(self.e, self.c[i:i + n]) == SymStr(self.e, sep):
                out.append(SymStr(self.e, cur))
                cur = []
                i += n
            else:
                cur.append(self.c[i])
                i += 1
        out.append(SymStr(self.e, cur))
        return out

    def concrete(self, model):
        """Render under a model (for witnesses)."""
        out = []
        for ch in self.c:
            if isinstance(ch, str):
                out.append(ch)
            else:
                out.append(chr(model.eval(ch.z, model_completion=True).as_long()))
        return "".join(out)

    def is_concrete(self):
        return all(isinstance(ch, str) for ch in self.c)

    def __repr__(self):
        if self.is_concrete():
            return repr("".join(self.c))
        raise Unsupported("repr(SymStr)")

    def __str__(self):
        if self.is_concrete():
            return "".join(self.c)
        raise Unsupported("str(SymStr)")

    def __format__(self, spec):
        raise Unsupported("format(SymStr)")
