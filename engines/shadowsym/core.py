"""shadowsym core: dynamic symbolic execution of real Python code by proxy values.

The function under test is *re-executed* once per path.  Proxy values (see
proxies.py) wrap z3 terms; whenever Python needs a concrete truth value the
proxy calls Engine.branch(cond): the solver decides which outcomes are feasible
under the current path condition, one is followed and the other decision prefix
is queued.  A path ends with a return value or an exception; the harness then
asks further z3 queries over the path condition (Engine.check / Engine.model).

Soundness conventions:
  * solver `unknown`  -> Inconclusive (never treated as sat or unsat)
  * unsupported proxy operation -> Unsupported (a kind of Inconclusive)
  * per-path decision budget exceeded -> Inconclusive
  * control exceptions derive from BaseException so that code under test
    cannot swallow them with `except Exception`.
"""
import time
import z3


class Control(BaseException):
    pass


class Infeasible(Control):
    """Path condition became unsatisfiable (an assume() cut the path)."""


class Inconclusive(Control):
    """The engine cannot decide; the whole run must be reported inconclusive."""


class Unsupported(Inconclusive):
    """A proxy was used in a way the engine does not model."""


class Frontier(Control):
    """Raised in frontier mode when a path needs more new decisions than allowed."""


class Stats(object):
    def __init__(self):
        self.paths = 0
        self.queries = 0
        self.solver_s = 0.0
        self.decisions = 0
        self.infeasible = 0

    def add(self, o):
        self.paths += o.paths
        self.queries += o.queries
        self.solver_s += o.solver_s
        self.decisions += o.decisions
        self.infeasible += o.infeasible

    def as_dict(self):
        return dict(paths=self.paths, queries=self.queries,
                    solver_s=round(self.solver_s, 3), decisions=self.decisions,
                    infeasible_prefixes=self.infeasible)


class Engine(object):
    def __init__(self, max_decisions=4000, timeout_ms=60000):
        self.stats = Stats()
        self.max_decisions = max_decisions
        self.timeout_ms = timeout_ms
        self.solver = None
        self._model = None
        self.names = 0
        self.judging = False

    # ------------------------------------------------------------------ solver
    def _new_solver(self):
        s = z3.Solver()
        s.set("timeout", self.timeout_ms)
        return s

    def _check(self, *extra):
        t = time.time()
        self.stats.queries += 1
        r = self.solver.check(*extra)
        self.stats.solver_s += time.time() - t
        if r == z3.unknown:
            raise Inconclusive("solver unknown: %s" % self.solver.reason_unknown())
        return r

    def check(self, *extra):
        """'sat' / 'unsat' of path condition plus extra constraints."""
        r = self._check(*extra)
        if r == z3.sat:
            return "sat"
        return "unsat"

    def model(self, *extra):
        if not extra and self._model is not None:
            return self._model
        r = self._check(*extra)
        if r != z3.sat:
            return None
        m = self.solver.model()
        if not extra:
            self._model = m
        return m

    def assume(self, cond):
        """Add a constraint to the path condition (before the code it constrains)."""
        if isinstance(cond, bool):
            if not cond:
                raise Infeasible()
            return
        self.solver.add(cond)
        if self._model is not None:
            v = self._model.eval(cond, model_completion=True)
            if not z3.is_true(v):
                self._model = None
        self.assumed.append(cond)

    # ------------------------------------------------------------------ vars
    def fresh(self, base):
        self.names += 1
        return "%s!%d" % (base, self.names)

    def int_var(self, name, lo=None, hi=None):
        v = z3.Int(name)
        if lo is not None:
            self.assume(v >= lo)
        if hi is not None:
            self.assume(v <= hi)
        return v

    def bool_var(self, name):
        return z3.Bool(name)

    # ------------------------------------------------------------------ branch
    def branch(self, cond):
        """cond: z3 BoolRef (or python bool).  Returns a python bool; forks."""
        if isinstance(cond, bool):
            return cond
        if self.judging:
            raise RuntimeError("proxy branched inside the judge (oracle bug)")
        cond = z3.simplify(cond)
        if z3.is_true(cond):
            return True
        if z3.is_false(cond):
            return False
        if self.pos < len(self.prefix):
            d = self.prefix[self.pos]
            if not isinstance(d, bool):
                raise Inconclusive("non-deterministic replay: expected a boolean decision")
        else:
            if len(self.decisions) >= self.max_decisions:
                raise Inconclusive("decision budget %d exceeded on one path" % self.max_decisions)
            if self.frontier_depth is not None and len(self.decisions) >= self.frontier_depth:
                raise Frontier()
            # use the cached model to learn one feasible side for free
            can_t = can_f = None
            m = self._model
            if m is not None:
                v = m.eval(cond, model_completion=True)
                if z3.is_true(v):
                    can_t = True
                elif z3.is_false(v):
                    can_f = True
            mt = None
            if can_t is None:
                can_t = self._check(cond) == z3.sat
                if can_t:
                    mt = self.solver.model()
            if can_f is None:
                can_f = self._check(z3.Not(cond)) == z3.sat
                if can_f and not can_t:
                    self._model = self.solver.model()
            if can_t and mt is not None:
                self._model = mt
            if can_t and can_f:
                self.work.append(self.decisions + [False])
                d = True
            elif can_t:
                d = True
            elif can_f:
                d = False
            else:
                raise Infeasible()
        self.decisions.append(d)
        self.pos += 1
        c = cond if d else z3.Not(cond)
        self.solver.add(c)
        if self._model is not None:
            v = self._model.eval(c, model_completion=True)
            if not z3.is_true(v):
                self._model = None
        return d

    def choose(self, term, limit=4096):
        """Concretise an Int term: returns a python int and forks over every feasible value.
        The decision record holds the chosen value, so replay is deterministic."""
        if self.judging:
            raise RuntimeError("proxy concretised inside the judge (oracle bug)")
        term = z3.simplify(term)
        if z3.is_int_value(term):
            return term.as_long()
        if self.pos < len(self.prefix):
            d = self.prefix[self.pos]
            if not (isinstance(d, tuple) and d[0] == "v"):
                raise Inconclusive("non-deterministic replay: expected a value decision")
        else:
            if len(self.decisions) >= self.max_decisions:
                raise Inconclusive("decision budget %d exceeded on one path" % self.max_decisions)
            if self.frontier_depth is not None and len(self.decisions) >= self.frontier_depth:
                raise Frontier()
            vals = []
            self.solver.push()
            try:
                while True:
                    if self._check() != z3.sat:
                        break
                    v = self.solver.model().eval(term, model_completion=True).as_long()
                    vals.append(v)
                    if len(vals) > limit:
                        raise Inconclusive("more than %d feasible values to concretise" % limit)
                    self.solver.add(term != v)
            finally:
                self.solver.pop()
            if not vals:
                raise Infeasible()
            vals.sort()
            for v in reversed(vals[1:]):
                self.work.append(self.decisions + [("v", v)])
            d = ("v", vals[0])
        self.decisions.append(d)
        self.pos += 1
        c = term == d[1]
        self.solver.add(c)
        if self._model is not None:
            if not z3.is_true(self._model.eval(c, model_completion=True)):
                self._model = None
        return d[1]

    # ------------------------------------------------------------------ explore
    def explore(self, fn, on_path, prefixes=None, max_paths=10 ** 8, frontier_depth=None,
                deadline=None):
        """Run fn(engine) on every feasible path below each prefix.

        on_path(engine, kind, value) with kind in {'ok','exc'}.
        Returns list of frontier prefixes (only in frontier mode).
        """
        self.work = [list(p) for p in (prefixes if prefixes is not None else [[]])]
        self.frontier_depth = frontier_depth
        frontier = []
        n = 0
        while self.work:
            if n >= max_paths:
                raise Inconclusive("path budget %d exceeded" % max_paths)
            if deadline is not None and time.time() > deadline:
                raise Inconclusive("time budget exceeded with %d prefixes pending" % len(self.work))
            self.prefix = self.work.pop()
            self.pos = 0
            self.decisions = []
            self.assumed = []
            self.solver = self._new_solver()
            self._model = None
            self.names = 0
            try:
                res = ("ok", fn(self))
            except Infeasible:
                self.stats.infeasible += 1
                continue
            except Frontier:
                frontier.append(list(self.decisions))
                continue
            except Inconclusive:
                raise
            except Exception as ex:  # outcome of the code under test
                res = ("exc", ex)
            if self.pos < len(self.prefix):
                raise Inconclusive("non-deterministic replay: prefix not consumed")
            n += 1
            self.stats.paths += 1
            self.stats.decisions += len(self.decisions)
            self.judging = True
            try:
                on_path(self, res[0], res[1])
            finally:
                self.judging = False
        return frontier
