"""gimsym - bounded symbolic execution of gfortran's GIMPLE (SSA dump, -O0) of generated Fortran wrappers.

The Fortran the generator writes is compiled by the real gfortran; `-fdump-tree-ssa` prints every
function as a flat control-flow graph of three-address statements with all names typed.  gimple.py
parses that text, gexec.py executes it over llsym's memory model (objects, bounds, liveness), with
libgfortran's string helpers as intrinsic models and every bind(C) callee a stub of the harness.
"""
