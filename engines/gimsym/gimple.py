"""Parser for gfortran's `-fdump-tree-ssa` text (GCC 12, -O0).

A dump is a sequence of functions

    ;; Function NAME (ASMNAME, funcdef_no=..)
    RET NAME (PARAMS)
    {
      TYPE name;            declarations (locals and SSA names)
      ...
      <bb 2> :
      statements
    }

Statements are three-address: assignments (with casts, unary / binary operators, MAX/MIN/ABS,
loads, stores, address-of, calls), PHI nodes, conditional and unconditional gotos, switch, return.
Everything is parsed into tuples; a form the parser does not know becomes ('unknown', text) and is
an error only if it is executed.
"""
import re


class GimpleError(Exception):
    pass


# ---------------------------------------------------------------------------- types
class GType(object):
    __slots__ = ("kind", "bits", "signed", "to", "elem", "n", "lb", "name", "text")

    def __init__(self, kind, bits=0, signed=True, to=None, elem=None, n=None, lb=0, name=None, text=""):
        self.kind, self.bits, self.signed, self.to, self.elem, self.n, self.lb, self.name, self.text = \
            kind, bits, signed, to, elem, n, lb, name, text

    def __repr__(self):
        return "<%s>" % self.text


INT_BASE = {
    "sizetype": (64, False), "bitsizetype": (128, False), "ssizetype": (64, True), "sbitsizetype": (128, True),
    "unsigned long": (64, False), "long unsigned int": (64, False), "long int": (64, True), "long": (64, True),
    "int": (32, True), "unsigned int": (32, False), "char": (8, True), "unsigned char": (8, False),
    "signed char": (8, True), "short int": (16, True), "short unsigned int": (16, False), "_Bool": (8, False),
    "long long int": (64, True), "long long unsigned int": (64, False), "__int128": (128, True),
    "__int128 unsigned": (128, False),
}
TYPE_START = re.compile(r"(integer\(|logical\(|character\(|real\(|complex\(|struct |union |void\b|unsigned\b|long\b|int\b|"
                        r"sizetype\b|bitsizetype\b|ssizetype\b|char\b|signed\b|short\b|float\b|double\b|<unnamed|const |"
                        r"_Bool\b|__int128\b|volatile )")


def parse_type(text):
    raw = text
    t = re.sub(r"\b(restrict|const|volatile|static|register)\b", " ", text)
    t = re.sub(r"\s+", " ", t).strip()
    return _ptype(t, raw)


def _ptype(t, raw):
    t = t.strip()
    if t.endswith("*") or t.endswith("&"):
        return GType("ptr", 64, False, to=_ptype(t[:-1], raw), text=t)
    if t.endswith("]"):
        depth = 0
        for k in range(len(t) - 1, -1, -1):
            if t[k] == "]":
                depth += 1
            elif t[k] == "[":
                depth -= 1
                if depth == 0:
                    break
        dims = t[k + 1:-1]
        elem = _ptype(t[:k], raw)
        n, lb = None, 0
        if ":" in dims:
            lo, hi = dims.split(":", 1)
            lo, hi = lo.strip(), hi.strip()
            if re.match(r"^-?\d+$", lo):
                lb = int(lo)
            if re.match(r"^-?\d+$", lo) and re.match(r"^-?\d+$", hi):
                n = int(hi) - int(lo) + 1
        elif re.match(r"^\d+$", dims.strip()):
            n = int(dims)
        return GType("array", elem=elem, n=n, lb=lb, text=t)
    m = re.match(r"^(integer|logical|character)\(kind=(\d+)\)$", t)
    if m:
        return GType("int", int(m.group(2)) * 8, m.group(1) == "integer", name=m.group(1), text=t)
    m = re.match(r"^real\(kind=(\d+)\)$", t)
    if m:
        return GType("float", int(m.group(1)) * 8, text=t)
    if t in ("float", "double"):
        return GType("float", 32 if t == "float" else 64, text=t)
    if t in INT_BASE:
        b, s = INT_BASE[t]
        return GType("int", b, s, name=t, text=t)
    m = re.match(r"^<unnamed-(unsigned|signed):(\d+)>$", t)
    if m:
        return GType("int", int(m.group(2)), m.group(1) == "signed", text=t)
    if t == "void":
        return GType("void", text=t)
    m = re.match(r"^(struct|union) (\S+)$", t)
    if m:
        return GType("struct", name=m.group(2), text=t)
    return GType("unknown", text=t)


# ---------------------------------------------------------------------------- expression cursor
NAME_RE = re.compile(r"[A-Za-z_.][A-Za-z0-9_.$]*(?:\(D\))?")
NUM_RE = re.compile(r"-?(?:\d+\.\d*(?:e[+-]?\d+)?|\d+e[+-]?\d+|\d+)B?|-?Inf|-?Nan", re.I)
BINOPS = ["<<", ">>", "<=", ">=", "==", "!=", "+", "-", "*", "/", "%", "&", "|", "^", "<", ">",
          "r<<", "r>>"]
WORD_BINOPS = {"FLOOR_DIV_EXPR": "floordiv", "CEIL_DIV_EXPR": "ceildiv", "EXACT_DIV_EXPR": "/", "TRUNC_MOD_EXPR": "%",
               "FLOOR_MOD_EXPR": "floormod", "/[ex]": "/", "%[fl]": "floormod", "/[fl]": "floordiv", "/[cl]": "ceildiv",
               "RDIV_EXPR": "fdiv"}


class Cur(object):
    def __init__(self, s):
        self.s, self.i = s, 0

    def ws(self):
        while self.i < len(self.s) and self.s[self.i] in " \t":
            self.i += 1

    def peek(self, n=1):
        self.ws()
        return self.s[self.i:self.i + n]

    def eat(self, tok):
        self.ws()
        if self.s.startswith(tok, self.i):
            self.i += len(tok)
            return True
        return False

    def expect(self, tok):
        if not self.eat(tok):
            raise GimpleError("expected %r at %r" % (tok, self.s[self.i:self.i + 40]))

    def rest(self):
        self.ws()
        return self.s[self.i:]

    def done(self):
        self.ws()
        return self.i >= len(self.s)

    def balanced(self, open_, close):
        """text inside the bracket that starts at the cursor; cursor moves past the closing one"""
        self.ws()
        assert self.s[self.i] == open_
        depth, k = 0, self.i
        in_str = False
        while k < len(self.s):
            ch = self.s[k]
            if in_str:
                if ch == "\\":
                    k += 1
                elif ch == '"':
                    in_str = False
            elif ch == '"':
                in_str = True
            elif ch == open_:
                depth += 1
            elif ch == close:
                depth -= 1
                if depth == 0:
                    out = self.s[self.i + 1:k]
                    self.i = k + 1
                    return out
            k += 1
        raise GimpleError("unbalanced %s in %r" % (open_, self.s))


def parse_string(c):
    assert c.s[c.i] == '"'
    k = c.i + 1
    out = []
    while c.s[k] != '"':
        ch = c.s[k]
        if ch == "\\":
            k += 1
            e = c.s[k]
            if e in "01234567":
                j = k
                while j < len(c.s) and j < k + 3 and c.s[j] in "01234567":
                    j += 1
                out.append(int(c.s[k:j], 8))
                k = j
                continue
            out.append({"n": 10, "t": 9, "r": 13, "0": 0, "\\": 92, '"': 34, "'": 39, "a": 7, "b": 8, "f": 12, "v": 11}.get(e, ord(e)))
        else:
            out.append(ord(ch))
        k += 1
    c.i = k + 1
    return bytes(b & 0xFF for b in out)


def parse_operand(c):
    """operand := constant | &lvalue | lvalue | special<...>"""
    c.ws()
    s, i = c.s, c.i
    if i >= len(s):
        raise GimpleError("operand expected")
    if s[i] == "&":
        c.i += 1
        return ("addr", parse_lvalue(c))
    m = NUM_RE.match(s, i)
    if m and (s[i].isdigit() or s[i] == "-" or s[i] in "IN"):
        txt = m.group(0)
        nxt = s[m.end():m.end() + 1]
        if not (nxt.isalpha() or nxt == "_") or txt.endswith("B"):
            if not (s[i] in "IN" and not re.match(r"-?(Inf|Nan)\b", s[i:], re.I)):
                c.i = m.end()
                if txt.endswith("B") and re.match(r"^-?\d+B$", txt):
                    return ("ptrconst", int(txt[:-1]))
                if re.match(r"^-?\d+$", txt):
                    return ("int", int(txt))
                return ("float", txt)
    if s[i] == '"':
        return ("str", parse_string(c))
    return parse_lvalue(c)


def parse_postfix(c, base):
    while True:
        c.ws()
        if c.eat("->"):
            m = re.compile(r"[A-Za-z_]\w*").match(c.s, c.i)
            c.i = m.end()
            base = ("field", ("deref", base), m.group(0))
        elif c.peek() == "[":
            idx_text = c.balanced("[", "]")
            idx = parse_rhs(Cur(idx_text)) if idx_text.strip() else ("int", 0)
            lb, sz = None, None
            c.ws()
            if c.peek() == "{":
                ann = c.balanced("{", "}")
                m = re.match(r"\s*lb:\s*(-?\d+)\s+sz:\s*(\d+)\s*$", ann)
                if m:
                    lb, sz = int(m.group(1)), int(m.group(2))
                else:
                    m2 = re.match(r"\s*lb:\s*(\S+)\s+sz:\s*(\S+)\s*$", ann)
                    if m2:
                        lb, sz = ("name", m2.group(1)) if not re.match(r"^-?\d+$", m2.group(1)) else int(m2.group(1)), \
                                 ("name", m2.group(2)) if not re.match(r"^-?\d+$", m2.group(2)) else int(m2.group(2))
            base = ("index", base, idx, lb, sz)
        elif c.peek() == "." and c.s[c.i + 1:c.i + 2].isalpha() or (c.peek() == "." and c.s[c.i + 1:c.i + 2] == "_"):
            # only reached for a parenthesised base; dotted names are split by the executor
            c.i += 1
            m = re.compile(r"[A-Za-z_]\w*").match(c.s, c.i)
            c.i = m.end()
            base = ("field", base, m.group(0))
        else:
            return base


def parse_lvalue(c):
    c.ws()
    s = c.s
    if c.eat("*"):
        inner = parse_lvalue_nopost(c)
        return parse_postfix(c, ("deref", inner))
    if c.peek() == "(":
        inner_text = c.balanced("(", ")")
        inner = parse_lvalue(Cur(inner_text))
        return parse_postfix(c, inner)
    if s[c.i:c.i + 1] == '"':
        return parse_postfix(c, ("str", parse_string(c)))
    if s.startswith("MEM", c.i) and s[c.i + 3:c.i + 4] in " <[":
        c.i += 3
        c.ws()
        ty = None
        if c.peek() == "<":
            ty = parse_type(c.balanced("<", ">"))
        c.ws()
        body = c.balanced("[", "]")
        bc = Cur(body)
        pty = None
        if bc.peek() == "(":
            pty = parse_type(bc.balanced("(", ")"))
        base = parse_operand(bc)
        off = ("int", 0)
        if bc.eat("+"):
            off = parse_operand(bc)
        node = ("mem", ty, pty, base, off)
        return parse_postfix(c, node)
    for w in ("NON_LVALUE_EXPR", "VIEW_CONVERT_EXPR"):
        if s.startswith(w, c.i):
            c.i += len(w)
            c.ws()
            ty = None
            if w == "VIEW_CONVERT_EXPR":
                ty = parse_type(c.balanced("<", ">"))
                inner = parse_rhs(Cur(c.balanced("(", ")")))
                return parse_postfix(c, ("viewconv", ty, inner))
            inner = parse_rhs(Cur(c.balanced("<", ">")))
            return inner
    m = NAME_RE.match(s, c.i)
    if not m:
        raise GimpleError("lvalue expected at %r" % s[c.i:c.i + 40])
    c.i = m.end()
    return parse_postfix(c, ("name", m.group(0)))


def parse_lvalue_nopost(c):
    c.ws()
    if c.peek() == "(":
        inner_text = c.balanced("(", ")")
        return parse_lvalue(Cur(inner_text))
    m = NAME_RE.match(c.s, c.i)
    if not m:
        raise GimpleError("name expected at %r" % c.s[c.i:c.i + 40])
    c.i = m.end()
    return ("name", m.group(0))


def split_args(text):
    out, depth, cur, in_str = [], 0, "", False
    k = 0
    while k < len(text):
        ch = text[k]
        if in_str:
            cur += ch
            if ch == "\\":
                cur += text[k + 1]
                k += 1
            elif ch == '"':
                in_str = False
        elif ch == '"':
            in_str = True
            cur += ch
        elif ch in "([{<" and not (ch == "<" and text[k:k + 2] in ("<<", "<=")):
            depth += 1
            cur += ch
        elif ch in ")]}>" and not (ch == ">" and (text[k - 1:k + 1] in (">>", "->") or text[k:k + 2] == ">=")):
            depth -= 1
            cur += ch
        elif ch == "," and depth == 0:
            out.append(cur.strip())
            cur = ""
        else:
            cur += ch
        k += 1
    if cur.strip():
        out.append(cur.strip())
    return out


def parse_rhs(c):
    c.ws()
    s = c.s
    start = c.i
    rest = s[c.i:]
    if rest.startswith("{"):
        body = c.balanced("{", "}")
        if body.strip().startswith("CLOBBER"):
            return ("clobber",)
        if body.strip() == "":
            return ("zeroinit",)
        return ("unknown", rest)
    m = re.match(r"(MAX_EXPR|MIN_EXPR|ABS_EXPR|ABSU_EXPR)\s*<", rest)
    if m:
        c.i += len(m.group(1))
        args = [parse_rhs(Cur(a)) for a in split_args(c.balanced("<", ">"))]
        return ({"MAX_EXPR": "max", "MIN_EXPR": "min", "ABS_EXPR": "abs", "ABSU_EXPR": "abs"}[m.group(1)],) + tuple(args)
    # cast
    if rest.startswith("(") and TYPE_START.match(rest[1:].lstrip()):
        ty = parse_type(c.balanced("(", ")"))
        inner = parse_operand(c)
        if not c.done():
            raise GimpleError("trailing text after cast: %r" % c.rest())
        return ("cast", ty, inner)
    # unary
    if rest[:1] in "-~!" and not NUM_RE.match(rest):
        op = rest[0]
        c.i += 1
        return ("un", op, parse_operand(c))
    # call?  NAME (args)   -- but `(D)` belongs to names
    m = re.match(r"([A-Za-z_.][A-Za-z0-9_.$]*) \(", rest)
    if m and not rest.startswith("MEM"):
        c.i += len(m.group(1))
        args = [parse_operand(Cur(a)) if a else None for a in split_args(c.balanced("(", ")"))]
        if c.done():
            return ("call", m.group(1), args)
        c.i = start
    a = parse_operand(c)
    if c.done():
        return a
    c.ws()
    for w, op in WORD_BINOPS.items():
        if c.s.startswith(w, c.i):
            c.i += len(w)
            b = parse_operand(c)
            return ("bin", op, a, b)
    if c.eat("?"):
        b = parse_operand(c)
        c.expect(":")
        d = parse_operand(c)
        return ("cond", a, b, d)
    for op in BINOPS:
        if c.s.startswith(op, c.i):
            c.i += len(op)
            b = parse_operand(c)
            if not c.done():
                raise GimpleError("trailing text after binary expression: %r" % c.rest())
            return ("bin", op, a, b)
    raise GimpleError("cannot parse expression %r" % s)


# ---------------------------------------------------------------------------- functions
class GFunction(object):
    def __init__(self, name, asm, ret, params):
        self.name, self.asm, self.ret, self.params = name, asm, ret, params   # params: [(GType, name)]
        self.decls = {}       # name -> GType
        self.blocks = {}      # bb number -> list of statements
        self.order = []
        self.labels = {}      # 'L3' -> (bb, index)
        self.text = ""


def safe(fn, text):
    try:
        return fn(Cur(text))
    except (GimpleError, AssertionError, IndexError, AttributeError) as ex:
        return ("unknown", "%s  [%s]" % (text, ex))


def parse_stmt(line):
    t = line.strip()
    if t.startswith("# DEBUG") or t.startswith("//"):
        return None
    m = re.match(r"^# (\S+) = PHI <(.*)>$", t)
    if m:
        arms = []
        for a in split_args(m.group(2)):
            mm = re.match(r"^(.*)\((\d+)\)$", a.strip())
            arms.append((safe(parse_operand, mm.group(1)), int(mm.group(2))))
        return ("phi", m.group(1), arms)
    if t.startswith("# "):
        return None          # virtual operands
    m = re.match(r"^goto <bb (\d+)>;", t)
    if m:
        return ("goto", int(m.group(1)))
    m = re.match(r"^if \((.*)\)$", t)
    if m:
        return ("if", safe(parse_rhs, m.group(1)))
    if t == "else":
        return ("else",)
    m = re.match(r"^return\s*(.*);$", t)
    if m:
        return ("return", safe(parse_operand, m.group(1)) if m.group(1).strip() else None)
    m = re.match(r"^switch \((.*?)\) <(.*)>$", t)
    if m:
        cases = []
        default = None
        for a in split_args(m.group(2)):
            mm = re.match(r"^(default|case (-?\d+)(?: \.\.\. (-?\d+))?): <(\w+)>", a.strip())
            if not mm:
                return ("unknown", t)
            if mm.group(1) == "default":
                default = mm.group(4)
            else:
                lo = int(mm.group(2))
                hi = int(mm.group(3)) if mm.group(3) else lo
                cases.append((lo, hi, mm.group(4)))
        return ("switch", safe(parse_operand, m.group(1)), cases, default)
    m = re.match(r"^<(\w+)>(?: \[[^\]]*\])?:$", t)
    if m:
        return ("label", m.group(1))
    m = re.match(r"^(\w[\w.]*):$", t)
    if m:
        return ("label", m.group(1))
    if not t.endswith(";"):
        return ("unknown", t)
    t = t[:-1]
    if t == "__builtin_unreachable ()":
        return ("unreachable",)
    # assignment?  find top-level ' = ' / ' ={v} '
    depth, in_str = 0, False
    k = 0
    pos = None
    while k < len(t):
        ch = t[k]
        if in_str:
            if ch == "\\":
                k += 1
            elif ch == '"':
                in_str = False
        elif ch == '"':
            in_str = True
        elif ch in "([{":
            depth += 1
        elif ch in ")]}":
            depth -= 1
        elif depth == 0 and t.startswith(" = ", k):
            pos = (k, k + 3)
            break
        elif depth == 0 and t.startswith(" ={v} ", k):
            pos = (k, k + 6)
            break
        k += 1
    if pos:
        lhs, rhs = t[:pos[0]], t[pos[1]:]
        return ("assign", safe(parse_lvalue, lhs), safe(parse_rhs, rhs))
    r = safe(parse_rhs, t)
    if r[0] == "call":
        return ("callstmt", r)
    return ("unknown", t)


def parse_dump(text):
    """-> dict name -> GFunction"""
    funcs = {}
    lines = text.split("\n")
    i = 0
    asm = None
    while i < len(lines):
        ln = lines[i]
        m = re.match(r"^;; Function (\S+) \((\S+?),", ln)
        if m:
            asm = (m.group(1), m.group(2))
            i += 1
            continue
        if ln and not ln[0].isspace() and not ln.startswith(";;") and not ln.startswith("__attribute__") \
                and i + 1 < len(lines) and lines[i + 1] == "{" and ln.endswith(")"):
            # header: RET NAME (PARAMS)
            depth = 0
            for k in range(len(ln) - 1, -1, -1):
                if ln[k] == ")":
                    depth += 1
                elif ln[k] == "(":
                    depth -= 1
                    if depth == 0:
                        break
            ptext = ln[k + 1:-1]
            head = ln[:k].rstrip()
            mm = re.match(r"^(.*?)\s*([A-Za-z_.][\w.$]*)$", head)
            ret = parse_type(mm.group(1)) if mm.group(1).strip() else GType("void", text="void")
            name = mm.group(2)
            params = []
            for p in split_args(ptext):
                if p in ("", "void"):
                    continue
                pm = re.match(r"^(.*?)\s*([A-Za-z_.][\w.$]*)$", p)
                params.append((parse_type(pm.group(1)), pm.group(2)))
            f = GFunction(name, asm[1] if asm and asm[0] == name else name, ret, params)
            j = i + 2
            body = []
            while j < len(lines) and lines[j] != "}":
                body.append(lines[j])
                j += 1
            f.text = "\n".join(body)
            _parse_body(f, body)
            funcs[name] = f
            i = j + 1
            continue
        i += 1
    return funcs


def _parse_body(f, body):
    k = 0
    # declarations: until the first '<bb N> :' line
    while k < len(body) and not re.match(r"^\s*<bb \d+>", body[k]):
        t = body[k].strip()
        if t.endswith(";"):
            t = t[:-1]
            init = None
            if " = " in t and t.startswith("static"):
                t, init = t.split(" = ", 1)
            m = re.match(r"^(.*?)\s*([A-Za-z_.][\w.$]*)((?:\[[^\]]*\])*)$", t)
            if m:
                f.decls[m.group(2)] = parse_type(m.group(1) + m.group(3))
        k += 1
    cur = None
    pending_if = None
    while k < len(body):
        ln = body[k]
        m = re.match(r"^\s*<bb (\d+)>", ln)
        if m:
            cur = int(m.group(1))
            f.blocks[cur] = []
            f.order.append(cur)
            k += 1
            continue
        if not ln.strip() or cur is None:
            k += 1
            continue
        st = parse_stmt(ln)
        if st is None:
            k += 1
            continue
        if st[0] == "if":
            # if (c) \n goto A; \n else \n goto B;
            g1 = parse_stmt(body[k + 1])
            g2 = parse_stmt(body[k + 3])
            f.blocks[cur].append(("condbr", st[1], g1[1], g2[1]))
            k += 4
            continue
        if st[0] == "label":
            f.labels[st[1]] = (cur, len(f.blocks[cur]))
        f.blocks[cur].append(st)
        k += 1
