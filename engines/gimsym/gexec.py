"""Symbolic execution of parsed GIMPLE (see gimple.py) over llsym's memory model.

Values: z3 BitVec of the type's width (logicals and characters included), IEEE bit patterns for
reals, llsym Ptr for pointers.  A comparison yields a z3 Bool, converted on assignment.
Every value travels with its GIMPLE type (signedness decides extension, division, shifts,
comparisons).  Locals whose address is taken, and all aggregates, live in memory objects; the rest
are registers.  Bounds, liveness and allocator checks are llsym's.
"""
import re
import struct

import z3

from engines.shadowsym.core import Unsupported, Inconclusive
from engines.llsym import ir as llir
from engines.llsym import models
from engines.llsym.exec import Executor, Ptr, NULL, MemViolation, PathAbort, conc, bv
from engines.gimsym.gimple import GType, parse_type

BLANK = z3.BitVecVal(32, 8)
I64 = GType("int", 64, True, name="integer", text="integer(kind=8)")
I32 = GType("int", 32, True, name="integer", text="integer(kind=4)")
U64 = GType("int", 64, False, name="sizetype", text="sizetype")
CHAR = GType("int", 8, True, name="character", text="character(kind=1)")
VOIDP = GType("ptr", 64, False, to=GType("void", text="void"), text="void *")
BOOLT = GType("bool", 1, False, text="<bool>")


class _EmptyModule(object):
    def __init__(self):
        self.functions, self.globals, self.types = {}, {}, {}


class Frame(object):
    def __init__(self, fn):
        self.fn = fn
        self.env = {}        # register name -> value
        self.mem = {}        # memory variable name -> Obj
        self.types = dict(fn.decls)
        for t, n in fn.params:
            self.types[n] = t
        self.prev = None


def base_names_with_address(node, out):
    """names whose storage is referenced: &x, x.f, x[i] (not through a pointer)"""
    if isinstance(node, tuple):
        if node and node[0] == "addr":
            b = node[1]
            while isinstance(b, tuple) and b[0] in ("field", "index", "viewconv"):
                b = b[1] if b[0] != "viewconv" else b[2]
            if isinstance(b, tuple) and b[0] == "name":
                out.add(b[1])
        if node and node[0] in ("field", "index"):
            b = node
            while isinstance(b, tuple) and b[0] in ("field", "index"):
                b = b[1]
            if isinstance(b, tuple) and b[0] == "name":
                out.add(b[1])
        for x in node:
            base_names_with_address(x, out)
    elif isinstance(node, list):
        for x in node:
            base_names_with_address(x, out)


class GExec(object):
    def __init__(self, e, functions, layouts, cap=4, max_steps=200000):
        self.e = e
        self.funcs = dict(functions)
        for f in list(functions.values()):
            self.funcs.setdefault(f.asm, f)
        self.layouts = dict(layouts)
        self.m = Executor(e, _EmptyModule(), cap=cap)
        self.cap = cap
        self.stubs = {}
        self.steps, self.max_steps = 0, max_steps
        self.strconst = {}
        self.events = self.m.events
        self.depth = 0

    # ------------------------------------------------------------------ types
    def sizeof(self, t):
        if t.kind in ("int", "float"):
            return t.bits // 8
        if t.kind == "ptr":
            return 8
        if t.kind == "array":
            if t.n is None:
                raise Unsupported("size of an array of unknown extent (%s)" % t.text)
            return t.n * self.sizeof(t.elem)
        if t.kind == "struct":
            lay = self.layout(t.name)
            return lay["size"]
        raise Unsupported("size of %s" % t.text)

    def layout(self, name):
        lay = self.layouts.get(name) or self.layouts.get(name.lower())
        if lay is None:
            lay = self.builtin_layout(name)
            if lay is None:
                raise Unsupported("layout of struct %s is not known" % name)
            self.layouts[name] = lay
        return lay

    def builtin_layout(self, name):
        """gfortran's own aggregates (GCC 12): array descriptors and class containers"""
        m = re.match(r"^array(\d\d)_", name)
        if m:
            rank = int(m.group(1))
            return {"size": 40 + 24 * rank, "align": 8, "fields": {
                "data": (0, "ptr", 8, None, None), "offset": (8, "int", 8, None, None),
                "dtype": (16, "struct", 16, "dtype_type", None), "span": (32, "int", 8, None, None),
                "dim": (40, "struct", 24, "descriptor_dimension", rank, None, True)}}
        if name == "dtype_type":
            return {"size": 16, "align": 8, "fields": {
                "elem_len": (0, "uint", 8, None, None), "version": (8, "int", 4, None, None), "rank": (12, "int", 1, None, None),
                "type": (13, "int", 1, None, None), "attribute": (14, "int", 2, None, None)}}
        if name == "descriptor_dimension":
            return {"size": 24, "align": 8, "fields": {
                "stride": (0, "int", 8, None, None), "lbound": (8, "int", 8, None, None), "ubound": (16, "int", 8, None, None)}}
        m = re.match(r"^__class_\w+?_(?:MOD_)?([A-Za-z]\w*)_t$", name)
        if m:
            # {_data, _vptr}; the dynamic type is the declared one (no extension types are generated)
            tn = None
            for k in range(len(name)):
                cand = name[k:-2].lower()
                if cand in self.layouts:
                    tn = cand
                    break
            dt = GType("ptr", 64, False, to=GType("struct", name=tn, text="struct %s" % tn), text="struct %s *" % tn) if tn else VOIDP
            return {"size": 16, "align": 8, "fields": {"_data": (0, "ptr", 8, None, None, dt), "_vptr": (8, "ptr", 8, None, None)}}
        return None

    def field(self, t, fname):
        lay = self.layout(t.name)
        f = lay["fields"].get(fname) or lay["fields"].get(fname.lower())
        if f is None:
            raise Unsupported("struct %s has no field %s" % (t.name, fname))
        off, kind, size, tyname, count = f[:5]
        if kind == "int":
            ft = GType("int", size * 8, True, name="integer", text="integer(kind=%d)" % size)
        elif kind == "uint":
            ft = GType("int", size * 8, False, text="unsigned(%d)" % size)
        elif kind == "float":
            ft = GType("float", size * 8, text="real(kind=%d)" % size)
        elif kind == "ptr":
            ft = f[5] if len(f) > 5 and f[5] is not None else VOIDP
        elif kind == "struct":
            ft = GType("struct", name=tyname, text="struct " + tyname)
        else:
            raise Unsupported("field kind %s" % kind)
        if count is not None and (count != 1 or (len(f) > 6 and f[6])):
            ft = GType("array", elem=ft, n=count, lb=0, text=ft.text + "[%s]" % count)
        return off, ft

    # ------------------------------------------------------------------ value helpers
    def coerce(self, v, t):
        """bring a raw evaluation result to the representation of type t"""
        if t is None or t.kind in ("void", "unknown"):
            return v
        if t.kind == "ptr":
            if isinstance(v, int):
                if v == 0:
                    return NULL
                raise Unsupported("integer constant %d as a pointer" % v)
            if isinstance(v, Ptr):
                return v
            if z3.is_bv(v):
                c = conc(z3.simplify(v))
                if c == 0:
                    return NULL
                return self.m.cast_int_to_ptr(v) if hasattr(self.m, "cast_int_to_ptr") else self._inttoptr(v)
            return v
        if t.kind == "int":
            if isinstance(v, bool):
                v = int(v)
            if isinstance(v, int):
                return z3.BitVecVal(v, t.bits)
            if isinstance(v, tuple) and v and v[0] == "fconst":
                raise Unsupported("floating constant assigned to an integer")
            if z3.is_bool(v):
                return z3.If(v, z3.BitVecVal(1, t.bits), z3.BitVecVal(0, t.bits))
            if isinstance(v, Ptr):
                raise Unsupported("pointer stored as an integer")
            if v.size() != t.bits:
                raise Unsupported("width mismatch: %d-bit value for %s" % (v.size(), t.text))
            return v
        if t.kind == "float":
            if isinstance(v, tuple) and v[0] == "fconst":
                return self.fconst(v[1], t.bits)
            if isinstance(v, int):
                return self.fconst(float(v), t.bits)
            return v
        if t.kind == "bool":
            return self.truth(v)
        return v

    def fconst(self, d, bits):
        if isinstance(d, str):
            d = float(d.replace("Inf", "inf").replace("Nan", "nan"))
        if bits == 32:
            return z3.BitVecVal(struct.unpack("<I", struct.pack("<f", d))[0], 32)
        if bits == 64:
            return z3.BitVecVal(struct.unpack("<Q", struct.pack("<d", d))[0], 64)
        raise Unsupported("floating constant of %d bits" % bits)

    def truth(self, v):
        if isinstance(v, bool):
            return z3.BoolVal(v)
        if isinstance(v, int):
            return z3.BoolVal(v != 0)
        if z3.is_bool(v):
            return v
        if isinstance(v, Ptr):
            return z3.Not(self.m.ptr_eq(v, NULL))
        return v != 0

    def _inttoptr(self, x):
        c = conc(z3.simplify(x))
        if c == 0:
            return NULL
        if c is not None:
            oid, off = c >> 32, c & 0xFFFFFFFF
            for o in self.m.objects:
                if o.id == oid:
                    return Ptr(o, off)
        raise Unsupported("integer to pointer conversion of a non-address")

    def _ptrtoint(self, p, bits=64):
        o = bv(p.off) if p.obj is None else z3.simplify(z3.BitVecVal(p.obj.id << 32, 64) + bv(p.off))
        return o if bits == 64 else z3.Extract(bits - 1, 0, o)

    # ------------------------------------------------------------------ names
    def resolve(self, fr, name):
        """-> (kind, key, fields) kind: 'reg' | 'mem' | 'param-default' | 'undef'"""
        n = name
        default = False
        if n.endswith("(D)"):
            n = n[:-3]
            default = True
        parts = n.split(".")
        # longest declared prefix
        for k in range(len(parts), 0, -1):
            cand = ".".join(parts[:k])
            if cand == "":
                continue
            if cand in fr.types or cand in fr.env or cand in fr.mem:
                return cand, parts[k:], default
            m = re.match(r"^(.*)_(\d+)$", cand)
            if m and (m.group(1) in fr.types) and fr.types[m.group(1)].kind not in ("struct", "array"):
                # an SSA version of a declared scalar variable
                fr.types[cand] = fr.types[m.group(1)]
                return cand, parts[k:], default
        raise Unsupported("unknown name %s in %s" % (name, fr.fn.name))

    def read_name(self, fr, name):
        cand, fields, default = self.resolve(fr, name)
        if cand in fr.mem:
            p, t = Ptr(fr.mem[cand], 0), fr.types[cand]
            for f in fields:
                off, t2 = self.field(t, f)
                p, t = self.m.padd(p, off), t2
            return self.load(p, t), t
        if fields:
            raise Unsupported("component access on register %s" % name)
        if cand in fr.env:
            return fr.env[cand], fr.types.get(cand)
        if default:
            m = re.match(r"^(.*)_(\d+)$", cand)
            basen = m.group(1)
            t = fr.types.get(cand) or fr.types.get(basen)
            if basen in fr.env:
                return fr.env[basen], t
            # an uninitialised local: arbitrary value
            v = self.undef(t, cand)
            fr.env[cand] = v
            return v, t
        t = fr.types.get(cand)
        if t is not None:
            v = self.undef(t, cand)
            fr.env[cand] = v
            return v, t
        raise Unsupported("read of unset name %s" % name)

    def undef(self, t, name):
        if t is None:
            raise Unsupported("undefined value of unknown type (%s)" % name)
        if t.kind in ("int", "float"):
            return self.m.fresh("undef_" + re.sub(r"\W", "_", name), t.bits)
        if t.kind == "ptr":
            return NULL
        raise Unsupported("undefined aggregate %s" % name)

    # ------------------------------------------------------------------ memory
    def load(self, p, t):
        if not isinstance(p, Ptr):
            raise Unsupported("load through a non-pointer")
        if t.kind in ("int", "float"):
            return self.m.load_int(p, t.bits)
        if t.kind == "ptr":
            return self.m.load_ptr(p)
        if t.kind in ("struct", "array"):
            return ("agg", p, t)
        raise Unsupported("load of %s" % t.text)

    def store(self, p, v, t):
        if t.kind in ("int", "float"):
            return self.m.store_int(p, self.coerce(v, t), t.bits)
        if t.kind == "ptr":
            return self.m.store_ptr(p, self.coerce(v, t))
        if t.kind in ("struct", "array"):
            n = self.sizeof(t)
            if isinstance(v, tuple) and v[0] == "agg":
                models.copy_bytes(self.m, p, v[1], z3.BitVecVal(n, 64), "aggregate assignment")
                return
            if isinstance(v, tuple) and v[0] == "zeroinit":
                models.m_memset(self.m, "memset", [p, z3.BitVecVal(0, 32), z3.BitVecVal(n, 64)], None, None)
                return
            raise Unsupported("aggregate store of %r" % (v,))
        raise Unsupported("store of %s" % t.text)

    def addr_of(self, fr, lv):
        k = lv[0]
        if k == "name":
            cand, fields, default = self.resolve(fr, lv[1])
            if cand not in fr.mem:
                raise Unsupported("address of register %s" % lv[1])
            p, t = Ptr(fr.mem[cand], 0), fr.types[cand]
            for f in fields:
                off, t2 = self.field(t, f)
                p, t = self.m.padd(p, off), t2
            return p, t
        if k == "deref":
            v, t = self.eval(fr, lv[1])
            if not isinstance(v, Ptr):
                raise Unsupported("dereference of a non-pointer %r" % (lv[1],))
            if t is None or t.kind != "ptr":
                raise Unsupported("dereference of a value of type %s" % (t.text if t else "?"))
            return v, t.to
        if k == "field":
            p, t = self.addr_of(fr, lv[1])
            if t.kind != "struct":
                raise Unsupported("component %s of non-struct %s" % (lv[2], t.text))
            off, t2 = self.field(t, lv[2])
            return self.m.padd(p, off), t2
        if k == "index":
            p, t = self.addr_of(fr, lv[1])
            idx, it = self.eval(fr, lv[2])
            lb, sz = lv[3], lv[4]
            et = t.elem if t.kind == "array" else t
            if sz is None:
                sz = self.sizeof(et)
            if lb is None:
                lb = t.lb if t.kind == "array" else 0
            if isinstance(lb, tuple):
                lb = self.eval(fr, lb)[0]
            if isinstance(sz, tuple):
                sz = self.eval(fr, sz)[0]
            i64 = self.to64(idx, it)
            lb64 = self.to64(lb, I64)
            sz64 = self.to64(sz, I64)
            off = z3.simplify((i64 - lb64) * sz64)
            c = conc(off)
            if c is not None and c >= 1 << 63:
                c -= 1 << 64
            return self.m.padd(p, c if c is not None else off), et
        if k == "mem":
            _, ty, pty, base, off = lv
            v, t = self.eval(fr, base)
            o, ot = self.eval(fr, off)
            if not isinstance(v, Ptr):
                raise Unsupported("MEM through a non-pointer")
            o64 = self.to64(o, ot or U64)
            c = conc(z3.simplify(o64))
            if c is not None and c >= 1 << 63:
                c -= 1 << 64
            p = self.m.padd(v, c if c is not None else o64)
            tt = ty or (pty.to if pty is not None and pty.kind == "ptr" else (t.to if t is not None and t.kind == "ptr" else None))
            if tt is None:
                raise Unsupported("MEM of unknown type")
            return p, tt
        if k == "str":
            return Ptr(self.string_object(lv[1]), 0), GType("array", elem=CHAR, n=len(lv[1]) + 1, lb=1, text="char[]")
        if k == "viewconv":
            p, t = self.addr_of(fr, lv[2])
            return p, lv[1]
        raise Unsupported("address of %r" % (lv,))

    def string_object(self, data):
        if data not in self.strconst:
            raw = data + b"\0"
            o = self.m.new_obj("strconst", len(raw), "global")
            for i, b in enumerate(raw):
                o.arr = z3.Store(o.arr, z3.BitVecVal(i, 64), z3.BitVecVal(b, 8))
            o.tag["const"] = True
            self.strconst[data] = o
        return self.strconst[data]

    def to64(self, v, t):
        if isinstance(v, int):
            return z3.BitVecVal(v, 64)
        if isinstance(v, bool):
            return z3.BitVecVal(int(v), 64)
        if z3.is_bool(v):
            return z3.If(v, z3.BitVecVal(1, 64), z3.BitVecVal(0, 64))
        if isinstance(v, Ptr):
            raise Unsupported("pointer used as an index")
        w = v.size()
        if w == 64:
            return v
        if w > 64:
            return z3.Extract(63, 0, v)
        signed = True if t is None else t.signed
        return z3.SignExt(64 - w, v) if signed else z3.ZeroExt(64 - w, v)

    # ------------------------------------------------------------------ expressions
    def eval(self, fr, node):
        k = node[0]
        if k == "int":
            return node[1], None
        if k == "ptrconst":
            if node[1] == 0:
                return NULL, VOIDP
            return z3.BitVecVal(node[1], 64), U64
        if k == "float":
            return ("fconst", node[1]), None
        if k == "name":
            return self.read_name(fr, node[1])
        if k == "addr":
            p, t = self.addr_of(fr, node[1])
            return p, GType("ptr", 64, False, to=t, text=t.text + " *")
        if k in ("deref", "field", "index", "mem", "viewconv", "str"):
            p, t = self.addr_of(fr, node)
            return self.load(p, t), t
        if k == "cast":
            return self.cast(fr, node[1], node[2]), node[1]
        if k == "bin":
            return self.binop(fr, node[1], node[2], node[3])
        if k == "un":
            v, t = self.eval(fr, node[2])
            if node[1] == "-":
                if t is not None and t.kind == "float":
                    return v ^ z3.BitVecVal(1 << (t.bits - 1), t.bits), t
                if isinstance(v, int):
                    return -v, t
                return -v, t
            if node[1] == "~":
                if z3.is_bool(v):
                    return z3.Not(v), t
                return ~v, t
            if node[1] == "!":
                return z3.Not(self.truth(v)), BOOLT
        if k in ("max", "min"):
            a, ta = self.eval(fr, node[1])
            b, tb = self.eval(fr, node[2])
            t = ta or tb or I64
            a, b = self.coerce(a, t), self.coerce(b, t)
            if t.kind == "float":
                raise Unsupported("MAX/MIN on reals")
            lt = (a < b) if t.signed else z3.ULT(a, b)
            return (z3.If(lt, b, a) if k == "max" else z3.If(lt, a, b)), t
        if k == "abs":
            a, t = self.eval(fr, node[1])
            a = self.coerce(a, t)
            if t.kind == "float":
                return a & z3.BitVecVal((1 << (t.bits - 1)) - 1, t.bits), t
            return z3.If(a < 0, -a, a), t
        if k == "cond":
            c, _ = self.eval(fr, node[1])
            a, ta = self.eval(fr, node[2])
            b, tb = self.eval(fr, node[3])
            t = ta or tb
            if isinstance(a, Ptr) or isinstance(b, Ptr):
                return (a if self.e.branch(self.truth(c)) else b), t
            return z3.If(self.truth(c), self.coerce(a, t), self.coerce(b, t)), t
        if k == "call":
            return self.call(fr, node[1], node[2])
        if k == "clobber":
            return ("clobber",), None
        if k == "zeroinit":
            return ("zeroinit",), None
        if k == "unknown":
            raise Unsupported("GIMPLE form not understood: %s" % node[1][:160])
        raise Unsupported("expression %r" % (node,))

    def cast(self, fr, ty, inner):
        v, t = self.eval(fr, inner)
        if ty.kind == "ptr":
            if isinstance(v, Ptr):
                return v
            if isinstance(v, int):
                return NULL if v == 0 else self._inttoptr(z3.BitVecVal(v, 64))
            return self._inttoptr(self.to64(v, t))
        if ty.kind == "int":
            if isinstance(v, Ptr):
                return self._ptrtoint(v, ty.bits)
            if isinstance(v, int):
                return z3.BitVecVal(v, ty.bits)
            if isinstance(v, tuple) and v[0] == "fconst":
                return z3.BitVecVal(int(float(v[1])), ty.bits)
            if z3.is_bool(v):
                return z3.If(v, z3.BitVecVal(1, ty.bits), z3.BitVecVal(0, ty.bits))
            if t is not None and t.kind == "float":
                ft = llir.FloatT(t.bits) if hasattr(llir, "FloatT") else None
                fx = self.m.to_fp(v, t.bits)
                mk = z3.fpToSBV if ty.signed else z3.fpToUBV
                return mk(z3.RTZ(), fx, z3.BitVecSort(ty.bits))
            w = v.size()
            if w == ty.bits:
                return v
            if w > ty.bits:
                return z3.Extract(ty.bits - 1, 0, v)
            signed = True if t is None else t.signed
            return z3.SignExt(ty.bits - w, v) if signed else z3.ZeroExt(ty.bits - w, v)
        if ty.kind == "float":
            if isinstance(v, tuple) and v[0] == "fconst":
                return self.fconst(v[1], ty.bits)
            if isinstance(v, int):
                return self.fconst(float(v), ty.bits)
            if t is not None and t.kind == "float":
                if t.bits == ty.bits:
                    return v
                r = z3.fpFPToFP(z3.RNE(), self.m.to_fp(v, t.bits), self.m.fsort(ty.bits))
                return self.m.from_fp(r)
            signed = True if t is None else t.signed
            mk = z3.fpSignedToFP if signed else z3.fpUnsignedToFP
            return self.m.from_fp(mk(z3.RNE(), v, self.m.fsort(ty.bits)))
        if ty.kind == "bool":
            return self.truth(v)
        raise Unsupported("cast to %s" % ty.text)

    def binop(self, fr, op, a, b):
        x, tx = self.eval(fr, a)
        y, ty = self.eval(fr, b)
        # pointers
        if isinstance(x, Ptr) or isinstance(y, Ptr):
            if op in ("==", "!="):
                xp = x if isinstance(x, Ptr) else self.coerce(x, VOIDP)
                yp = y if isinstance(y, Ptr) else self.coerce(y, VOIDP)
                eq = self.m.ptr_eq(xp, yp)
                return (eq if op == "==" else z3.Not(eq)), BOOLT
            if op == "+" and isinstance(x, Ptr):
                o = self.to64(y, ty or U64)
                c = conc(z3.simplify(o))
                if c is not None and c >= 1 << 63:
                    c -= 1 << 64
                return self.m.padd(x, c if c is not None else o), tx
            if op == "-" and isinstance(x, Ptr) and isinstance(y, Ptr) and x.obj is y.obj:
                return z3.simplify(bv(x.off) - bv(y.off)), I64
            raise Unsupported("pointer arithmetic %s" % op)
        t = tx or ty
        if t is None:
            # two constants
            if isinstance(x, int) and isinstance(y, int):
                t = I64
            else:
                raise Unsupported("untyped operands of %s" % op)
        if t.kind == "bool":
            x, y = self.truth(x), self.truth(y)
            if op in ("&", "&&"):
                return z3.And(x, y), BOOLT
            if op in ("|", "||"):
                return z3.Or(x, y), BOOLT
            if op in ("^", "!="):
                return z3.Xor(x, y), BOOLT
            if op == "==":
                return x == y, BOOLT
            raise Unsupported("boolean operator %s" % op)
        if t.kind == "float":
            x, y = self.coerce(x, t), self.coerce(y, t)
            if op in ("+", "-", "*", "/", "fdiv"):
                return self.m.fbin({"+": "fadd", "-": "fsub", "*": "fmul", "/": "fdiv", "fdiv": "fdiv"}[op], t.bits, x, y), t
            pred = {"==": "oeq", "!=": "une", "<": "olt", "<=": "ole", ">": "ogt", ">=": "oge"}.get(op)
            if pred:
                return self.m.fcmp(pred, t.bits, x, y), BOOLT
            raise Unsupported("real operator %s" % op)
        x, y = self.coerce(x, t), self.coerce(y, t)
        if z3.is_bv(x) and z3.is_bv(y) and x.size() != y.size():
            if op in ("<<", ">>", "r<<", "r>>"):
                y = z3.ZeroExt(x.size() - y.size(), y) if y.size() < x.size() else z3.Extract(x.size() - 1, 0, y)
            else:
                raise Unsupported("operand widths differ for %s" % op)
        s = t.signed
        if op == "+":
            return x + y, t
        if op == "-":
            return x - y, t
        if op == "*":
            return x * y, t
        if op in ("/", "%", "floordiv", "floormod", "ceildiv"):
            if self.m.feasible(y == 0):
                self.m.violation("division-by-zero", "division by zero", y == 0)
            if op == "/":
                return (x / y if s else z3.UDiv(x, y)), t
            if op == "%":
                return (z3.SRem(x, y) if s else z3.URem(x, y)), t
            if not s:
                return (z3.UDiv(x, y) if op == "floordiv" else z3.URem(x, y)), t
            q, r = x / y, z3.SRem(x, y)
            adj = z3.And(r != 0, (r < 0) != (y < 0))
            if op == "floordiv":
                return z3.If(adj, q - 1, q), t
            if op == "floormod":
                return z3.If(adj, r + y, r), t
            raise Unsupported(op)
        if op == "&":
            return x & y, t
        if op == "|":
            return x | y, t
        if op == "^":
            return x ^ y, t
        if op == "<<":
            return x << y, t
        if op == ">>":
            return (x >> y if s else z3.LShR(x, y)), t
        cmp_ = {"==": lambda p, q: p == q, "!=": lambda p, q: p != q,
                "<": (lambda p, q: p < q) if s else z3.ULT, "<=": (lambda p, q: p <= q) if s else z3.ULE,
                ">": (lambda p, q: p > q) if s else z3.UGT, ">=": (lambda p, q: p >= q) if s else z3.UGE}.get(op)
        if cmp_:
            return cmp_(x, y), BOOLT
        raise Unsupported("operator %s" % op)

    # ------------------------------------------------------------------ calls
    def call(self, fr, name, argnodes):
        args = []
        for a in argnodes:
            if a is None:
                continue
            args.append(self.eval(fr, a))
        h = self.stubs.get(name)
        if h is not None:
            return h(self, name, args)
        h = INTRINSICS.get(name)
        if h is not None:
            return h(self, name, args)
        fn = self.funcs.get(name)
        if fn is not None:
            vals = [self.coerce(v, pt) for (v, t), (pt, pn) in zip(args, fn.params)]
            return self.call_function(fn.name, vals), fn.ret
        h = self.stubs.get("*")
        if h is not None:
            return h(self, name, args)
        raise Unsupported("call to unmodelled function %s" % name)

    def call_function(self, name, argv):
        fn = self.funcs[name]
        self.depth += 1
        if self.depth > 40:
            raise Unsupported("call depth")
        fr = Frame(fn)
        memvars = set()
        for b in fn.blocks.values():
            base_names_with_address(b, memvars)
        # normalise to declared names
        need_mem = set()
        for n in memvars:
            nn = n[:-3] if n.endswith("(D)") else n
            parts = nn.split(".")
            for k in range(len(parts), 0, -1):
                cand = ".".join(parts[:k])
                if cand in fr.types:
                    need_mem.add(cand)
                    break
        for n, t in fr.types.items():
            if t.kind in ("struct", "array"):
                need_mem.add(n)
        pnames = [pn for pt, pn in fn.params]
        if len(argv) != len(fn.params):
            raise Unsupported("%s called with %d arguments, has %d parameters" % (name, len(argv), len(fn.params)))
        for (pt, pn), v in zip(fn.params, argv):
            fr.env[pn] = v
        allocas = []
        for n in sorted(need_mem):
            t = fr.types[n]
            try:
                size = self.sizeof(t)
            except Unsupported:
                if n in pnames:
                    continue
                raise
            o = self.m.new_obj("local:%s@%s" % (n, fn.name), size, "stack")
            allocas.append(o)
            fr.mem[n] = o
            if n in pnames:
                self.store(Ptr(o, 0), fr.env.pop(n), t)
        try:
            bbno = fn.order[0]
            while True:
                nxt = None
                stmts = fn.blocks[bbno]
                # PHI nodes first, evaluated in parallel
                phis = [s for s in stmts if s[0] == "phi"]
                if phis:
                    newvals = {}
                    for _, dest, arms in phis:
                        for node, pred in arms:
                            if pred == fr.prev:
                                v, t = self.eval(fr, node)
                                newvals[dest] = self.coerce(v, fr.types.get(dest))
                                break
                        else:
                            raise Unsupported("PHI of %s has no arm for predecessor %s" % (dest, fr.prev))
                    fr.env.update(newvals)
                for st in stmts:
                    if st[0] == "phi":
                        continue
                    self.steps += 1
                    if self.steps > self.max_steps:
                        raise Inconclusive("step budget %d exceeded (unwinding bound)" % self.max_steps)
                    r = self.step(fr, st)
                    if r is None:
                        continue
                    if r[0] == "ret":
                        return r[1]
                    nxt = r[1]
                    break
                if nxt is None:
                    # fall through to the next block in order
                    k = fn.order.index(bbno)
                    if k + 1 >= len(fn.order):
                        return None
                    nxt = fn.order[k + 1]
                fr.prev, bbno = bbno, nxt
        finally:
            self.depth -= 1
            for o in allocas:
                o.live = False

    def assign_name(self, fr, name, v, tv):
        cand, fields, default = self.resolve(fr, name)
        if cand in fr.mem:
            p, t = Ptr(fr.mem[cand], 0), fr.types[cand]
            for f in fields:
                off, t2 = self.field(t, f)
                p, t = self.m.padd(p, off), t2
            if isinstance(v, tuple) and v and v[0] == "clobber":
                return
            self.store(p, v, t)
            return
        if fields:
            raise Unsupported("component store on register %s" % name)
        if isinstance(v, tuple) and v and v[0] == "clobber":
            return
        fr.env[cand] = self.coerce(v, fr.types.get(cand))

    def step(self, fr, st):
        k = st[0]
        if k == "assign":
            lhs, rhs = st[1], st[2]
            if rhs[0] == "unknown" or lhs[0] == "unknown":
                raise Unsupported("GIMPLE statement not understood: %s" % (rhs[1] if rhs[0] == "unknown" else lhs[1])[:160])
            v, tv = self.eval(fr, rhs)
            if lhs[0] == "name":
                self.assign_name(fr, lhs[1], v, tv)
            else:
                p, t = self.addr_of(fr, lhs)
                if isinstance(v, tuple) and v and v[0] == "clobber":
                    return None
                self.store(p, v, t)
            return None
        if k == "callstmt":
            self.eval(fr, st[1])
            return None
        if k == "condbr":
            c, _ = self.eval(fr, st[1])
            return ("br", st[2] if self.e.branch(self.truth(c)) else st[3])
        if k == "goto":
            return ("br", st[1])
        if k == "return":
            if st[1] is None:
                return ("ret", None)
            v, t = self.eval(fr, st[1])
            if isinstance(v, tuple) and v and v[0] == "agg":
                # a small aggregate returned by value: copy it out of the dying frame
                n = self.sizeof(v[2])
                o = self.m.new_obj("returned_%s" % (v[2].name or "aggregate"), n, "heap")
                models.copy_bytes(self.m, Ptr(o, 0), v[1], z3.BitVecVal(n, 64), "aggregate return")
                return ("ret", ("agg", Ptr(o, 0), v[2]))
            return ("ret", self.coerce(v, fr.fn.ret))
        if k == "switch":
            v, t = self.eval(fr, st[1])
            v = self.coerce(v, t or I32)
            for lo, hi, lbl in st[2]:
                cnd = v == lo if lo == hi else z3.And(v >= lo, v <= hi)
                if self.e.branch(cnd):
                    return self.goto_label(fr, lbl)
            return self.goto_label(fr, st[3])
        if k == "label":
            return None
        if k == "unreachable":
            raise PathAbort("unreachable")
        if k == "unknown":
            raise Unsupported("GIMPLE statement not understood: %s" % st[1][:160])
        raise Unsupported("statement %r" % (st,))

    def goto_label(self, fr, lbl):
        loc = fr.fn.labels.get(lbl)
        if loc is None:
            raise Unsupported("unknown label %s" % lbl)
        bb, idx = loc
        if idx != 0:
            raise Unsupported("label %s in the middle of a block" % lbl)
        return ("br", bb)


# ---------------------------------------------------------------------------- intrinsics
def _ll(fn):
    """adapt an llsym intrinsic model (ex, name, argv, argt, rt) to gimsym's calling convention"""
    def h(gx, name, args):
        argv = []
        for v, t in args:
            if isinstance(v, int):
                v = z3.BitVecVal(v, 64)
            argv.append(v)
        r = fn(gx.m, name, argv, None, None)
        return r, VOIDP
    return h


def len_trim_term(gx, n, p, what):
    """non-forking LEN_TRIM: fresh L with the defining constraints assumed"""
    m = gx.m
    n64 = gx.to64(n, I64)
    if m.feasible(z3.Or(n64 < 0, n64 > gx.cap + 2)):
        if m.feasible(n64 < 0):
            m.violation("negative-length", "%s with a negative length" % what, n64 < 0)
        raise Inconclusive("%s: length may exceed the capacity bound %d" % (what, gx.cap + 2))
    m.check_access(p, n64, what)
    if p.obj is None:
        return z3.BitVecVal(0, 64)
    m.flush(p.obj)
    L = m.fresh("len_trim", 64)
    base = bv(p.off)
    arr = p.obj.arr
    cons = [z3.ULE(L, n64)]
    for i in range(gx.cap + 3):
        I = z3.BitVecVal(i, 64)
        cons.append(z3.Implies(z3.And(z3.UGE(I, L), z3.ULT(I, n64)), z3.Select(arr, base + I) == BLANK))
    cons.append(z3.Implies(L != 0, z3.Select(arr, base + L - 1) != BLANK))
    gx.e.assume(z3.And(cons))
    return L


def g_string_len_trim(gx, name, args):
    (n, tn), (p, tp) = args
    return len_trim_term(gx, n, p, "len_trim"), I64


def g_string_trim(gx, name, args):
    (plen, _), (pptr, _), (n, tn), (s, ts) = args
    m = gx.m
    L = len_trim_term(gx, n, s, "trim")
    m.store_int(plen, L, 64)
    if gx.e.branch(L == 0):
        z = m.new_obj("zero_length_string", 1, "global")
        m.store_ptr(pptr, Ptr(z, 0))
        return None, None
    o = m.new_obj("trim_result", z3.simplify(L), "heap", "malloc")
    m.events.append(("alloc", "malloc", o))
    m.flush(s.obj)
    for i in range(gx.cap + 3):
        I = z3.BitVecVal(i, 64)
        o.arr = z3.Store(o.arr, I, z3.Select(s.obj.arr, bv(s.off) + I))
    m.store_ptr(pptr, Ptr(o, 0))
    return None, None


def g_concat_string(gx, name, args):
    (dl, _), (d, _), (l1, _), (s1, _), (l2, _), (s2, _) = args
    m = gx.m
    dl, l1, l2 = gx.to64(dl, I64), gx.to64(l1, I64), gx.to64(l2, I64)
    bound = gx.cap + 4
    for nm, v in (("destination", dl), ("first", l1), ("second", l2)):
        if m.feasible(z3.Or(v < 0, v > bound)):
            raise Inconclusive("concat: %s length may exceed the capacity bound" % nm)
    m.check_access(d, dl, "concat destination")
    n1 = z3.If(z3.ULT(l1, dl), l1, dl)
    m.check_access(s1, n1, "concat first source")
    rem = dl - n1
    n2 = z3.If(z3.ULT(l2, rem), l2, rem)
    m.check_access(s2, n2, "concat second source")
    if d.obj is None:
        return None, None
    m.flush(d.obj)
    for s in (s1, s2):
        if s.obj is not None:
            m.flush(s.obj)
    a1 = s1.obj.arr if s1.obj is not None else None
    a2 = s2.obj.arr if s2.obj is not None else None
    for i in range(bound + 1):
        I = z3.BitVecVal(i, 64)
        v = BLANK
        if a2 is not None:
            v = z3.If(z3.And(z3.UGE(I, l1), z3.ULT(I, l1 + l2)), z3.Select(a2, bv(s2.off) + I - l1), v)
        if a1 is not None:
            v = z3.If(z3.ULT(I, l1), z3.Select(a1, bv(s1.off) + I), v)
        idx = bv(d.off) + I
        d.obj.arr = z3.Store(d.obj.arr, idx, z3.If(z3.ULT(I, dl), v, z3.Select(d.obj.arr, idx)))
    return None, None


def g_abort(gx, name, args):
    msg = None
    for v, t in args[:2]:
        if isinstance(v, Ptr) and v.obj is not None and v.obj.tag.get("const"):
            for data, o in gx.strconst.items():
                if o is v.obj:
                    msg = (msg + " | " if msg else "") + data.decode("latin-1")
    raise PathAbort("fortran_runtime_error", msg or name)


def g_malloc(gx, name, args):
    r = models.m_malloc(gx.m, name, [gx.to64(args[0][0], U64)], None, None)
    return r, VOIDP


def g_free(gx, name, args):
    models.m_free(gx.m, name, [args[0][0]], None, None)
    return None, None


def g_realloc(gx, name, args):
    (p, _), (n, tn) = args
    if isinstance(p, Ptr) and p.obj is None:
        return g_malloc(gx, name, [(n, tn)])
    raise Unsupported("realloc of a live block")


def g_memmove(gx, name, args):
    (d, _), (s, _), (n, tn) = args
    models.copy_bytes(gx.m, d, s, gx.to64(n, U64), "memmove")
    return d, VOIDP


def g_memset(gx, name, args):
    (d, _), (c, tc), (n, tn) = args
    c32 = c if not isinstance(c, int) else z3.BitVecVal(c, 32)
    models.m_memset(gx.m, name, [d, c32, gx.to64(n, U64)], None, None)
    return d, VOIDP


def g_expect(gx, name, args):
    return args[0]


def _desc1(gx, p, what):
    m = gx.m
    rank = conc(z3.simplify(m.load_int(m.padd(p, 28), 8)))
    if rank != 1:
        raise Unsupported("%s of a rank-%s descriptor" % (what, rank))
    esz = conc(z3.simplify(m.load_int(m.padd(p, 16), 64)))
    if esz is None:
        raise Unsupported("%s with a symbolic element length" % what)
    data = m.load_ptr(p)
    stride = m.load_int(m.padd(p, 40), 64)
    lb = m.load_int(m.padd(p, 48), 64)
    ub = m.load_int(m.padd(p, 56), 64)
    ext = ub - lb + 1
    ext = z3.If(ext < 0, z3.BitVecVal(0, 64), ext)
    return data, stride, z3.simplify(ext), esz


def g_internal_pack(gx, name, args):
    """libgfortran internal_pack: the data itself when contiguous (or empty), else a packed malloc copy"""
    (p, _), = args
    m = gx.m
    data, stride, ext, esz = _desc1(gx, p, "internal_pack")
    if gx.e.branch(z3.Or(stride == 1, ext == 0)):
        return data, VOIDP
    if m.feasible(z3.UGT(ext, gx.cap)):
        raise Inconclusive("internal_pack: extent may exceed the capacity bound %d" % gx.cap)
    o = m.new_obj("packed_copy", z3.simplify(ext * esz), "heap", "malloc")
    m.events.append(("alloc", "malloc", o))
    if isinstance(data, Ptr) and data.obj is not None:
        m.flush(data.obj)
        for i in range(gx.cap):
            for b in range(esz):
                src = bv(data.off) + z3.BitVecVal(i, 64) * stride * esz + b
                m.check_access  # (bounds of the section are the caller's responsibility)
                o.arr = z3.Store(o.arr, z3.BitVecVal(i * esz + b, 64), z3.Select(data.obj.arr, src))
    o.tag["packed_from"] = (data, stride, ext, esz)
    return Ptr(o, 0), VOIDP


def g_internal_unpack(gx, name, args):
    (p, _), (src, _) = args
    m = gx.m
    data, stride, ext, esz = _desc1(gx, p, "internal_unpack")
    if isinstance(src, Ptr) and isinstance(data, Ptr) and src.obj is data.obj:
        return None, None
    if not (isinstance(data, Ptr) and data.obj is not None and isinstance(src, Ptr) and src.obj is not None):
        return None, None
    m.flush(data.obj)
    m.flush(src.obj)
    for i in range(gx.cap):
        for b in range(esz):
            dst = bv(data.off) + z3.BitVecVal(i, 64) * stride * esz + b
            val = z3.Select(src.obj.arr, bv(src.off) + i * esz + b)
            data.obj.arr = z3.Store(data.obj.arr, dst, z3.If(z3.ULT(z3.BitVecVal(i, 64), ext), val, z3.Select(data.obj.arr, dst)))
    return None, None


INTRINSICS = {
    "_gfortran_internal_pack": g_internal_pack, "_gfortran_internal_unpack": g_internal_unpack,
    "__builtin_malloc": g_malloc, "malloc": g_malloc, "__builtin_free": g_free, "free": g_free,
    "__builtin_realloc": g_realloc,
    "__builtin_memmove": g_memmove, "__builtin_memcpy": g_memmove, "memmove": g_memmove, "memcpy": g_memmove,
    "__builtin_memset": g_memset, "memset": g_memset,
    "__builtin_expect": g_expect,
    "_gfortran_string_len_trim": g_string_len_trim, "_gfortran_string_trim": g_string_trim,
    "_gfortran_concat_string": g_concat_string,
    "_gfortran_runtime_error_at": g_abort, "_gfortran_os_error_at": g_abort, "_gfortran_runtime_error": g_abort,
    "_gfortran_os_error": g_abort, "__builtin_trap": g_abort, "_gfortran_stop_string": g_abort,
    "_gfortran_error_stop_string": g_abort,
}
