"""Intrinsic models for llsym: libc memory/string functions, operator new/delete and the handful of
libstdc++ std::string members that generated wrappers call.  All models are non-forking except
where a pointer's nullness decides behaviour.  Symbolic lengths are bounded by Executor.cap
(capacity); a feasible excess makes the run inconclusive, never successful."""
import z3

from engines.shadowsym.core import Unsupported, Inconclusive
from . import ir
from .exec import Ptr, FuncPtr, NULL, conc, bv, MemViolation, to_bool, bool_to_bv

STR = "_ZNSt7__cxx1112basic_stringIcSt11char_traitsIcESaIcEE"
STRK = "_ZNKSt7__cxx1112basic_stringIcSt11char_traitsIcESaIcEE"


def capn(ex):
    return ex.cap + 2


def need_cap(ex, n, what):
    """n (BV64) must be <= capacity on this path, else inconclusive."""
    c = conc(n)
    if c is not None:
        if c > capn(ex):
            raise Inconclusive("%s: length %d exceeds the capacity bound %d" % (what, c, capn(ex)))
        return
    if ex.feasible(z3.UGT(n, z3.BitVecVal(capn(ex), 64))):
        raise Inconclusive("%s: symbolic length may exceed the capacity bound %d" % (what, capn(ex)))


def sx64(v):
    if isinstance(v, int):
        return z3.BitVecVal(v, 64)
    if v.size() == 64:
        return v
    return z3.SignExt(64 - v.size(), v)


# ---------------------------------------------------------------------------- libc
def m_memcpy(ex, name, a, at, rt):
    d, s, n = a[0], a[1], sx64(a[2]) if a[2].size() != 64 else a[2]
    copy_bytes(ex, d, s, n, "memcpy")
    return d


def copy_bytes(ex, d, s, n, what):
    ex.check_access(d, n, what + " destination")
    ex.check_access(s, n, what + " source")
    cn = conc(n)
    if cn == 0:
        return
    if d.obj is None or s.obj is None:
        return      # n == 0 is the only non-violating possibility (checked above)
    if cn is not None:
        do, so = conc(d.off), conc(s.off)
        if do is not None and so is not None and cn <= 4096:
            # structure copy: scalar and pointer cells move with it
            ex.flush_noptr = True
            moved = {}
            for off, (nb, val) in list(s.obj.cells.items()):
                if off >= so and off + nb <= so + cn:
                    moved[off - so] = (nb, val)
                elif not (off + nb <= so or off >= so + cn):
                    ex.flush(s.obj, off, off + nb)
            ex.drop_cells(d.obj, do, do + cn)
            covered = set()
            for rel, (nb, val) in moved.items():
                d.obj.cells[do + rel] = (nb, val)
                covered.update(range(rel, rel + nb))
            for i in range(cn):
                if i not in covered:
                    d.obj.arr = z3.Store(d.obj.arr, z3.BitVecVal(do + i, 64), z3.Select(s.obj.arr, z3.BitVecVal(so + i, 64)))
            return
        need_cap(ex, n, what)
    else:
        need_cap(ex, n, what)
    flush_from(ex, d)
    flush_from(ex, s)
    src = s.obj.arr
    for i in range(capn(ex)):
        idx = bv(d.off) + i
        d.obj.arr = z3.Store(d.obj.arr, idx, z3.If(z3.ULT(z3.BitVecVal(i, 64), n), z3.Select(src, bv(s.off) + i), z3.Select(d.obj.arr, idx)))


def flush_from(ex, p):
    """make the bytes from p on readable through the byte array (cells before a concrete offset are left alone,
    e.g. the header of an object whose tail is character data)"""
    off = conc(p.off)
    if off is None:
        ex.flush(p.obj)
    else:
        ex.flush(p.obj, off, 1 << 62)


def m_memset(ex, name, a, at, rt):
    d, b, n = a[0], a[1], a[2]
    if b.size() != 8:
        b = z3.Extract(7, 0, b)
    n = sx64(n) if n.size() != 64 else n
    ex.check_access(d, n, "memset")
    cn = conc(n)
    if cn == 0 or d.obj is None:
        return d
    do = conc(d.off)
    if cn is not None and do is not None and cn <= 4096:
        ex.drop_cells(d.obj, do, do + cn)
        zero = conc(b) == 0
        for i in range(cn):
            d.obj.arr = z3.Store(d.obj.arr, z3.BitVecVal(do + i, 64), b)
        if zero:
            d.obj.tag.setdefault("zeroed", []).append((do, cn))
        return d
    need_cap(ex, n, "memset")
    ex.flush(d.obj)
    for i in range(capn(ex)):
        idx = bv(d.off) + i
        d.obj.arr = z3.Store(d.obj.arr, idx, z3.If(z3.ULT(z3.BitVecVal(i, 64), n), b, z3.Select(d.obj.arr, idx)))
    return d


def strlen_term(ex, p, what="strlen"):
    """Non-forking strlen: returns BV64 L with the defining constraints assumed."""
    if isinstance(p, FuncPtr) or p.obj is None:
        ex.violation("null-deref", "%s of a null pointer" % what)
    o = p.obj
    if not o.live:
        ex.violation("use-after-free", "%s of freed object %s" % (what, o.name))
    flush_from(ex, p)
    base = bv(p.off)
    size = bv(o.size)
    N = capn(ex)
    conds = []
    prefix = []
    for i in range(N + 1):
        b = z3.Select(o.arr, base + i)
        inb = z3.ULT(base + i, size)
        conds.append(z3.And(prefix + [b == 0, inb]))
        prefix = prefix + [b != 0, inb]
    found = z3.Or(conds)
    if ex.feasible(z3.Not(found)):
        # either the scan leaves the object (a real out-of-bounds read) or the string is longer than the capacity
        runs_off = z3.Or([z3.And([z3.And(z3.Select(o.arr, base + j) != 0, z3.ULT(base + j, size)) for j in range(i)]
                                 + [z3.Not(z3.ULT(base + i, size))]) for i in range(N + 1)])
        if ex.feasible(runs_off):
            ex.violation("out-of-bounds", "%s scans past the end of %s (no NUL inside the object)" % (what, o.name), runs_off)
        raise Inconclusive("%s: string may be longer than the capacity bound %d" % (what, N))
    L = ex.fresh("strlen", 64)
    ex.e.assume(z3.Or([z3.And(c, L == i) for i, c in enumerate(conds)]))
    return L


def m_strlen(ex, name, a, at, rt):
    return strlen_term(ex, a[0])


def m_strcpy(ex, name, a, at, rt):
    d, s = a[0], a[1]
    L = strlen_term(ex, s, "strcpy source")
    copy_bytes(ex, d, s, L + 1, "strcpy")
    return d


def m_strncpy(ex, name, a, at, rt):
    d, s, n = a[0], a[1], a[2]
    ex.check_access(d, n, "strncpy destination")
    if conc(n) == 0:
        return d
    L = strlen_term(ex, s, "strncpy source")
    need_cap(ex, n, "strncpy")
    ex.flush(d.obj)
    src = s.obj.arr
    for i in range(capn(ex)):
        I = z3.BitVecVal(i, 64)
        idx = bv(d.off) + i
        v = z3.If(z3.ULT(I, L), z3.Select(src, bv(s.off) + i), z3.BitVecVal(0, 8))
        d.obj.arr = z3.Store(d.obj.arr, idx, z3.If(z3.ULT(I, n), v, z3.Select(d.obj.arr, idx)))
    return d


def m_memchr(ex, name, a, at, rt):
    """memchr(s, c, n): pointer to the first byte equal to (unsigned char) c among the first n, or NULL"""
    p, c, n = a[0], a[1], a[2]
    n = sx64(n) if n.size() != 64 else n
    ex.check_access(p, n, "memchr")
    if p.obj is None:
        return NULL
    need_cap(ex, n, "memchr")
    ex.flush(p.obj)
    cb = z3.Extract(7, 0, c)
    base = bv(p.off)
    for i in range(capn(ex)):
        I = z3.BitVecVal(i, 64)
        if ex.e.branch(z3.And(z3.ULT(I, n), z3.Select(p.obj.arr, base + I) == cb)):
            return ex.padd(p, i)
        if not ex.feasible(z3.ULT(I + 1, n)):
            break
    return NULL


def m_malloc(ex, name, a, at, rt):
    n = a[0]
    o = ex.new_obj("malloc", n if conc(n) is None else conc(n), "heap", "malloc")
    ex.events.append(("alloc", "malloc", o))
    return Ptr(o, 0)


def m_strdup(ex, name, a, at, rt):
    src = a[0]
    L = strlen_term(ex, src, "strdup source")
    o = ex.new_obj("strdup", L + 1, "heap", "malloc")
    ex.events.append(("alloc", "malloc", o))
    d = Ptr(o, 0)
    copy_bytes(ex, d, src, L + 1, "strdup")
    return d


def m_calloc(ex, name, a, at, rt):
    n = a[0] * a[1]
    o = ex.new_obj("calloc", n if conc(n) is None else conc(n), "heap", "malloc",
                   arr=z3.K(z3.BitVecSort(64), z3.BitVecVal(0, 8)))
    ex.events.append(("alloc", "malloc", o))
    return Ptr(o, 0)


def release(ex, p, family, what):
    if isinstance(p, FuncPtr):
        ex.violation("invalid-free", "%s of a function pointer" % what)
    if p.obj is None:
        if conc(p.off) == 0:
            return None
        raise Unsupported("%s of a non-canonical null pointer" % what)
    o = p.obj
    if not o.live:
        ex.violation("double-free", "%s of already released %s" % (what, o.name))
    if o.kind != "heap" or o.alloc is None:
        ex.violation("invalid-free", "%s of %s which was not heap-allocated" % (what, o.name))
    off = conc(p.off)
    if off is None:
        if ex.feasible(bv(p.off) != 0):
            ex.violation("invalid-free", "%s of an interior pointer into %s" % (what, o.name), bv(p.off) != 0)
    elif off != 0:
        ex.violation("invalid-free", "%s of an interior pointer into %s" % (what, o.name))
    if o.alloc != family:
        ex.violation("mismatched-deallocator", "%s releases %s allocated with %s" % (what, o.name, o.alloc))
    o.live = False
    ex.events.append(("release", family, o))
    return o


def m_free(ex, name, a, at, rt):
    release(ex, a[0], "malloc", "free")
    return None


def m_new(ex, name, a, at, rt):
    n = a[0]
    fam = "new[]" if name == "_Znam" else "new"
    o = ex.new_obj(fam, n if conc(n) is None else conc(n), "heap", fam)
    ex.events.append(("alloc", fam, o))
    return Ptr(o, 0)


def m_delete(ex, name, a, at, rt):
    fam = "new[]" if name.startswith("_Zda") else "new"
    release(ex, a[0], fam, "operator delete" + ("[]" if fam == "new[]" else ""))
    return None


# ---------------------------------------------------------------------------- std::string (abstract)
class SStr(object):
    def __init__(self, buf, length):
        self.buf, self.len, self.live = buf, length, True


def skey(ex, p, what):
    if isinstance(p, FuncPtr) or p.obj is None:
        ex.violation("null-deref", "%s on a null std::string" % what)
    off = conc(p.off)
    if off is None:
        raise Unsupported("std::string at a symbolic offset")
    if not p.obj.live:
        ex.violation("use-after-free", "%s on a std::string inside freed %s" % (what, p.obj.name))
    return (p.obj.id, off)


def sget(ex, p, what):
    k = skey(ex, p, what)
    s = ex.strings.get(k)
    if s is None:
        hook = p.obj.tag.get("string_loader")
        if hook is not None:
            s = hook(ex, p)
            ex.strings[k] = s
            return s
        ex.violation("uninitialised-string", "%s on storage that holds no constructed std::string (%s+%s)" % (what, p.obj.name, p.off))
    if not s.live:
        ex.violation("use-after-destroy", "%s on a destroyed std::string" % what)
    return s


def new_sstr(ex, length, fill):
    """fresh string buffer of `length` characters; fill(i) gives byte i (BV8) for i < length."""
    buf = ex.new_obj("strbuf", z3.simplify(length + 1) if conc(length) is None else conc(length) + 1, "abstract")
    for i in range(capn(ex)):
        I = z3.BitVecVal(i, 64)
        buf.arr = z3.Store(buf.arr, I, z3.If(z3.ULT(I, bv(length)), fill(i), z3.If(I == bv(length), z3.BitVecVal(0, 8), z3.Select(buf.arr, I))))
    return SStr(buf, bv(length))


def construct(ex, this, s):
    k = skey(ex, this, "constructor")
    ex.check_access(this, 32, "std::string construction")
    ex.strings[k] = s
    if conc(this.off) == 0 and this.obj.kind == "heap":
        this.obj.tag.setdefault("class", "std::string")
    ex.events.append(("string_ctor", this.obj, conc(this.off)))


def s_ctor_default(ex, name, a, at, rt):
    construct(ex, a[0], new_sstr(ex, z3.BitVecVal(0, 64), lambda i: z3.BitVecVal(0, 8)))


def s_ctor_cstr(ex, name, a, at, rt):
    this, src = a[0], a[1]
    if isinstance(src, Ptr) and src.obj is None:
        ex.violation("null-deref", "std::string constructed from a null char pointer")
    L = strlen_term(ex, src, "std::string(const char*)")
    need_cap(ex, L, "std::string(const char*)")
    so, sarr = bv(src.off), src.obj.arr
    construct(ex, this, new_sstr(ex, L, lambda i: z3.Select(sarr, so + i)))


def s_ctor_cstr_n(ex, name, a, at, rt):
    this, src, n = a[0], a[1], a[2]
    ex.check_access(src, n, "std::string(const char*, n) source")
    if isinstance(src, Ptr) and src.obj is None:
        if ex.feasible(bv(n) != 0) or True:
            ex.violation("null-deref", "std::string constructed from a null char pointer")
    need_cap(ex, n, "std::string(const char*, n)")
    ex.flush(src.obj)
    so, sarr = bv(src.off), src.obj.arr
    construct(ex, this, new_sstr(ex, n, lambda i: z3.Select(sarr, so + i)))


def s_ctor_copy(ex, name, a, at, rt):
    this, other = a[0], a[1]
    o = sget(ex, other, "copy construction from")
    arr = o.buf.arr
    construct(ex, this, new_sstr(ex, o.len, lambda i: z3.Select(arr, z3.BitVecVal(i, 64))))


def s_assign(ex, name, a, at, rt):
    this, other = a[0], a[1]
    s = sget(ex, this, "operator=")
    o = sget(ex, other, "operator= from")
    arr = o.buf.arr
    n = new_sstr(ex, o.len, lambda i: z3.Select(arr, z3.BitVecVal(i, 64)))
    s.buf.live = False
    s.buf, s.len = n.buf, n.len
    return this


def s_assign_cstr(ex, name, a, at, rt):
    this, src = a[0], a[1]
    s = sget(ex, this, "operator=(const char*)")
    L = strlen_term(ex, src, "std::string::operator=(const char*)")
    need_cap(ex, L, "operator=(const char*)")
    so, sarr = bv(src.off), src.obj.arr
    n = new_sstr(ex, L, lambda i: z3.Select(sarr, so + i))
    s.buf.live = False
    s.buf, s.len = n.buf, n.len
    return this


def s_dtor(ex, name, a, at, rt):
    s = sget(ex, a[0], "destructor")
    s.live = False
    s.buf.live = False
    ex.events.append(("string_dtor", a[0].obj, conc(a[0].off)))


def s_data(ex, name, a, at, rt):
    return Ptr(sget(ex, a[0], "c_str/data").buf, 0)


def s_size(ex, name, a, at, rt):
    return sget(ex, a[0], "size").len


def s_empty(ex, name, a, at, rt):
    return sget(ex, a[0], "empty").len == 0


def nop(ex, name, a, at, rt):
    return None


def install(ex):
    I = ex.intrinsics
    for n in ("llvm.memcpy.p0i8.p0i8.i64", "llvm.memmove.p0i8.p0i8.i64", "memcpy", "memmove"):
        I[n] = m_memcpy
    I["llvm.memset.p0i8.i64"] = m_memset
    I["memset"] = lambda ex, name, a, at, rt: m_memset(ex, name, [a[0], a[1], a[2]], at, rt)
    I["strlen"] = m_strlen
    I["strcpy"] = m_strcpy
    I["strncpy"] = m_strncpy
    I["memchr"] = m_memchr
    I["malloc"] = m_malloc
    I["calloc"] = m_calloc
    I["strdup"] = m_strdup
    I["free"] = m_free
    for n in ("_Znwm", "_Znam"):
        I[n] = m_new
    for n in ("_ZdlPv", "_ZdaPv", "_ZdlPvm", "_ZdaPvm"):
        I[n] = m_delete
    I[STR + "C1Ev"] = s_ctor_default
    I[STR + "C2Ev"] = s_ctor_default
    I[STR + "C1EPKcRKS3_"] = s_ctor_cstr
    I[STR + "C2EPKcRKS3_"] = s_ctor_cstr
    I[STR + "C1EPKcmRKS3_"] = s_ctor_cstr_n
    I[STR + "C2EPKcmRKS3_"] = s_ctor_cstr_n
    I[STR + "C1ERKS4_"] = s_ctor_copy
    I[STR + "C2ERKS4_"] = s_ctor_copy
    I[STR + "aSERKS4_"] = s_assign
    I[STR + "aSEPKc"] = s_assign_cstr
    I[STR + "D1Ev"] = s_dtor
    I[STR + "D2Ev"] = s_dtor
    I[STRK + "5c_strEv"] = s_data
    I[STRK + "4dataEv"] = s_data
    I[STRK + "4sizeEv"] = s_size
    I[STRK + "6lengthEv"] = s_size
    I[STRK + "5emptyEv"] = s_empty
    for n in ("_ZNSaIcEC1Ev", "_ZNSaIcED1Ev", "_ZNSaIcEC2Ev", "_ZNSaIcED2Ev"):
        I[n] = nop
