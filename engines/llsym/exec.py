"""Bounded symbolic executor for clang-14 -O0 LLVM IR on top of the shadowsym DFS engine.

Values:  iN -> z3 BitVec(N) (i1 -> z3 Bool);  float/double -> opaque BitVec(32/64);
         pointers -> Ptr(obj, off) | NULL | FuncPtr;  aggregates -> python lists.
Memory:  objects with a z3 byte array, a (possibly symbolic) size, a liveness flag, an
         allocator tag and a cache of scalar cells at concrete offsets (pointers live only in cells).
Every access is bounds- and liveness-checked; a satisfiable violation ends the path with a
MemViolation carrying the model.  Unsupported constructs raise core.Unsupported (inconclusive).
"""
import z3

from engines.shadowsym.core import Unsupported, Inconclusive, Infeasible
from . import ir

BV64 = z3.BitVecSort(64)
BV8 = z3.BitVecSort(8)


class MemViolation(Exception):
    def __init__(self, kind, detail, model=None):
        Exception.__init__(self, "%s: %s" % (kind, detail))
        self.kind, self.detail, self.model = kind, detail, model


class PathAbort(Exception):
    """The code under test reached a modelled abort (e.g. luaL_error, unreachable)."""

    def __init__(self, kind, detail=None):
        Exception.__init__(self, kind)
        self.kind, self.detail = kind, detail


class Obj(object):
    _n = 0

    def __init__(self, ex, name, size, kind, alloc=None, arr=None):
        ex.nobj += 1
        self.id = ex.nobj
        self.name = name
        self.size = size            # python int or z3 BV64
        self.kind = kind            # stack | heap | global | extern | abstract
        self.alloc = alloc          # malloc | new | new[] | None
        self.live = True
        self.arr = arr if arr is not None else z3.Array("mem_%s_%d" % (name, self.id), BV64, BV8)
        self.cells = {}             # off -> (nbytes, value)   value: BitVec | Bool | Ptr | FuncPtr
        self.tag = {}

    def __repr__(self):
        return "<obj %s#%d>" % (self.name, self.id)


class Ptr(object):
    __slots__ = ("obj", "off")

    def __init__(self, obj, off=0):
        self.obj, self.off = obj, off

    def __repr__(self):
        return "Ptr(%r,%r)" % (self.obj, self.off)


class FuncPtr(object):
    __slots__ = ("name",)

    def __init__(self, name):
        self.name = name


NULL = Ptr(None, 0)


def is_ptr(v):
    return isinstance(v, (Ptr, FuncPtr))


def conc(x):
    """python int if the BV/int is concrete, else None"""
    if isinstance(x, int):
        return x
    if z3.is_bv_value(x):
        return x.as_long()
    sx = z3.simplify(x)
    if z3.is_bv_value(sx):
        return sx.as_long()
    return None


def bv(x, bits=64):
    if isinstance(x, int):
        return z3.BitVecVal(x, bits)
    return x


def to_bool(v):
    if z3.is_bool(v):
        return v
    if isinstance(v, bool):
        return z3.BoolVal(v)
    return v != z3.BitVecVal(0, v.size())


def bool_to_bv(b, bits):
    return z3.If(b, z3.BitVecVal(1, bits), z3.BitVecVal(0, bits))


class Frame(object):
    def __init__(self, fn):
        self.fn = fn
        self.env = {}
        self.allocas = []
        self.block = None
        self.prev = None


class Executor(object):
    def __init__(self, engine, module, cap=8, max_steps=200000):
        self.e = engine
        self.m = module
        self.cap = cap                  # capacity bound for symbolic-length memory operations
        self.max_steps = max_steps
        self.steps = 0
        self.nobj = 0
        self.events = []
        self.stubs = {}
        self.intrinsics = {}
        self.globals = {}
        self.fresh_n = 0
        self.strings = {}               # abstract std::string state keyed by (obj id, off)
        self.notes = []
        self.objects = []
        from . import models
        models.install(self)

    # ------------------------------------------------------------------ fresh symbols
    def fresh(self, name, bits):
        self.fresh_n += 1
        return z3.BitVec("%s!%d" % (name, self.fresh_n), bits)

    def fresh_bool(self, name):
        self.fresh_n += 1
        return z3.Bool("%s!%d" % (name, self.fresh_n))

    def new_obj(self, name, size, kind="heap", alloc=None, arr=None):
        o = Obj(self, name, size, kind, alloc, arr)
        self.objects.append(o)
        return o

    # ------------------------------------------------------------------ checks
    def violation(self, kind, detail, *cond):
        m = self.e.model(*cond) if cond else self.e.model()
        raise MemViolation(kind, detail, m)

    def feasible(self, cond):
        """can cond hold on this path?  (no fork)"""
        c = z3.simplify(cond) if not isinstance(cond, bool) else cond
        if isinstance(c, bool):
            return c
        if z3.is_true(c):
            return True
        if z3.is_false(c):
            return False
        return self.e.check(c) == "sat"

    def check_access(self, p, nbytes, what="access"):
        """nbytes: int or BV64.  Raises MemViolation if an out-of-bounds / dead / null access is feasible."""
        if isinstance(p, FuncPtr):
            self.violation("bad-pointer", "%s through a function pointer" % what)
        if p.obj is None:
            n = conc(nbytes)
            if n == 0:
                return
            if n is None:
                if self.feasible(bv(nbytes) != 0):
                    self.violation("null-deref", "%s of %s bytes through a null pointer" % (what, nbytes), bv(nbytes) != 0)
                return
            self.violation("null-deref", "%s through a null pointer" % what)
        o = p.obj
        if not o.live:
            self.violation("use-after-free", "%s of freed object %s" % (what, o.name))
        off, n, size = conc(p.off), conc(nbytes), conc(o.size)
        if off is not None and n is not None and size is not None:
            if off < 0 or off + n > size:
                if n == 0 and off <= size:
                    return
                self.violation("out-of-bounds", "%s of %d bytes at offset %d of %s (size %d)" % (what, n, off, o.name, size))
            return
        offz, nz, sz = bv(p.off), bv(nbytes), bv(o.size)
        bad = z3.Or(z3.UGT(offz, sz), z3.UGT(nz, sz - offz))
        bad = z3.And(bad, nz != 0) if n is None else bad
        if self.feasible(bad):
            self.violation("out-of-bounds", "%s at offset %s (+%s bytes) of %s (size %s)" % (what, p.off, nbytes, o.name, o.size), bad)

    # ------------------------------------------------------------------ cells <-> array
    def flush(self, o, lo=None, hi=None):
        """write int cells overlapping [lo,hi) (or all) into the byte array and drop them."""
        for off in sorted(list(o.cells)):
            nb, val = o.cells[off]
            if lo is not None and (off + nb <= lo or off >= hi):
                continue
            if is_ptr(val):
                raise Unsupported("byte-level access overlaps a stored pointer in %s" % o.name)
            v = val
            if z3.is_bool(v):
                v = bool_to_bv(v, 8)
            for i in range(nb):
                o.arr = z3.Store(o.arr, z3.BitVecVal(off + i, 64), z3.Extract(8 * i + 7, 8 * i, v))
            del o.cells[off]

    def drop_cells(self, o, lo, hi):
        for off in list(o.cells):
            nb, _ = o.cells[off]
            if not (off + nb <= lo or off >= hi):
                if off >= lo and off + nb <= hi:
                    del o.cells[off]
                else:
                    self.flush(o, off, off + nb)

    def load_int(self, p, bits):
        nb = (bits + 7) // 8
        self.check_access(p, nb, "read")
        o = p.obj
        off = conc(p.off)
        if off is not None:
            c = o.cells.get(off)
            if c is not None and c[0] == nb and not is_ptr(c[1]):
                v = c[1]
                if bits == 1:
                    return to_bool(v)
                if z3.is_bool(v):
                    return bool_to_bv(v, bits)
                return v if v.size() == bits else z3.Extract(bits - 1, 0, v)
            self.flush(o, off, off + nb)
            bs = [z3.Select(o.arr, z3.BitVecVal(off + i, 64)) for i in range(nb)]
        else:
            self.flush(o)
            bs = [z3.Select(o.arr, bv(p.off) + i) for i in range(nb)]
        v = z3.Concat(*reversed(bs)) if nb > 1 else bs[0]
        if bits == 1:
            return z3.Extract(0, 0, v) == 1
        if v.size() != bits:
            v = z3.Extract(bits - 1, 0, v)
        return v

    def store_int(self, p, val, bits):
        nb = (bits + 7) // 8
        self.check_access(p, nb, "write")
        o = p.obj
        if o.kind == "global" and o.tag.get("constant"):
            self.violation("write-to-constant", "write to constant %s" % o.name)
        off = conc(p.off)
        if z3.is_bool(val):
            val = bool_to_bv(val, nb * 8)
        elif val.size() != nb * 8:
            val = z3.ZeroExt(nb * 8 - val.size(), val)
        if off is not None:
            self.drop_cells(o, off, off + nb)
            o.cells[off] = (nb, val)
        else:
            self.flush(o)
            for i in range(nb):
                o.arr = z3.Store(o.arr, bv(p.off) + i, z3.Extract(8 * i + 7, 8 * i, val))

    def load_ptr(self, p):
        self.check_access(p, 8, "read")
        off = conc(p.off)
        if off is None:
            raise Unsupported("pointer load at a symbolic offset")
        c = p.obj.cells.get(off)
        if c is not None and is_ptr(c[1]):
            return c[1]
        if c is not None and c[0] == 8:
            z = conc(c[1])
            if z == 0:
                return NULL
        # bytes that are provably zero (memset / zero initialiser) read as a null pointer
        if not any(o_ < off + 8 and o_ + n_ > off for o_, (n_, _v) in p.obj.cells.items()):
            raw = z3.simplify(z3.Concat(*[z3.Select(p.obj.arr, z3.BitVecVal(off + i, 64)) for i in range(7, -1, -1)]))
            if conc(raw) == 0:
                return NULL
        if p.obj.kind == "heap" and p.obj.alloc == "malloc" and p.obj.name == "malloc" and z3.is_const(p.obj.arr) \
                and p.obj.arr.decl().kind() == z3.Z3_OP_UNINTERPRETED \
                and not any(o_ < off + 8 and o_ + n_ > off for o_, (n_, _v) in p.obj.cells.items()):
            # a block from malloc nothing was ever stored into: its content is indeterminate
            self.violation("uninitialised-read", "a pointer is read from %s+%d, malloc'ed memory that was never written" % (p.obj.name, off))
        # unknown memory read as a pointer
        hook = p.obj.tag.get("ptr_loader")
        if hook is not None:
            v = hook(self, p.obj, off)
            p.obj.cells[off] = (8, v)
            return v
        raise Unsupported("pointer load from untyped memory of %s at %d" % (p.obj.name, off))

    def store_ptr(self, p, val):
        self.check_access(p, 8, "write")
        off = conc(p.off)
        if off is None:
            raise Unsupported("pointer store at a symbolic offset")
        self.drop_cells(p.obj, off, off + 8)
        p.obj.cells[off] = (8, val)

    # typed load / store (aggregates recursively)
    def load(self, p, ty):
        t = ir.resolve(ty)
        if t.kind == "int":
            return self.load_int(p, t.bits)
        if t.kind == "float":
            return self.load_int(p, t.bits)
        if t.kind == "ptr":
            return self.load_ptr(p)
        if t.kind == "struct":
            return [self.load(self.padd(p, ir.field_offset(t, i)), f) for i, f in enumerate(t.fields)]
        if t.kind == "array":
            es = ir.size_of(t.elem)
            return [self.load(self.padd(p, i * es), t.elem) for i in range(t.n)]
        raise Unsupported("load of %s" % t.text())

    def store(self, p, val, ty):
        t = ir.resolve(ty)
        if t.kind in ("int", "float"):
            return self.store_int(p, val, t.bits)
        if t.kind == "ptr":
            return self.store_ptr(p, val)
        if t.kind == "struct":
            for i, f in enumerate(t.fields):
                self.store(self.padd(p, ir.field_offset(t, i)), val[i], f)
            return
        if t.kind == "array":
            es = ir.size_of(t.elem)
            for i in range(t.n):
                self.store(self.padd(p, i * es), val[i], t.elem)
            return
        raise Unsupported("store of %s" % t.text())

    def padd(self, p, delta):
        if isinstance(p, FuncPtr):
            raise Unsupported("arithmetic on a function pointer")
        if isinstance(delta, int) and isinstance(p.off, int):
            return Ptr(p.obj, p.off + delta)
        d = conc(delta)
        o = conc(p.off)
        if d is not None and o is not None:
            r = (o + d) & 0xFFFFFFFFFFFFFFFF
            if r >= 1 << 63:
                r -= 1 << 64
            return Ptr(p.obj, r)
        return Ptr(p.obj, z3.simplify(bv(p.off) + bv(delta)))

    # ------------------------------------------------------------------ byte-range helpers for models
    def byte(self, o, i):
        """byte i (int or BV64) of object o as BV8 (flushes overlapping cells)."""
        ci = conc(i)
        if ci is not None:
            self.flush(o, ci, ci + 1)
            return z3.Select(o.arr, z3.BitVecVal(ci, 64))
        self.flush(o)
        return z3.Select(o.arr, bv(i))

    def set_byte(self, o, i, v):
        ci = conc(i)
        if ci is not None:
            self.drop_cells(o, ci, ci + 1)
            o.arr = z3.Store(o.arr, z3.BitVecVal(ci, 64), v)
        else:
            self.flush(o)
            o.arr = z3.Store(o.arr, bv(i), v)

    # ------------------------------------------------------------------ operands
    def zero_of(self, ty):
        t = ir.resolve(ty)
        if t.kind == "int":
            return z3.BoolVal(False) if t.bits == 1 else z3.BitVecVal(0, t.bits)
        if t.kind == "float":
            return z3.BitVecVal(0, t.bits)
        if t.kind == "ptr":
            return NULL
        if t.kind == "struct":
            return [self.zero_of(f) for f in t.fields]
        if t.kind == "array":
            return [self.zero_of(t.elem) for _ in range(t.n)]
        raise Unsupported("zero of %s" % t.text())

    def undef_of(self, ty):
        t = ir.resolve(ty)
        if t.kind == "int":
            return self.fresh_bool("undef") if t.bits == 1 else self.fresh("undef", t.bits)
        if t.kind == "float":
            return self.fresh("undef", t.bits)
        if t.kind == "ptr":
            return NULL
        if t.kind == "struct":
            return [self.undef_of(f) for f in t.fields]
        if t.kind == "array":
            return [self.undef_of(t.elem) for _ in range(t.n)]
        raise Unsupported("undef of %s" % t.text())

    def float_const(self, text, bits):
        import struct
        if text.lower().startswith("0x"):
            raw = int(text, 16)       # LLVM prints float constants as 64-bit hex of the double value
            if bits == 32:
                d = struct.unpack("<d", struct.pack("<Q", raw))[0]
                raw = struct.unpack("<I", struct.pack("<f", d))[0]
            return z3.BitVecVal(raw, bits)
        d = float(text)
        if bits == 32:
            return z3.BitVecVal(struct.unpack("<I", struct.pack("<f", d))[0], 32)
        return z3.BitVecVal(struct.unpack("<Q", struct.pack("<d", d))[0], 64)

    def val(self, fr, ty, v):
        k = v[0]
        if k == "local":
            try:
                return fr.env[v[1]]
            except KeyError:
                raise Unsupported("use of undefined value %s" % v[1])
        if k == "int":
            t = ir.resolve(ty)
            if t.kind == "ptr":
                if v[1] == 0:
                    return NULL
                raise Unsupported("integer constant as pointer")
            if t.bits == 1:
                return z3.BoolVal(bool(v[1] & 1))
            return z3.BitVecVal(v[1], t.bits)
        if k == "null":
            return NULL
        if k == "global":
            return self.global_ptr(v[1])
        if k == "zero":
            return self.zero_of(ty)
        if k == "undef":
            return self.undef_of(ty)
        if k == "float":
            return self.float_const(v[1], ir.resolve(ty).bits)
        if k == "cexpr":
            return self.const_expr(fr, v)
        if k == "agg":
            return [self.val(fr, t, x) for (t, x) in v[1]]
        if k == "cstr":
            return [z3.BitVecVal(b, 8) for b in v[1]]
        raise Unsupported("operand %r" % (v,))

    def const_expr(self, fr, v):
        op = v[1]
        if op == "gep":
            _, _, bty, pty, base, idx = v
            p = self.val(fr, pty, base)
            return self.gep(fr, bty, p, idx)
        if op in ("bitcast", "addrspacecast"):
            return self.val(fr, v[2], v[3])
        if op == "ptrtoint":
            p = self.val(fr, v[2], v[3])
            if isinstance(p, Ptr) and p.obj is None:
                return z3.BitVecVal(0, ir.resolve(v[4]).bits)
            raise Unsupported("ptrtoint constant expression")
        if op == "inttoptr":
            x = self.val(fr, v[2], v[3])
            if conc(x) == 0:
                return NULL
            raise Unsupported("inttoptr constant expression")
        raise Unsupported("constant expression %s" % op)

    def global_ptr(self, name):
        if name in self.m.functions:
            return FuncPtr(name)
        if name in self.globals:
            return Ptr(self.globals[name], 0)
        g = self.m.globals.get(name)
        if g is None:
            # external data symbol (e.g. Python type objects): an opaque object per name
            o = self.new_obj("extern:" + name, 1 << 20, "extern")
            o.tag["symbol"] = name
            self.globals[name] = o
            return Ptr(o, 0)
        if g.ty is None:
            raise Unsupported("global %s could not be parsed" % name)
        o = self.new_obj("global:" + name, ir.size_of(g.ty), "global")
        o.tag["constant"] = g.constant
        o.tag["symbol"] = name
        self.globals[name] = o
        if g.init is None and ir.resolve(g.ty).kind == "ptr":
            # an external pointer variable (e.g. PyExc_TypeError): it points to one opaque object named after it
            tgt = self.new_obj("extern:*" + name, 1 << 16, "extern")
            tgt.tag["symbol"] = name
            o.cells[0] = (8, Ptr(tgt, 0))
        if g.init is not None:
            saved = o.tag["constant"]
            o.tag["constant"] = False
            self.init_global(Ptr(o, 0), g.ty, g.init)
            o.tag["constant"] = saved
        return Ptr(o, 0)

    def init_global(self, p, ty, init):
        t = ir.resolve(ty)
        k = init[0]
        if k == "zero":
            n = ir.size_of(t)
            if t.kind in ("int", "float", "ptr"):
                self.store(p, self.zero_of(t), t)
            else:
                self.store(p, self.zero_of(t), t)
            return
        if k == "cstr":
            for i, b in enumerate(init[1]):
                p.obj.arr = z3.Store(p.obj.arr, z3.BitVecVal(conc(p.off) + i, 64), z3.BitVecVal(b, 8))
            p.obj.tag.setdefault("bytes", {})[conc(p.off)] = init[1]
            return
        if k == "agg":
            if t.kind == "struct":
                for i, (ft, fv) in enumerate(init[1]):
                    self.init_global(self.padd(p, ir.field_offset(t, i)), ft, fv)
            else:
                es = ir.size_of(t.elem)
                for i, (et, ev) in enumerate(init[1]):
                    self.init_global(self.padd(p, i * es), et, ev)
            return
        if k == "undef":
            return
        self.store(p, self.val(None, t, init), t)

    def cstring_at(self, p):
        """python bytes of a constant C string a pointer designates (for format strings), or None."""
        if not isinstance(p, Ptr) or p.obj is None:
            return None
        off = conc(p.off)
        if off is None:
            return None
        for base, data in p.obj.tag.get("bytes", {}).items():
            if base <= off < base + len(data):
                s = data[off - base:]
                z = s.find(b"\0")
                return s if z < 0 else s[:z]
        return None

    # ------------------------------------------------------------------ gep
    def gep(self, fr, bty, p, idx):
        if isinstance(p, FuncPtr):
            raise Unsupported("gep on function pointer")
        t = bty
        first = True
        total_c = 0
        total_s = None
        for (it, iv) in idx:
            x = self.val(fr, it, iv)
            bits = ir.resolve(it).bits
            if first:
                stride = ir.size_of(t)
                first = False
                cur_t = t
            else:
                rt = ir.resolve(cur_t)
                if rt.kind == "struct":
                    ci = conc(x)
                    if ci is None:
                        raise Unsupported("symbolic struct index")
                    total_c += ir.field_offset(rt, ci)
                    cur_t = rt.fields[ci]
                    continue
                if rt.kind == "array":
                    cur_t = rt.elem
                    stride = ir.size_of(cur_t)
                else:
                    raise Unsupported("gep into %s" % rt.text())
            ci = conc(x)
            if ci is not None:
                if ci >= 1 << (bits - 1):
                    ci -= 1 << bits
                total_c += ci * stride
            else:
                xs = z3.SignExt(64 - bits, x) if bits < 64 else x
                term = xs * z3.BitVecVal(stride, 64)
                total_s = term if total_s is None else total_s + term
        if total_s is None:
            return self.padd(p, total_c)
        return self.padd(p, z3.simplify(total_s + z3.BitVecVal(total_c & 0xFFFFFFFFFFFFFFFF, 64)))

    # ------------------------------------------------------------------ pointer comparison
    def ptr_eq(self, a, b):
        if isinstance(a, FuncPtr) or isinstance(b, FuncPtr):
            if isinstance(a, FuncPtr) and isinstance(b, FuncPtr):
                return z3.BoolVal(a.name == b.name)
            other = b if isinstance(a, FuncPtr) else a
            return z3.BoolVal(False) if isinstance(other, Ptr) else z3.BoolVal(False)
        if a.obj is None and b.obj is None:
            return bv(a.off) == bv(b.off)
        if a.obj is None or b.obj is None:
            # a pointer into a live object is never null (objects do not wrap around address 0)
            return z3.BoolVal(False)
        if a.obj is b.obj:
            return bv(a.off) == bv(b.off)
        return z3.BoolVal(False)

    # ------------------------------------------------------------------ calls
    def call_function(self, name, args):
        """Interpret a defined function.  args: list of values."""
        fn = self.m.functions.get(name)
        if fn is None or not fn.defined:
            raise Unsupported("call of undefined function %s" % name)
        fr = Frame(fn)
        if len(args) != len(fn.params) and not fn.vararg:
            raise Unsupported("arity mismatch calling %s" % name)
        for (t, pn, at), a in zip(fn.params, args):
            fr.env[pn] = a
        fr.block = fn.order[0]
        try:
            while True:
                instrs = fn.blocks[fr.block]
                jumped = False
                for ins in instrs:
                    self.steps += 1
                    if self.steps > self.max_steps:
                        raise Inconclusive("step budget %d exceeded (unwinding bound)" % self.max_steps)
                    r = self.step(fr, ins)
                    if r is None:
                        continue
                    if r[0] == "ret":
                        return r[1]
                    fr.prev, fr.block = fr.block, r[1]
                    jumped = True
                    break
                if not jumped:
                    raise Unsupported("block %s of %s falls through" % (fr.block, name))
        finally:
            for o in fr.allocas:
                o.live = False

    def dispatch_call(self, fr, ins):
        rt, callee, args = ins.a
        if callee[0] == "global":
            name = callee[1]
        else:
            f = self.val(fr, ir.PtrT(ir.IntT(8)), callee)
            if isinstance(f, FuncPtr):
                name = f.name
            else:
                raise Unsupported("indirect call through a data pointer")
        argv = [self.val(fr, t, v) for (t, v, at) in args]
        argt = [t for (t, v, at) in args]
        if name.startswith("llvm.dbg.") or name.startswith("llvm.lifetime.") or name in ("llvm.stacksave", "llvm.stackrestore"):
            return None
        h = self.stubs.get(name)
        if h is not None:
            return h(self, name, argv, argt, rt)
        h = self.intrinsics.get(name)
        if h is not None:
            return h(self, name, argv, argt, rt)
        fn = self.m.functions.get(name)
        if fn is not None and fn.defined:
            return self.call_function(name, argv)
        h = self.stubs.get("*")
        if h is not None:
            return h(self, name, argv, argt, rt)
        raise Unsupported("call to unmodelled external function %s" % name)

    # ------------------------------------------------------------------ one instruction
    def step(self, fr, ins):
        op = ins.op
        a = ins.a
        if op == "alloca":
            t, count = a
            n = 1
            if count is not None:
                c = conc(self.val(fr, count[0], count[1]))
                if c is None:
                    raise Unsupported("variable-length alloca")
                n = c
            o = self.new_obj("stack:" + (ins.dest or "?") + "@" + fr.fn.name, ir.size_of(t) * n, "stack")
            fr.allocas.append(o)
            fr.env[ins.dest] = Ptr(o, 0)
            return None
        if op == "load":
            t, pv = a
            p = self.val(fr, ir.PtrT(t), pv)
            fr.env[ins.dest] = self.load(p, t)
            return None
        if op == "store":
            t, v, pv = a
            p = self.val(fr, ir.PtrT(t), pv)
            self.store(p, self.val(fr, t, v), t)
            return None
        if op == "gep":
            bty, base, idx = a
            p = self.val(fr, ir.PtrT(bty), base)
            fr.env[ins.dest] = self.gep(fr, bty, p, idx)
            return None
        if op == "cast":
            fr.env[ins.dest] = self.cast(fr, *a)
            return None
        if op == "bin":
            fr.env[ins.dest] = self.binop(fr, *a)
            return None
        if op == "icmp":
            fr.env[ins.dest] = self.icmp(fr, *a)
            return None
        if op == "br":
            return ("br", a[0])
        if op == "condbr":
            c = to_bool(self.val(fr, ir.IntT(1), a[0]))
            return ("br", a[1] if self.e.branch(c) else a[2])
        if op == "switch":
            t, v, default, cases = a
            x = self.val(fr, t, v)
            bits = ir.resolve(t).bits
            for cv, lbl in cases:
                if self.e.branch(x == z3.BitVecVal(cv, bits)):
                    return ("br", lbl)
            return ("br", default)
        if op == "ret":
            t, v = a
            return ("ret", None if v is None else self.val(fr, t, v))
        if op == "phi":
            t, inc = a
            for v, lbl in inc:
                if lbl == fr.prev:
                    fr.env[ins.dest] = self.val(fr, t, v)
                    return None
            raise Unsupported("phi without matching predecessor %s" % fr.prev)
        if op == "select":
            cv, t, x, y = a
            c = to_bool(self.val(fr, ir.IntT(1), cv))
            X, Y = self.val(fr, t, x), self.val(fr, t, y)
            if is_ptr(X) or is_ptr(Y) or isinstance(X, list):
                fr.env[ins.dest] = X if self.e.branch(c) else Y
            else:
                fr.env[ins.dest] = z3.If(c, X, Y)
            return None
        if op == "call":
            r = self.dispatch_call(fr, ins)
            if ins.dest is not None:
                fr.env[ins.dest] = r
            return None
        if op == "unreachable":
            raise PathAbort("unreachable")
        if op == "fcmp":
            pred, t, x, y = a
            X, Y = self.val(fr, t, x), self.val(fr, t, y)
            fr.env[ins.dest] = self.fcmp(pred, ir.resolve(t).bits, X, Y)
            return None
        if op == "fneg":
            t, v = a
            bits = ir.resolve(t).bits
            fr.env[ins.dest] = self.val(fr, t, v) ^ z3.BitVecVal(1 << (bits - 1), bits)
            return None
        raise Unsupported("instruction: %s" % ins.text[:100])

    # ------------------------------------------------------------------ floating point
    # float / double values are carried as their IEEE-754 bit patterns (BitVec 32/64); operations
    # convert to z3's FP theory and back, so the solver decides them with IEEE semantics
    # (round-to-nearest-even for arithmetic and int->fp, round-toward-zero for fp->int).
    @staticmethod
    def fsort(bits):
        if bits == 32:
            return z3.Float32()
        if bits == 64:
            return z3.Float64()
        raise Unsupported("floating-point type of %d bits" % bits)

    def to_fp(self, x, bits):
        return z3.fpBVToFP(x, self.fsort(bits))

    def from_fp(self, f):
        return z3.fpToIEEEBV(f)

    def fcmp(self, pred, bits, X, Y):
        fx, fy = self.to_fp(X, bits), self.to_fp(Y, bits)
        uno = z3.Or(z3.fpIsNaN(fx), z3.fpIsNaN(fy))
        base = {"eq": z3.fpEQ(fx, fy), "gt": z3.fpGT(fx, fy), "ge": z3.fpGEQ(fx, fy), "lt": z3.fpLT(fx, fy),
                "le": z3.fpLEQ(fx, fy), "ne": z3.Not(z3.fpEQ(fx, fy))}
        if pred == "true":
            return z3.BoolVal(True)
        if pred == "false":
            return z3.BoolVal(False)
        if pred == "ord":
            return z3.Not(uno)
        if pred == "uno":
            return uno
        if pred[0] == "o" and pred[1:] in base:
            return z3.And(z3.Not(uno), base[pred[1:]])
        if pred[0] == "u" and pred[1:] in base:
            return z3.Or(uno, base[pred[1:]])
        raise Unsupported("fcmp %s" % pred)

    def fbin(self, op, bits, x, y):
        fx, fy = self.to_fp(x, bits), self.to_fp(y, bits)
        rm = z3.RNE()
        if op == "fadd":
            r = z3.fpAdd(rm, fx, fy)
        elif op == "fsub":
            r = z3.fpSub(rm, fx, fy)
        elif op == "fmul":
            r = z3.fpMul(rm, fx, fy)
        elif op == "fdiv":
            r = z3.fpDiv(rm, fx, fy)
        else:
            raise Unsupported("floating-point arithmetic %s" % op)
        # NaN payloads are not determined by IEEE-754; the result is a fresh value constrained through FP equality
        out = self.fresh(op, bits)
        fo = self.to_fp(out, bits)
        self.e.assume(z3.If(z3.fpIsNaN(r), z3.fpIsNaN(fo), fo == r))
        return out

    def fcast(self, op, x, f, t):
        if op in ("sitofp", "uitofp"):
            if z3.is_bool(x):
                x = bool_to_bv(x, 8)
            mk = z3.fpSignedToFP if op == "sitofp" else z3.fpUnsignedToFP
            return self.from_fp(mk(z3.RNE(), x, self.fsort(t.bits)))
        if op in ("fptosi", "fptoui"):
            fx = self.to_fp(x, f.bits)
            mk = z3.fpToSBV if op == "fptosi" else z3.fpToUBV
            if t.bits == 1:
                return z3.Extract(0, 0, mk(z3.RTZ(), fx, z3.BitVecSort(8))) == 1
            # out-of-range conversions are undefined in C; z3 leaves them unspecified, which is what we want
            return mk(z3.RTZ(), fx, z3.BitVecSort(t.bits))
        if op == "fpext":
            return self.from_fp(z3.fpFPToFP(z3.RNE(), self.to_fp(x, f.bits), self.fsort(t.bits)))
        if op == "fptrunc":
            r = z3.fpFPToFP(z3.RNE(), self.to_fp(x, f.bits), self.fsort(t.bits))
            out = self.fresh("fptrunc", t.bits)
            fo = self.to_fp(out, t.bits)
            self.e.assume(z3.If(z3.fpIsNaN(r), z3.fpIsNaN(fo), fo == r))
            return out
        raise Unsupported("cast %s" % op)

    def cast(self, fr, op, ft, v, tt):
        x = self.val(fr, ft, v)
        f, t = ir.resolve(ft), ir.resolve(tt)
        if op in ("bitcast", "addrspacecast"):
            if f.kind == "ptr" and t.kind == "ptr":
                return x
            if f.kind in ("int", "float") and t.kind in ("int", "float") and f.bits == t.bits:
                return x
            raise Unsupported("bitcast %s to %s" % (f.text(), t.text()))
        if op == "trunc":
            if t.bits == 1:
                return z3.Extract(0, 0, x) == 1
            return z3.Extract(t.bits - 1, 0, x)
        if op == "zext":
            if z3.is_bool(x):
                return bool_to_bv(x, t.bits)
            return z3.ZeroExt(t.bits - f.bits, x)
        if op == "sext":
            if z3.is_bool(x):
                return z3.If(x, z3.BitVecVal(-1, t.bits), z3.BitVecVal(0, t.bits))
            return z3.SignExt(t.bits - f.bits, x)
        if op == "ptrtoint":
            if isinstance(x, Ptr):
                # every object sits in its own 4 GiB window (id << 32): differences inside one object are
                # exact, and no two objects overlap; the absolute values carry no other meaning
                o = bv(x.off) if x.obj is None else z3.simplify(z3.BitVecVal(x.obj.id << 32, 64) + bv(x.off))
                return o if t.bits == 64 else z3.Extract(t.bits - 1, 0, o)
            raise Unsupported("ptrtoint of a function pointer")
        if op == "inttoptr":
            c = conc(z3.simplify(x) if not isinstance(x, int) else x)
            if c == 0:
                return NULL
            if c is not None:
                oid, off = c >> 32, c & 0xFFFFFFFF
                for o in self.objects:
                    if o.id == oid:
                        return Ptr(o, off)
            if c is None:
                # base + symbolic offset: recover the object from the constant part
                xs = z3.simplify(x)
                for o in self.objects:
                    d = z3.simplify(xs - z3.BitVecVal(o.id << 32, 64))
                    if self.e.check(z3.UGT(d, z3.BitVecVal(1 << 31, 64))) != "sat":
                        return Ptr(o, d)
            raise Unsupported("inttoptr of an integer that is not an object address")
        return self.fcast(op, x, f, t)

    def binop(self, fr, op, t, a, b):
        x, y = self.val(fr, t, a), self.val(fr, t, b)
        rt = ir.resolve(t)
        if rt.kind == "float":
            return self.fbin(op, rt.bits, x, y)
        if rt.kind != "int":
            raise Unsupported("arithmetic %s on %s" % (op, rt.text()))
        if rt.bits == 1:
            x, y = to_bool(x), to_bool(y)
            if op == "and":
                return z3.And(x, y)
            if op == "or":
                return z3.Or(x, y)
            if op in ("xor", "add", "sub"):
                return z3.Xor(x, y)
            raise Unsupported("i1 %s" % op)
        if op == "add":
            return x + y
        if op == "sub":
            return x - y
        if op == "mul":
            return x * y
        if op == "and":
            return x & y
        if op == "or":
            return x | y
        if op == "xor":
            return x ^ y
        if op == "shl":
            return x << y
        if op == "lshr":
            return z3.LShR(x, y)
        if op == "ashr":
            return x >> y
        if op in ("udiv", "sdiv", "urem", "srem"):
            if self.feasible(y == 0):
                self.violation("division-by-zero", "%s by zero" % op, y == 0)
            return {"udiv": z3.UDiv, "sdiv": lambda p, q: p / q, "urem": z3.URem, "srem": z3.SRem}[op](x, y)
        raise Unsupported("binop %s" % op)

    def icmp(self, fr, pred, t, a, b):
        x, y = self.val(fr, t, a), self.val(fr, t, b)
        if is_ptr(x) or is_ptr(y):
            eq = self.ptr_eq(x, y)
            if pred == "eq":
                return eq
            if pred == "ne":
                return z3.Not(eq)
            if isinstance(x, Ptr) and isinstance(y, Ptr) and x.obj is y.obj:
                xo, yo = bv(x.off), bv(y.off)
                return {"ult": z3.ULT, "ule": z3.ULE, "ugt": z3.UGT, "uge": z3.UGE}[pred](xo, yo)
            raise Unsupported("ordering comparison of unrelated pointers")
        if z3.is_bool(x) or z3.is_bool(y):
            x, y = to_bool(x), to_bool(y)
            if pred == "eq":
                return x == y
            if pred == "ne":
                return x != y
            raise Unsupported("ordered i1 comparison")
        return {"eq": lambda p, q: p == q, "ne": lambda p, q: p != q, "slt": lambda p, q: p < q, "sle": lambda p, q: p <= q,
                "sgt": lambda p, q: p > q, "sge": lambda p, q: p >= q, "ult": z3.ULT, "ule": z3.ULE, "ugt": z3.UGT,
                "uge": z3.UGE}[pred](x, y)
