"""Parser for the textual LLVM IR that clang 14 emits at -O0 (typed pointers).

Only what the generated wrappers use is supported; anything else is kept as an `Unknown`
instruction and makes the executor raise Unsupported when (and only when) it is reached.
"""
import re


class IRError(Exception):
    pass


# ---------------------------------------------------------------------------- types
class Type(object):
    kind = "?"

    def __repr__(self):
        return self.text()


class VoidT(Type):
    kind = "void"

    def text(self):
        return "void"


class IntT(Type):
    kind = "int"

    def __init__(self, bits):
        self.bits = bits

    def text(self):
        return "i%d" % self.bits


class FloatT(Type):
    kind = "float"

    def __init__(self, name, bits):
        self.name, self.bits = name, bits

    def text(self):
        return self.name


class PtrT(Type):
    kind = "ptr"

    def __init__(self, to):
        self.to = to

    def text(self):
        return self.to.text() + "*"


class ArrayT(Type):
    kind = "array"

    def __init__(self, n, elem):
        self.n, self.elem = n, elem

    def text(self):
        return "[%d x %s]" % (self.n, self.elem.text())


class StructT(Type):
    kind = "struct"

    def __init__(self, fields, packed=False):
        self.fields, self.packed = fields, packed

    def text(self):
        return "{%s}" % ", ".join(f.text() for f in self.fields)


class NamedT(Type):
    kind = "named"

    def __init__(self, name, module):
        self.name, self.module = name, module

    def resolve(self):
        t = self.module.types.get(self.name)
        if t is None:
            raise IRError("opaque or unknown type %s" % self.name)
        return t

    def text(self):
        return self.name


class FuncT(Type):
    kind = "func"

    def __init__(self, ret, params, vararg):
        self.ret, self.params, self.vararg = ret, params, vararg

    def text(self):
        return "%s (%s)" % (self.ret.text(), ", ".join(p.text() for p in self.params))


class MetaT(Type):
    kind = "metadata"

    def text(self):
        return "metadata"


def resolve(t):
    while t.kind == "named":
        t = t.resolve()
    return t


def align_of(t):
    t = resolve(t)
    if t.kind == "int":
        return max(1, min(8, (t.bits + 7) // 8)) if t.bits <= 64 else 16
    if t.kind == "float":
        return {32: 4, 64: 8, 80: 16, 128: 16}[t.bits]
    if t.kind == "ptr":
        return 8
    if t.kind == "array":
        return align_of(t.elem)
    if t.kind == "struct":
        if t.packed or not t.fields:
            return 1
        return max(align_of(f) for f in t.fields)
    raise IRError("align_of %s" % t.text())


def size_of(t):
    t = resolve(t)
    if t.kind == "int":
        n = (t.bits + 7) // 8
        # i1 -> 1, i8 -> 1, i16 -> 2, i32 -> 4, i64 -> 8
        p = 1
        while p < n:
            p *= 2
        return p
    if t.kind == "float":
        return {32: 4, 64: 8, 80: 16, 128: 16}[t.bits]
    if t.kind == "ptr":
        return 8
    if t.kind == "array":
        return t.n * size_of(t.elem)
    if t.kind == "struct":
        off = 0
        for f in t.fields:
            if not t.packed:
                a = align_of(f)
                off = (off + a - 1) // a * a
            off += size_of(f)
        if not t.packed and t.fields:
            a = align_of(t)
            off = (off + a - 1) // a * a
        return off
    if t.kind == "void" or t.kind == "func":
        return 1
    raise IRError("size_of %s" % t.text())


def field_offset(t, idx):
    t = resolve(t)
    off = 0
    for i, f in enumerate(t.fields):
        if not t.packed:
            a = align_of(f)
            off = (off + a - 1) // a * a
        if i == idx:
            return off
        off += size_of(f)
    raise IRError("field index %d out of range" % idx)


# ---------------------------------------------------------------------------- cursor
class Cur(object):
    def __init__(self, s, module):
        self.s, self.i, self.m = s, 0, module

    def ws(self):
        while self.i < len(self.s) and self.s[self.i] in " \t":
            self.i += 1

    def peek(self, lit):
        self.ws()
        return self.s.startswith(lit, self.i)

    def eat(self, lit):
        self.ws()
        if self.s.startswith(lit, self.i):
            self.i += len(lit)
            return True
        return False

    def need(self, lit):
        if not self.eat(lit):
            raise IRError("expected %r at %r" % (lit, self.s[self.i:self.i + 40]))

    def word(self):
        self.ws()
        m = re.compile(r"[A-Za-z_.][\w.]*").match(self.s, self.i)
        if not m:
            return None
        self.i = m.end()
        return m.group(0)

    def peek_word(self):
        self.ws()
        m = re.compile(r"[A-Za-z_.][\w.]*").match(self.s, self.i)
        return m.group(0) if m else None

    def done(self):
        self.ws()
        return self.i >= len(self.s)

    def rest(self):
        return self.s[self.i:]

    # -------------------------------------------------------------- names
    def local_name(self):
        self.ws()
        m = re.compile(r'%("(?:[^"\\]|\\.)*"|[\w.$-]+)').match(self.s, self.i)
        if not m:
            return None
        self.i = m.end()
        return "%" + m.group(1).strip('"')

    def global_name(self):
        self.ws()
        m = re.compile(r'@("(?:[^"\\]|\\.)*"|[\w.$-]+)').match(self.s, self.i)
        if not m:
            return None
        self.i = m.end()
        return m.group(1).strip('"')

    # -------------------------------------------------------------- types
    def type(self):
        self.ws()
        s = self.s
        if s.startswith("void", self.i) and not re.match(r"[\w.]", s[self.i + 4:self.i + 5] or " "):
            self.i += 4
            t = VoidT()
        elif re.compile(r"i\d+").match(s, self.i):
            m = re.compile(r"i(\d+)").match(s, self.i)
            self.i = m.end()
            t = IntT(int(m.group(1)))
        elif s.startswith("float", self.i):
            self.i += 5
            t = FloatT("float", 32)
        elif s.startswith("double", self.i):
            self.i += 6
            t = FloatT("double", 64)
        elif s.startswith("x86_fp80", self.i):
            self.i += 8
            t = FloatT("x86_fp80", 80)
        elif s.startswith("metadata", self.i):
            self.i += 8
            t = MetaT()
        elif s.startswith("%", self.i):
            n = self.local_name()
            t = NamedT(n, self.m)
        elif s.startswith("[", self.i):
            self.i += 1
            self.ws()
            m = re.compile(r"(\d+)\s*x\s*").match(s, self.i)
            self.i = m.end()
            el = self.type()
            self.need("]")
            t = ArrayT(int(m.group(1)), el)
        elif s.startswith("<{", self.i) or s.startswith("{", self.i):
            packed = s.startswith("<{", self.i)
            self.i += 2 if packed else 1
            fields = []
            self.ws()
            if not self.peek("}"):
                while True:
                    fields.append(self.type())
                    if not self.eat(","):
                        break
            self.need("}")
            if packed:
                self.need(">")
            t = StructT(fields, packed)
        elif s.startswith("opaque", self.i):
            self.i += 6
            return None
        else:
            raise IRError("cannot parse type at %r" % s[self.i:self.i + 40])
        # suffixes: pointers and function types
        while True:
            self.ws()
            if self.s.startswith("*", self.i):
                self.i += 1
                t = PtrT(t)
            elif self.s.startswith("(", self.i):
                self.i += 1
                params, vararg = [], False
                self.ws()
                if not self.peek(")"):
                    while True:
                        if self.eat("..."):
                            vararg = True
                        else:
                            params.append(self.type())
                        if not self.eat(","):
                            break
                self.need(")")
                t = FuncT(t, params, vararg)
            else:
                break
        return t

    # -------------------------------------------------------------- attribute skipping
    PARAM_ATTRS = re.compile(
        r"(noundef|signext|zeroext|nonnull|noalias|nocapture|readonly|writeonly|readnone|returned|immarg|inreg|nest|nofree|"
        r"align \d+|dereferenceable\(\d+\)|dereferenceable_or_null\(\d+\)|"
        r"(?:sret|byval|byref|inalloca|preallocated|elementtype)\((?:[^()]|\([^()]*\))*\))\s*")

    def skip_param_attrs(self):
        attrs = []
        while True:
            self.ws()
            m = self.PARAM_ATTRS.match(self.s, self.i)
            if not m:
                return attrs
            attrs.append(m.group(1))
            self.i = m.end()

    # -------------------------------------------------------------- values
    def value(self, ty):
        """Parse an operand of the given type.  Returns a tuple-encoded value:
        ('local', name) ('global', name) ('int', n) ('null',) ('undef',) ('zero',) ('float', text)
        ('cstr', bytes) ('agg', [(type, value)...]) ('cexpr', op, ...)"""
        self.ws()
        s = self.s
        if s.startswith("%", self.i):
            return ("local", self.local_name())
        if s.startswith("@", self.i):
            return ("global", self.global_name())
        m = re.compile(r"-?\d+(?![\w.])").match(s, self.i)
        if m and not re.compile(r"-?\d+\.\d").match(s, self.i) and not re.compile(r"-?\d+e", re.I).match(s, self.i):
            self.i = m.end()
            return ("int", int(m.group(0)))
        m = re.compile(r"(0x[0-9A-Fa-f]+|-?\d+\.\d*(?:e[+-]?\d+)?|-?\d+e[+-]?\d+)", re.I).match(s, self.i)
        if m:
            self.i = m.end()
            return ("float", m.group(1))
        for lit, v in (("null", ("null",)), ("undef", ("undef",)), ("poison", ("undef",)), ("zeroinitializer", ("zero",)),
                       ("true", ("int", 1)), ("false", ("int", 0)), ("none", ("undef",))):
            if s.startswith(lit, self.i) and not re.match(r"[\w.]", s[self.i + len(lit):self.i + len(lit) + 1] or " "):
                self.i += len(lit)
                return v
        if s.startswith('c"', self.i):
            j = self.i + 2
            out = bytearray()
            while s[j] != '"':
                if s[j] == "\\":
                    out.append(int(s[j + 1:j + 3], 16))
                    j += 3
                else:
                    out.append(ord(s[j]))
                    j += 1
            self.i = j + 1
            return ("cstr", bytes(out))
        if s.startswith("[", self.i) or s.startswith("{", self.i) or s.startswith("<{", self.i):
            close = "]" if s.startswith("[", self.i) else "}"
            packed = s.startswith("<{", self.i)
            self.i += 2 if packed else 1
            elems = []
            self.ws()
            if not self.peek(close):
                while True:
                    t = self.type()
                    v = self.value(t)
                    elems.append((t, v))
                    if not self.eat(","):
                        break
            self.need(close)
            if packed:
                self.need(">")
            return ("agg", elems)
        w = self.peek_word()
        if w in ("getelementptr", "bitcast", "inttoptr", "ptrtoint", "addrspacecast", "trunc", "zext", "sext",
                 "add", "sub", "mul", "and", "or", "xor"):
            self.word()
            if w == "getelementptr":
                self.eat("inbounds")
                self.need("(")
                bty = self.type()
                self.need(",")
                pty = self.type()
                base = self.value(pty)
                idx = []
                while self.eat(","):
                    self.eat("inrange")
                    it = self.type()
                    idx.append((it, self.value(it)))
                self.need(")")
                return ("cexpr", "gep", bty, pty, base, idx)
            if w in ("bitcast", "inttoptr", "ptrtoint", "addrspacecast", "trunc", "zext", "sext"):
                self.need("(")
                ft = self.type()
                v = self.value(ft)
                self.need("to")
                tt = self.type()
                self.need(")")
                return ("cexpr", w, ft, v, tt)
            self.skip_flags()
            self.need("(")
            t1 = self.type()
            a = self.value(t1)
            self.need(",")
            t2 = self.type()
            b = self.value(t2)
            self.need(")")
            return ("cexpr", w, t1, a, b)
        if s.startswith("blockaddress", self.i) or s.startswith("dso_local_equivalent", self.i):
            raise IRError("unsupported constant %r" % s[self.i:self.i + 30])
        raise IRError("cannot parse value at %r" % s[self.i:self.i + 60])

    def skip_flags(self):
        while True:
            w = self.peek_word()
            if w in ("nsw", "nuw", "exact", "inbounds", "fast", "nnan", "ninf", "nsz", "arcp", "contract", "afn", "reassoc",
                     "volatile", "atomic", "tail", "musttail", "notail", "fastcc", "ccc"):
                self.word()
            else:
                return


# ---------------------------------------------------------------------------- module
class Instr(object):
    __slots__ = ("op", "dest", "a", "text")

    def __init__(self, op, dest, a, text):
        self.op, self.dest, self.a, self.text = op, dest, a, text


class Function(object):
    def __init__(self, name, ret, params, vararg):
        self.name, self.ret, self.params, self.vararg = name, ret, params, vararg   # params: [(type, name, attrs)]
        self.blocks = {}
        self.order = []
        self.defined = False


class Global(object):
    def __init__(self, name, ty, init, constant):
        self.name, self.ty, self.init, self.constant = name, ty, init, constant


class Module(object):
    def __init__(self):
        self.types = {}
        self.globals = {}
        self.functions = {}

    def text_of_type(self, name):
        return self.types.get(name)


LINKAGE = ("private", "internal", "available_externally", "linkonce", "weak", "common", "appending", "extern_weak",
           "linkonce_odr", "weak_odr", "external", "dso_local", "dso_preemptable", "hidden", "protected", "default",
           "unnamed_addr", "local_unnamed_addr", "thread_local", "externally_initialized", "noundef", "signext", "zeroext",
           "nonnull", "noalias")


def parse_module(text):
    m = Module()
    lines = text.split("\n")
    i = 0
    cur_fn = None
    cur_blk = None
    while i < len(lines):
        raw = lines[i]
        i += 1
        line = raw.split(" ;", 1)[0] if not raw.lstrip().startswith(";") else ""
        # comments may contain ';' inside strings only in c"" constants; handle those lines whole
        if 'c"' in raw and not raw.lstrip().startswith(";"):
            line = raw
        s = line.strip()
        if not s:
            continue
        if cur_fn is None:
            if s.startswith("%") and " = type " in s:
                c = Cur(s, m)
                name = c.local_name()
                c.need("=")
                c.need("type")
                m.types[name] = c.type()
                continue
            if s.startswith("@"):
                parse_global(s, m)
                continue
            if s.startswith("define") or s.startswith("declare"):
                fn = parse_signature(s, m)
                if s.startswith("define"):
                    fn.defined = True
                    cur_fn = fn
                    cur_blk = None
                m.functions[fn.name] = fn
                continue
            continue
        # inside a function
        if s == "}":
            cur_fn = None
            continue
        mm = re.match(r'^("(?:[^"\\]|\\.)*"|[\w.$-]+):', s)
        if mm:
            cur_blk = "%" + mm.group(1).strip('"')
            cur_fn.blocks[cur_blk] = []
            cur_fn.order.append(cur_blk)
            continue
        if cur_blk is None:
            # the entry block's implicit label is the next unnamed value number after the parameters
            n = sum(1 for p in cur_fn.params if re.match(r"^%\d+$", p[1]))
            cur_blk = "%%%d" % n
            cur_fn.blocks[cur_blk] = []
            cur_fn.order.append(cur_blk)
        # multi-line switch
        if s.startswith("switch") and s.endswith("["):
            while not lines[i].strip().startswith("]"):
                s += " " + lines[i].strip()
                i += 1
            s += " ]"
            i += 1
        cur_fn.blocks[cur_blk].append(parse_instr(s, m))
    return m


def parse_global(s, m):
    c = Cur(s, m)
    name = c.global_name()
    c.need("=")
    while c.peek_word() in LINKAGE:
        c.word()
    w = c.word()
    if w not in ("global", "constant"):
        # alias / ifunc etc.: ignore
        return
    try:
        ty = c.type()
        init = None
        if not c.done() and not c.peek(","):
            init = c.value(ty)
    except IRError:
        ty, init = None, ("unparsed", s)
    m.globals[name] = Global(name, ty, init, w == "constant")


def parse_signature(s, m):
    c = Cur(s, m)
    c.word()   # define/declare
    while True:
        w = c.peek_word()
        if w in LINKAGE or w in ("fastcc", "ccc", "coldcc"):
            c.word()
        else:
            break
    c.skip_param_attrs()
    ret = c.type()
    name = c.global_name()
    c.need("(")
    params = []
    vararg = False
    if not c.peek(")"):
        while True:
            if c.eat("..."):
                vararg = True
            else:
                t = c.type()
                attrs = c.skip_param_attrs()
                pname = c.local_name()
                params.append((t, pname, attrs))
            if not c.eat(","):
                break
    c.need(")")
    fn = Function(name, ret, params, vararg)
    # unnamed params are numbered
    for k, (t, pn, at) in enumerate(fn.params):
        if pn is None:
            fn.params[k] = (t, "%" + str(k), at)
    return fn


def parse_call_args(c):
    args = []
    c.need("(")
    if not c.peek(")"):
        while True:
            t = c.type()
            attrs = c.skip_param_attrs()
            if t.kind == "metadata":
                # metadata operands of debug intrinsics: skip to matching , or )
                depth = 0
                while c.i < len(c.s):
                    ch = c.s[c.i]
                    if ch in "([{":
                        depth += 1
                    elif ch in ")]}":
                        if depth == 0:
                            break
                        depth -= 1
                    elif ch == "," and depth == 0:
                        break
                    c.i += 1
                args.append((t, ("undef",), attrs))
            else:
                v = c.value(t)
                args.append((t, v, attrs))
            if not c.eat(","):
                break
    c.need(")")
    return args


BINOPS = ("add", "sub", "mul", "udiv", "sdiv", "urem", "srem", "and", "or", "xor", "shl", "lshr", "ashr",
          "fadd", "fsub", "fmul", "fdiv", "frem")
CASTS = ("trunc", "zext", "sext", "bitcast", "ptrtoint", "inttoptr", "fptrunc", "fpext", "fptoui", "fptosi", "uitofp", "sitofp",
         "addrspacecast")


def parse_instr(s, m):
    try:
        return _parse_instr(s, m)
    except IRError as ex:
        return Instr("unknown", None, (str(ex),), s)


def _parse_instr(s, m):
    c = Cur(s, m)
    dest = None
    if s.startswith("%"):
        dest = c.local_name()
        c.need("=")
    c.skip_flags()
    op = c.word()
    if op == "alloca":
        c.eat("inalloca")
        t = c.type()
        count = None
        if c.eat(","):
            if c.peek("align"):
                pass
            else:
                ct = c.type()
                count = (ct, c.value(ct))
        return Instr("alloca", dest, (t, count), s)
    if op == "load":
        c.skip_flags()
        t = c.type()
        c.need(",")
        pt = c.type()
        p = c.value(pt)
        return Instr("load", dest, (t, p), s)
    if op == "store":
        c.skip_flags()
        t = c.type()
        v = c.value(t)
        c.need(",")
        pt = c.type()
        p = c.value(pt)
        return Instr("store", None, (t, v, p), s)
    if op == "getelementptr":
        c.eat("inbounds")
        bty = c.type()
        c.need(",")
        pty = c.type()
        base = c.value(pty)
        idx = []
        while c.eat(","):
            it = c.type()
            idx.append((it, c.value(it)))
        return Instr("gep", dest, (bty, base, idx), s)
    if op in BINOPS:
        c.skip_flags()
        t = c.type()
        a = c.value(t)
        c.need(",")
        b = c.value(t)
        return Instr("bin", dest, (op, t, a, b), s)
    if op in CASTS:
        ft = c.type()
        v = c.value(ft)
        c.need("to")
        tt = c.type()
        return Instr("cast", dest, (op, ft, v, tt), s)
    if op in ("icmp", "fcmp"):
        c.skip_flags()
        pred = c.word()
        t = c.type()
        a = c.value(t)
        c.need(",")
        b = c.value(t)
        return Instr(op, dest, (pred, t, a, b), s)
    if op == "br":
        if c.eat("label"):
            return Instr("br", None, (c.local_name(),), s)
        t = c.type()
        cond = c.value(t)
        c.need(",")
        c.need("label")
        a = c.local_name()
        c.need(",")
        c.need("label")
        b = c.local_name()
        return Instr("condbr", None, (cond, a, b), s)
    if op == "switch":
        t = c.type()
        v = c.value(t)
        c.need(",")
        c.need("label")
        default = c.local_name()
        c.need("[")
        cases = []
        while not c.peek("]"):
            ct = c.type()
            cv = c.value(ct)
            c.need(",")
            c.need("label")
            cases.append((cv[1], c.local_name()))
        return Instr("switch", None, (t, v, default, cases), s)
    if op == "ret":
        t = c.type()
        if t.kind == "void":
            return Instr("ret", None, (t, None), s)
        return Instr("ret", None, (t, c.value(t)), s)
    if op == "phi":
        c.skip_flags()
        t = c.type()
        inc = []
        while True:
            c.need("[")
            v = c.value(t)
            c.need(",")
            lbl = c.local_name()
            c.need("]")
            inc.append((v, lbl))
            if not c.eat(","):
                break
        return Instr("phi", dest, (t, inc), s)
    if op == "select":
        c.skip_flags()
        ct = c.type()
        cv = c.value(ct)
        c.need(",")
        t1 = c.type()
        a = c.value(t1)
        c.need(",")
        t2 = c.type()
        b = c.value(t2)
        return Instr("select", dest, (cv, t1, a, b), s)
    if op == "call":
        c.skip_flags()
        c.skip_param_attrs()
        rt = c.type()
        # rt may be a full function type for varargs callees: "i32 (i8*, ...)"
        if rt.kind == "func":
            fty = rt
            rt = fty.ret
        elif rt.kind == "ptr" and resolve(rt.to).kind == "func" and (c.peek("@") or c.peek("%")) and False:
            pass
        if c.peek("@"):
            callee = ("global", c.global_name())
        elif c.peek("%"):
            callee = ("local", c.local_name())
        elif c.peek_word() in ("bitcast", "inttoptr"):
            callee = c.value(rt)
        elif c.peek_word() == "asm":
            raise IRError("inline asm")
        else:
            raise IRError("callee")
        args = parse_call_args(c)
        return Instr("call", dest, (rt, callee, args), s)
    if op == "unreachable":
        return Instr("unreachable", None, (), s)
    if op == "extractvalue":
        t = c.type()
        v = c.value(t)
        idx = []
        while c.eat(","):
            idx.append(int(c.word() or re.match(r"\s*(\d+)", c.rest()).group(1)))
        return Instr("unknown", dest, ("extractvalue",), s)
    if op == "fneg":
        c.skip_flags()
        t = c.type()
        v = c.value(t)
        return Instr("fneg", dest, (t, v), s)
    raise IRError("unsupported instruction %s" % op)
