"""C10 - character data crosses the language boundary by the documented rules (C side).

The helper functions exactly as Shroud emits them into a generated wrapper file (language c++ and
c) and the generated *_bufferify wrappers are compiled with clang -O0 to LLVM IR and executed
symbolically (engine llsym): lengths, every byte of source and destination buffers, NULL-ness of
the source and the library's reply are symbolic; buffers are exact-fit objects so any read or
write outside the given lengths is a bounds violation.  The assertion compares the final buffers
with a short reference model (DESIGN.md appendix A.1) for an arbitrary index.
"""
import json
import os
import re
import sys

import z3

sys.path.insert(0, os.path.dirname(os.path.dirname(os.path.abspath(__file__))))
from engines.shadowsym.core import Engine, Inconclusive, Unsupported  # noqa: E402
from engines.shadowsym import driver  # noqa: E402
from engines.llsym.exec import Executor, Ptr, NULL, MemViolation, PathAbort, conc, bv  # noqa: E402
from engines.llsym import models  # noqa: E402
from harness import ll_common as lc  # noqa: E402
from harness import c10_wrappers as cw  # noqa: E402
from lib import checklib  # noqa: E402

PID = "C10"
BLANK = z3.BitVecVal(32, 8)
BUILD_KEYS = {"c++": ("strs.yaml", "strs.hpp"), "c": ("cstrs.yaml", "cstrs.h")}


def I32(name):
    return z3.BitVec(name, 32)


def sx(v):
    return z3.SignExt(32, v)


class HelperHarness(object):
    """One emitted helper function, all argument values within the capacity bound."""

    def __init__(self, lang, helper, cap, twin=False):
        self.lang, self.helper, self.cap, self.twin = lang, helper, cap, twin

    # -------------------------------------------------------------- set-up
    def module_and_fn(self):
        b = lc.get_build(BUILD_KEYS[self.lang])
        for fname, m in b.modules.items():
            hits = [n for n, f in m.functions.items() if f.defined and re.search(r"(^|[^A-Za-z])%s([^A-Za-z]|$)" % self.helper, n)
                    and (self.helper + "Array") not in n.replace(self.helper, "", 0) or n == self.helper]
            hits = [n for n in m.functions if m.functions[n].defined and
                    (n == self.helper or re.match(r"^_ZL\d+%s[A-Z]" % self.helper, n) or n.endswith("_" + self.helper) or n == self.helper)]
            if hits:
                return b, m, hits[0]
        return b, None, None

    def run(self, e):
        b, m, fn = self.module_and_fn()
        if m is None:
            raise Unsupported("helper %s not present in the generated %s module" % (self.helper, self.lang))
        ex = Executor(e, m, cap=self.cap)
        self.ex = ex
        self.in_ = {}
        getattr(self, "setup_" + self.helper)(e, ex, fn)
        return ex

    # ShroudStrCopy(dest, ndest, src, nsrc)
    def setup_ShroudStrCopy(self, e, ex, fn):
        N = self.cap
        ndest, nsrc = I32("ndest"), I32("nsrc")
        e.assume(z3.And(ndest >= 0, ndest <= N, nsrc >= -1, nsrc <= N))
        dest = lc.sym_buffer(ex, "dest", sx(ndest))
        d0 = dest.arr
        srcnull = e.branch(z3.Bool("src_is_null"))
        if srcnull:
            src, sobj = NULL, None
        else:
            ssize = z3.BitVec("src_size", 64)
            e.assume(z3.And(z3.ULE(ssize, N + 1), z3.Implies(nsrc >= 0, ssize == sx(nsrc)), z3.Implies(nsrc < 0, z3.UGE(ssize, 1))))
            sobj = lc.sym_buffer(ex, "src", ssize)
            # documented precondition when nsrc < 0: src is NUL-terminated inside its object
            e.assume(z3.Implies(nsrc < 0, z3.Or([z3.And(z3.Select(sobj.arr, z3.BitVecVal(i, 64)) == 0, z3.ULT(z3.BitVecVal(i, 64), ssize))
                                                 for i in range(N + 1)])))
            src = Ptr(sobj, 0)
        self.in_ = dict(ndest=ndest, nsrc=nsrc, dest=dest, d0=d0, sobj=sobj, s0=sobj.arr if sobj else None, srcnull=srcnull)
        ex.call_function(fn, [Ptr(dest, 0), ndest, src, nsrc])

    def post_ShroudStrCopy(self, e, ex):
        s = self.in_
        i = z3.BitVec("idx", 64)
        ex.flush(s["dest"])
        if s["sobj"] is None:
            exp = BLANK
        else:
            # n = nsrc >= 0 ? nsrc : strlen(src)
            slen = first_nul(s["s0"], self.cap + 1)
            n = z3.If(s["nsrc"] >= 0, sx(s["nsrc"]), slen)
            exp = z3.If(z3.ULT(i, n), z3.Select(s["s0"], i), BLANK)
        bad = z3.And(z3.ULT(i, sx(s["ndest"])), z3.Select(s["dest"].arr, i) != exp)
        return [("dest[i] is not src[i] (i < min(n, ndest)) / blank (otherwise)", bad)]

    # ShroudStrBlankFill(dest, ndest)
    def setup_ShroudStrBlankFill(self, e, ex, fn):
        N = self.cap
        ndest = I32("ndest")
        e.assume(z3.And(ndest >= 0, ndest <= N))
        dest = lc.sym_buffer(ex, "dest", sx(ndest))
        d0 = dest.arr
        # documented precondition: the library left a NUL-terminated string inside the buffer
        e.assume(z3.Or([z3.And(z3.Select(d0, z3.BitVecVal(i, 64)) == 0, z3.BitVecVal(i, 64) < sx(ndest)) for i in range(N)]))
        self.in_ = dict(ndest=ndest, dest=dest, d0=d0)
        ex.call_function(fn, [Ptr(dest, 0), ndest])

    def post_ShroudStrBlankFill(self, e, ex):
        s = self.in_
        i = z3.BitVec("idx", 64)
        ex.flush(s["dest"])
        L = first_nul(s["d0"], self.cap + 1)
        exp = z3.If(z3.ULT(i, L), z3.Select(s["d0"], i), BLANK)
        bad = z3.And(z3.ULT(i, sx(s["ndest"])), z3.Select(s["dest"].arr, i) != exp)
        return [("dest[i] is not kept before the NUL / blank from the NUL on", bad)]

    # int ShroudLenTrim(src, nsrc)
    def setup_ShroudLenTrim(self, e, ex, fn):
        N = self.cap
        nsrc = I32("nsrc")
        e.assume(z3.And(nsrc >= 0, nsrc <= N))
        src = lc.sym_buffer(ex, "src", sx(nsrc))
        self.in_ = dict(nsrc=nsrc, src=src, s0=src.arr)
        self.in_["rv"] = ex.call_function(fn, [Ptr(src, 0), nsrc])

    def post_ShroudLenTrim(self, e, ex):
        s = self.in_
        rv = s["rv"]
        i = z3.BitVec("idx", 64)
        r64 = sx(rv)
        bad1 = z3.Or(rv < 0, rv > s["nsrc"])
        bad2 = z3.And(rv > 0, z3.Select(s["s0"], r64 - 1) == BLANK)
        bad3 = z3.And(z3.UGE(i, r64), z3.ULT(i, sx(s["nsrc"])), z3.Select(s["s0"], i) != BLANK)
        return [("result outside [0, nsrc]", bad1), ("character before the result is blank", bad2),
                ("a non-blank character lies at or after the result", bad3)]

    # char *ShroudStrAlloc(src, nsrc, ntrim)
    def setup_ShroudStrAlloc(self, e, ex, fn):
        N = self.cap
        nsrc, ntrim = I32("nsrc"), I32("ntrim")
        e.assume(z3.And(nsrc >= 0, nsrc <= N, ntrim >= -1, ntrim <= nsrc))
        src = lc.sym_buffer(ex, "src", sx(nsrc))
        self.in_ = dict(nsrc=nsrc, ntrim=ntrim, src=src, s0=src.arr)
        self.in_["rv"] = ex.call_function(fn, [Ptr(src, 0), nsrc, ntrim])

    def post_ShroudStrAlloc(self, e, ex):
        s = self.in_
        rv = s["rv"]
        out = []
        if not isinstance(rv, Ptr) or rv.obj is None or rv.obj.alloc != "malloc" or conc(rv.off) != 0:
            return [("result is not a fresh malloc'ed block", True)]
        ex.flush(rv.obj)
        i = z3.BitVec("idx", 64)
        t = z3.If(s["ntrim"] >= 0, sx(s["ntrim"]), lentrim_term(s["s0"], sx(s["nsrc"]), self.cap))
        out.append(("copy is not src[0:t] followed by NUL", z3.Or(z3.And(z3.ULT(i, t), z3.Select(rv.obj.arr, i) != z3.Select(s["s0"], i)),
                                                              z3.Select(rv.obj.arr, t) != 0)))
        out.append(("block is smaller than t+1", z3.ULT(bv(rv.obj.size), t + 1)))
        return out

    # char **ShroudStrArrayAlloc(src, nsrc, len)  then  ShroudStrArrayFree(rv, nsrc)
    def setup_ShroudStrArrayAlloc(self, e, ex, fn):
        N = self.cap
        nsrc = e.choose(z3_int_range(e, "nsrc_c", 0, 2))
        ln = I32("len")
        e.assume(z3.And(ln >= 0, ln <= N))
        src = lc.sym_buffer(ex, "src", sx(ln) * nsrc)
        self.in_ = dict(nsrc=nsrc, len=ln, src=src, s0=src.arr)
        rv = ex.call_function(fn, [Ptr(src, 0), z3.BitVecVal(nsrc, 32), ln])
        self.in_["rv"] = rv
        self.in_["elems"] = []
        if isinstance(rv, Ptr) and rv.obj is not None:
            for k in range(nsrc):
                self.in_["elems"].append(ex.load_ptr(Ptr(rv.obj, 8 * k)))
        # snapshot element contents before they are freed
        self.in_["snap"] = []
        for p in self.in_["elems"]:
            ex.flush(p.obj)
            self.in_["snap"].append((p.obj.arr, p.obj.size))
        b, m, free_fn = self.module_and_fn.__func__(HelperHarness(self.lang, "ShroudStrArrayFree", self.cap))
        if free_fn is None:
            raise Unsupported("ShroudStrArrayFree not present")
        ex.call_function(free_fn, [rv, z3.BitVecVal(nsrc, 32)])

    def post_ShroudStrArrayAlloc(self, e, ex):
        s = self.in_
        out = []
        i = z3.BitVec("idx", 64)
        L = sx(s["len"])
        for k, (arr, size) in enumerate(s["snap"]):
            base = L * k
            t = lentrim_term_at(s["s0"], base, L, self.cap)
            out.append(("string %d is not the trimmed element followed by NUL" % k,
                        z3.Or(z3.And(z3.ULT(i, t), z3.Select(arr, i) != z3.Select(s["s0"], base + i)), z3.Select(arr, t) != 0)))
        live = [o for o in ex.objects if o.kind == "heap" and o.alloc is not None and o.live]
        if live:
            out.append(("memory allocated by ShroudStrArrayAlloc is not released by ShroudStrArrayFree (%d blocks)" % len(live), True))
        return out

    # ---------------------------------------------------------------- judge
    def witness(self, m, what):
        s = self.in_
        w = {"kernel": "helper", "helper": self.helper, "lang": self.lang, "cap": self.cap, "what": what}
        for k in ("ndest", "nsrc", "ntrim", "len"):
            if k in s and not isinstance(s[k], int):
                w[k] = lc.mval(m, s[k], 32)
            elif k in s:
                w[k] = s[k]
        if "srcnull" in s:
            w["src_is_null"] = bool(s["srcnull"])
        if s.get("s0") is not None:
            w["src_bytes"] = lc.bytes_of(m, s["s0"], self.cap * 3 + 2)
        if s.get("sobj") is not None:
            w["src_size"] = lc.mval(m, bv(s["sobj"].size))
        if "d0" in s:
            w["dest_bytes"] = lc.bytes_of(m, s["d0"], self.cap + 2)
        return w

    def judge(self, e, kind, value):
        cls = "helper/%s/%s" % (self.lang, self.helper)
        if kind == "exc":
            if isinstance(value, MemViolation):
                w = self.witness(value.model or e.model(), "memory safety: %s" % value)
                return {"cls": cls, "violation": w, "vkey": "%s:%s" % (self.helper, value.kind)}
            w = self.witness(e.model(), "unexpected %s: %s" % (type(value).__name__, value))
            return {"cls": cls, "violation": w, "vkey": "%s:exc" % self.helper}
        ex = value
        checks = getattr(self, "post_" + self.helper)(e, ex)
        nq = 0
        for what, bad in checks:
            nq += 1
            if bad is True or (not isinstance(bad, bool) and e.check(bad) == "sat"):
                m = e.model() if bad is True else e.model(bad)
                return {"cls": cls, "violation": self.witness(m, what), "vkey": "%s:%s" % (self.helper, what[:40]),
                        "counters": {"assertions": nq}}
        if self.twin:
            return {"cls": cls, "violation": self.witness(e.model(), "reachability twin"), "vkey": "twin"}
        return {"cls": cls, "sample": self.witness(e.model(), None), "counters": {"assertions": nq}}


def z3_int_range(e, name, lo, hi):
    v = z3.Int(name)
    e.assume(z3.And(v >= lo, v <= hi))
    return v


def first_nul(arr, n):
    """index of the first NUL among the first n bytes of arr (BV64); n if none."""
    t = z3.BitVecVal(n, 64)
    for i in reversed(range(n)):
        t = z3.If(z3.Select(arr, z3.BitVecVal(i, 64)) == 0, z3.BitVecVal(i, 64), t)
    return t


def lentrim_term(arr, n, cap):
    return lentrim_term_at(arr, z3.BitVecVal(0, 64), n, cap)


def lentrim_term_at(arr, base, n, cap):
    """1 + index of the last non-blank among arr[base : base+n] (0 if none); n <= cap."""
    t = z3.BitVecVal(0, 64)
    for i in range(cap):
        I = z3.BitVecVal(i, 64)
        t = z3.If(z3.And(z3.ULT(I, n), z3.Select(arr, base + I) != BLANK), I + 1, t)
    return t


def make_helper(**kw):
    return HelperHarness(**kw)


HELPERS = ["ShroudStrCopy", "ShroudStrBlankFill", "ShroudLenTrim", "ShroudStrAlloc", "ShroudStrArrayAlloc"]


# ---------------------------------------------------------------------------- native replay of helper witnesses
def replay_helper(w):
    """Compile the emitted helper text with a driver built from the witness, run under ASan/UBSan and
    judge the printed buffers with a concrete restatement of the rule.  Returns verdict text or None."""
    b = lc.get_build(BUILD_KEYS[w["lang"]])
    wrap = [t for n, t in b.files.items() if n.startswith("wrap") and n.endswith((".c", ".cpp"))][0]
    needed = {"ShroudStrCopy": ["ShroudStrCopy"], "ShroudStrBlankFill": ["ShroudStrBlankFill"], "ShroudLenTrim": ["ShroudLenTrim"],
              "ShroudStrAlloc": ["ShroudLenTrim", "ShroudStrAlloc"],
              "ShroudStrArrayAlloc": ["ShroudLenTrim", "ShroudStrArrayAlloc", "ShroudStrArrayFree"]}[w["helper"]]
    srcs = []
    for h in needed:
        t = lc.helper_source(wrap, h)
        if t is None:
            return "helper %s is no longer emitted" % h
        srcs.append(t)
    cxx = w["lang"] == "c++"
    pre = ("#include <cstring>\n#include <cstdlib>\n#include <cstdio>\n#include <string>\n" if cxx else
           "#include <string.h>\n#include <stdlib.h>\n#include <stdio.h>\n")
    # exact-fit buffers; a zero-length buffer is the one-past-the-end pointer of a 1-byte block so that
    # AddressSanitizer sees any access to it
    pre += ("static char *xalloc(int n) { char *b = (char *) malloc(n > 0 ? n : 1); return n > 0 ? b : b + 1; }\n"
            "static void xfree(char *p, int n) { free(n > 0 ? p : p - 1); }\n")
    sb = w.get("src_bytes", [])
    db = w.get("dest_bytes", [])
    h = w["helper"]
    body = []
    if h == "ShroudStrCopy":
        nd, ns = w["ndest"], w["nsrc"]
        ssz = w.get("src_size", 0)
        body.append("char *dest = xalloc(%d);" % nd)
        body.append("unsigned char d0[] = %s; memcpy(dest, d0, %d);" % (lc.c_bytes(db[:max(nd, 1)]), nd))
        if w["src_is_null"]:
            body.append("char *src = NULL;")
        else:
            body.append("char *src = xalloc(%d); unsigned char s0[] = %s; memcpy(src, s0, %d);" % (ssz, lc.c_bytes(sb[:max(ssz, 1)]), ssz))
        body.append("ShroudStrCopy(dest, %d, src, %d);" % (nd, ns))
        body.append('for (int i = 0; i < %d; i++) printf("%%d ", (unsigned char)dest[i]); printf("\\n");' % nd)
        if w["src_is_null"]:
            exp = [32] * nd
        else:
            n = ns if ns >= 0 else (sb[:ssz].index(0) if 0 in sb[:ssz] else ssz)
            exp = [(sb[i] if i < n else 32) for i in range(nd)]
    elif h == "ShroudStrBlankFill":
        nd = w["ndest"]
        body.append("char *dest = xalloc(%d); unsigned char d0[] = %s; memcpy(dest, d0, %d);" % (nd, lc.c_bytes(db[:max(nd, 1)]), nd))
        body.append("ShroudStrBlankFill(dest, %d);" % nd)
        body.append('for (int i = 0; i < %d; i++) printf("%%d ", (unsigned char)dest[i]); printf("\\n");' % nd)
        L = db[:nd].index(0) if 0 in db[:nd] else nd
        exp = [(db[i] if i < L else 32) for i in range(nd)]
    elif h == "ShroudLenTrim":
        ns = w["nsrc"]
        body.append("char *src = xalloc(%d); unsigned char s0[] = %s; memcpy(src, s0, %d);" % (ns, lc.c_bytes(sb[:max(ns, 1)]), ns))
        body.append('printf("%%d \\n", ShroudLenTrim(src, %d));' % ns)
        r = 0
        for i in range(ns):
            if sb[i] != 32:
                r = i + 1
        exp = [r]
    elif h == "ShroudStrAlloc":
        ns, nt = w["nsrc"], w["ntrim"]
        body.append("char *src = xalloc(%d); unsigned char s0[] = %s; memcpy(src, s0, %d);" % (ns, lc.c_bytes(sb[:max(ns, 1)]), ns))
        body.append("char *rv = ShroudStrAlloc(src, %d, %d);" % (ns, nt))
        t = nt
        if nt < 0:
            t = 0
            for i in range(ns):
                if sb[i] != 32:
                    t = i + 1
        body.append('for (int i = 0; i <= %d; i++) printf("%%d ", (unsigned char)rv[i]); printf("\\n"); free(rv);' % t)
        exp = sb[:t] + [0]
    else:
        ns, ln = w["nsrc"], w["len"]
        tot = ns * ln
        body.append("char *src = xalloc(%d); unsigned char s0[] = %s; memcpy(src, s0, %d);" % (tot, lc.c_bytes(sb[:max(tot, 1)]), tot))
        body.append("char **rv = ShroudStrArrayAlloc(src, %d, %d);" % (ns, ln))
        exp = []
        for k in range(ns):
            el = sb[k * ln:(k + 1) * ln]
            t = 0
            for i in range(ln):
                if el[i] != 32:
                    t = i + 1
            body.append('for (int i = 0; i <= %d; i++) printf("%%d ", (unsigned char)rv[%d][i]);' % (t, k))
            exp += el[:t] + [0]
        body.append('printf("\\n"); ShroudStrArrayFree(rv, %d);' % ns)
    # the driver releases its own buffers so that LeakSanitizer reports only what the helper leaks
    joined = " ".join(body)
    for var, nexpr in (("src", None), ("dest", None)):
        mm = re.search(r"char \*%s = xalloc\((\d+)\)" % var, joined)
        if mm:
            body.append("xfree(%s, %s);" % (var, mm.group(1)))
    prog = pre + "\n".join(srcs) + "\nint main(void) {\n" + "\n".join(body) + "\nreturn 0; }\n"
    rc, out = lc.run_native({"t.cpp" if cxx else "t.c": prog}, cxx=cxx)
    if rc == -999:
        return None if False else "replay driver does not compile: " + out[-300:]
    if "AddressSanitizer" in out or "runtime error" in out or "LeakSanitizer" in out:
        kind = re.search(r"(AddressSanitizer: [\w-]+|LeakSanitizer: [\w ]+|runtime error: [^\n]+)", out)
        return "sanitizer: %s" % (kind.group(1) if kind else "report")
    line = out.strip().split("\n")[0] if out.strip() else ""
    try:
        got = [int(x) for x in line.split()]
    except ValueError:
        return "unexpected driver output %r" % out[:200]
    if got != exp:
        return "native run gives %r, the rule requires %r" % (got, exp)
    return None


def conversion_presence(lang):
    """A `char **` input argument reaches C as an array of blank-padded elements; the documented rule (every element
    trimmed and NUL-terminated) is carried out by the C wrapper's *_bufferify entry point with ShroudStrArrayAlloc.  The
    entry point and the helper must exist for every such argument of the library (read from the regenerated module)."""
    b = lc.get_build(BUILD_KEYS[lang])
    defined = set()
    for m in b.modules.values():
        defined |= set(n for n, f in m.functions.items() if f.defined)

    def walk(n):
        for f in getattr(n, "functions", []):
            if f._generated or not f.wrap.fortran:
                continue
            for a in f.ast.params:
                if a.typemap.name == "char" and a.is_indirect() == 2 and a.attrs.get("intent", "in") == "in":
                    clones = [g for g in n.functions if g._generated == "arg_to_buffer" and g.decl == f.decl]
                    if not clones or not any(g.fmtdict.C_name in defined for g in clones):
                        return "%s: the char ** input argument %r has no *_bufferify C entry point, so its elements are not trimmed and NUL-terminated" % (
                            f.decl, a.name)
                    if not any(re.search(r"ShroudStrArrayAlloc", n_) for n_ in defined):
                        return "%s: helper ShroudStrArrayAlloc is not emitted although %r is a char ** input argument" % (f.decl, a.name)
        for sub in list(getattr(n, "classes", [])) + list(getattr(n, "namespaces", [])):
            r = walk(sub)
            if r:
                return r
        return None
    return walk(b.library)


def confirm(w):
    if w.get("kernel") == "presence":
        return conversion_presence(w["lang"])
    if w.get("kernel") == "helper":
        return replay_helper(w)
    if tuple(w.get("build", ())) == cw.CFI_KEY:
        # the driver generator has no Fortran-2018 descriptors: witnesses of the F_CFI library are confirmed by
        # re-executing the compiled wrapper symbolically
        a = driver.explore(("harness.wrapsym", "make", dict(build_key=list(cw.CFI_KEY), cname=w["function"], cap=w.get("cap", 4))), nworkers=1)
        for v in a.violations:
            if v["what"] == w["what"]:
                return "re-execution of the compiled wrapper (no native driver for C descriptors): " + v["what"]
        return ("re-execution of the compiled wrapper (no native driver for C descriptors): " + a.violations[0]["what"]) if a.violations else None
    return cw.replay_wrapper(w)


def main():
    tier, seed, rp = checklib.tier_and_seed()
    if rp:
        with open(rp) as f:
            w = json.load(f)
        v = confirm(w)
        print("case:", json.dumps({k: w[k] for k in w if k != "what"})[:800])
        print("verdict:", v or "property holds on this input (native run)")
        if v:
            print("VIOLATION property=%s replay=%s" % (PID, rp))
        return 1 if v else 0
    rep = checklib.Report(PID)
    cap = 4 if tier == "quick" else 8
    langs = ["c++", "c"]
    try:
        for lang in langs:
            lc.get_build(BUILD_KEYS[lang])
    except Exception as ex:
        rep.inconc("cannot build the generated code: %s" % ex)
        checklib.write_evidence(PID, tier, seed, "translation_validation",
                                {"programs": 0, "disagreements_checked": 0, "samples": [], "evaluations": 1, "distinct_nontrivial": 0},
                                [], rep.wall(), 0)
        return rep.finish()
    for lang in langs:
        pres = conversion_presence(lang)
        if pres:
            path = checklib.write_replay(PID, "presence-" + lang.replace("+", "x"), {"kernel": "presence", "lang": lang, "what": pres})
            rep.violation(path, pres)
    specs, labels = [], []
    for lang in langs:
        for h in HELPERS:
            specs.append(("harness.C10", "make_helper", dict(lang=lang, helper=h, cap=cap)))
            labels.append("helper %s (%s)" % (h, lang))
    wspecs, wlabels = cw.specs(cap, langs + ["cfi"])
    specs += wspecs
    labels += wlabels
    accs = driver.explore_many(specs, split_depth=4, time_budget_s=900 if tier == "quick" else 5000, max_decisions=50000)
    total = driver.Acc()
    runs = []
    for lab, a in zip(labels, accs):
        total.merge(a)
        runs.append({"function": lab, "paths": a.stats.paths, "queries": a.stats.queries, "solver_s": round(a.stats.solver_s, 2),
                     "violations": a.nviol})
        for msg in a.inconclusive:
            rep.inconc("%s: %s" % (lab, msg))
    tw = driver.explore(("harness.C10", "make_helper", dict(lang="c++", helper="ShroudStrCopy", cap=2, twin=True)), nworkers=1)
    twin_ok = tw.stats.paths > 0 and tw.nviol == tw.stats.paths and not tw.inconclusive
    if not twin_ok:
        rep.inconc("reachability twin failed: %r" % (tw.inconclusive[:1],))
    known = [k for k in checklib.load_known(PID) if k.get("status") == "known"]
    seen, confirmed, printed = set(), 0, set()
    for i, v in enumerate(total.violations):
        key = v.get("_vkey")
        if key in seen:
            continue
        verdict = confirm(v)
        if verdict is None:
            rep.inconc("counterexample did not reproduce natively: %s" % json.dumps(v)[:400])
            continue
        confirmed += 1
        seen.add(key)
        kf = [k for k in known if k["key"] == key]
        if kf:
            rep.known_finding("%s (%s)" % (kf[0]["what_fails"], verdict[:120]))
            continue
        path = checklib.write_replay(PID, "cex%03d" % i, v)
        rep.violation(path, "%s | native: %s | case=%s [%d paths]" % (v["what"], verdict, json.dumps({k: v[k] for k in v if k in (
            "helper", "function", "lang", "ndest", "nsrc", "ntrim", "len", "src_is_null")}), total.vcount.get(key, 1)))
    # engine validation: non-violating sample paths replayed natively (helpers against the rule, wrappers
    # against the symbolic run's own observables)
    from concurrent.futures import ThreadPoolExecutor
    todo = []
    for cls, lst in sorted(total.samples.items()):
        todo.append(lst[0])
    if tier == "quick":
        todo = todo[(seed % 3)::3]

    def val(s0):
        try:
            if s0.get("kernel") == "helper":
                return s0, replay_helper(s0)
            return s0, cw.validate_sample(s0)
        except Exception as ex:
            return s0, "validation error %s: %s" % (type(ex).__name__, ex)
    validated = 0
    with ThreadPoolExecutor(max_workers=12) as tp:
        for s0, verdict in tp.map(val, todo):
            if verdict is None:
                validated += 1
            elif verdict == "SKIP":
                pass
            else:
                rep.inconc("engine validation failed for %s: %s" % (s0.get("helper") or s0.get("function"), verdict[:300]))
    samples = []
    for cls, lst in sorted(total.samples.items()):
        s0 = dict(lst[0])
        for k in ("src_bytes", "dest_bytes"):
            if k in s0:
                s0[k] = s0[k][:cap + 1]
        samples.append(s0)
    cov = {
        "programs": len(specs),
        "disagreements_checked": confirmed,
        "samples": samples[:10],
        "functions_encoded": labels,
        "bounds": {"capacity(lengths <=)": cap, "bytes": "every byte value, every length 0..cap (and nsrc=-1), NULL and non-NULL source",
                   "char**": "<= 2 strings", "languages": langs},
        "solver": {"name": "z3 " + z3.get_version_string(), "queries": total.stats.queries, "solver_s": round(total.stats.solver_s, 2)},
        "paths": total.stats.paths,
        "assertions_discharged": total.counters.get("assertions", 0),
        "sample_paths_validated_natively": validated,
        "reachability_twin_ok": twin_ok,
        "outcome_classes": dict(total.counts),
        "runs": runs,
    }
    assumptions = [
        "clang 14 -O0 IR of the generated file is the code under test; llsym's instruction semantics and its models of memcpy/memset/strlen/strcpy/strncpy/malloc/free and std::string are trusted",
        "allocation never fails; buffers are exact-fit objects",
        "ShroudStrBlankFill / strlen preconditions: a NUL lies inside the buffer the library was given",
        "the Fortran side of the same rules (trim(arg)//C_NULL_CHAR, allocation of character(:) results) and F_CFI descriptors are outside",
    ] + cw.ASSUMPTIONS
    checklib.write_evidence(PID, tier, seed, "translation_validation", cov, assumptions, rep.wall(), len(rep.violations))
    return rep.finish()


if __name__ == "__main__":
    sys.exit(main())
