"""C06 - wrapped objects and returned memory are released exactly once, never early (C/C++ side).

1. Every generated wrapper of four libraries runs under llsym (harness/wrapsym.py): all accesses are
   bounds- and liveness-checked against exact-fit buffers, every temporary the wrapper allocates must
   be dead when it returns (released once, by the matching deallocator), caller-owned results carry a
   non-zero destructor index and library-owned results carry 0.
2. The hand-off table idtor -> (type, allocator family) is collected from those runs; one index must
   always stand for one way of releasing.
3. One inductive step of the generated <PREFIX>_SHROUD_memory_destructor from every pre-state
   {idtor in [-1, max+2], addr NULL or a live object of the family the table names}: exactly one release
   of addr by the matching deallocator (after the class's destructor when it has one) for table indices,
   none otherwise; afterwards addr = NULL and idtor = 0; a second call releases nothing.
4. The copy-then-release helpers (ShroudCopyArray, ShroudCopyStringAndFree) from every pre-state within the
   bounds: the memory destructor runs exactly once on the context's capsule and the copy stays in bounds.
"""
import json
import os
import re
import sys

import z3

sys.path.insert(0, os.path.dirname(os.path.dirname(os.path.abspath(__file__))))
from engines.shadowsym.core import Engine, Unsupported, Inconclusive  # noqa: E402
from engines.shadowsym import driver  # noqa: E402
from engines.llsym import ir, models  # noqa: E402
from engines.llsym.exec import Executor, Ptr, NULL, MemViolation, PathAbort, conc, bv  # noqa: E402
from harness import ll_common as lc  # noqa: E402
from harness import wrapsym  # noqa: E402
from harness import c10_wrappers as cw  # noqa: E402
from lib import checklib  # noqa: E402

PID = "C06"
BUILDS = [("own.yaml", "own.hpp"), ("own2.yaml", "own2.hpp"), ("cls.yaml", "cls.hpp"), ("strs.yaml", "strs.hpp"), ("cstrs.yaml", "cstrs.h")]


def classes_with_dtor(build):
    out = set()

    def walk(n):
        for c in getattr(n, "classes", []):
            if any(f.ast.is_dtor() for f in c.functions):
                out.add(c.typemap.name)
            walk(c)
        for s in getattr(n, "namespaces", []):
            walk(s)
    walk(build.library)
    return out


class DtorHarness(object):
    """<PREFIX>_SHROUD_memory_destructor(cap) from one pre-state, then a second call on the post-state."""

    def __init__(self, build_key, idtor, addr_null, expect, twin=False):
        self.build_key, self.idtor, self.addr_null, self.expect, self.twin = tuple(build_key), idtor, addr_null, expect, twin
        # expect: None (nothing may be released) or dict(type=, family=)

    def run(self, e):
        b = lc.get_build(self.build_key)
        m, fn = None, None
        for fname, mod in b.modules.items():
            hits = [n for n, f in mod.functions.items() if f.defined and n.endswith("_SHROUD_memory_destructor")]
            if hits:
                m, fn = mod, hits[0]
        if m is None:
            raise Unsupported("no memory destructor in %s" % (self.build_key,))
        ex = Executor(e, m, cap=4)
        self.ex = ex
        self.dtor_calls = []
        h = self

        def ext(ex_, name, argv, argt, rt):
            dem = wrapsym.demangle(name)
            if "::~" in dem:
                h.dtor_calls.append((dem, argv[0]))
                ex_.events.append(("dtor", dem, argv[0]))
                return None
            base = dem.split("(")[0]
            # a free_pattern function of the library: releases what it is given
            models.release(ex_, argv[0], "pattern:" + base, base)
            return None
        ex.stubs["*"] = ext
        fnobj = m.functions[fn]
        capt = ir.resolve(fnobj.params[0][0]).to
        cap = ex.new_obj("capsule", ir.size_of(capt), "heap")
        self.cap = cap
        self.obj = None
        if self.addr_null:
            cap.cells[0] = (8, NULL)
        else:
            fam = self.expect["family"] if self.expect else "new"
            o = ex.new_obj("held_object", 64, "heap", fam)
            o.tag["class"] = self.expect["type"] if self.expect else "?"
            if self.expect and self.expect["type"] == "std::string":
                ex.strings[(o.id, 0)] = models.new_sstr(ex, z3.BitVecVal(0, 64), lambda i: z3.BitVecVal(0, 8))
            self.storage = None
            if self.expect and self.expect["type"].startswith("std::vector<"):
                # libstdc++ layout {begin, end, end_of_storage}: empty, or two elements in allocator storage
                if e.branch(z3.Bool("held_vector_is_empty")):
                    for off in (0, 8, 16):
                        ex.store_ptr(Ptr(o, off), NULL)
                else:
                    st = ex.new_obj("vector_storage", 16, "heap", "new")
                    ex.store_ptr(Ptr(o, 0), Ptr(st, 0))
                    ex.store_ptr(Ptr(o, 8), Ptr(st, 16))
                    ex.store_ptr(Ptr(o, 16), Ptr(st, 16))
                    self.storage = st
            cap.cells[0] = (8, Ptr(o, 0))
            self.obj = o
        cap.cells[8] = (4, z3.BitVecVal(self.idtor, 32))
        ex.call_function(fn, [Ptr(cap, 0)])
        self.events1 = list(ex.events)
        self.post1 = (cap.cells.get(0, (0, None))[1], cap.cells.get(8, (0, None))[1])
        ex.call_function(fn, [Ptr(cap, 0)])
        self.events2 = ex.events[len(self.events1):]
        return ex

    def witness(self, what):
        return {"kernel": "destructor", "build": list(self.build_key), "idtor": self.idtor, "addr_null": self.addr_null,
                "expect": self.expect, "what": what}

    def judge(self, e, kind, value):
        cls = "destructor/%s" % self.build_key[0]
        if kind == "exc":
            if isinstance(value, MemViolation):
                return {"cls": cls, "violation": self.witness("memory safety: %s" % value), "vkey": "dtor:%s" % value.kind}
            return {"cls": cls, "violation": self.witness("unexpected %s: %s" % (type(value).__name__, str(value)[:160])), "vkey": "dtor:exc"}
        fail = None
        rel1 = [ev for ev in self.events1 if ev[0] == "release"]
        rel2 = [ev for ev in self.events2 if ev[0] == "release"]
        if self.expect is None or self.addr_null:
            if rel1:
                fail = "idtor %d%s: the release function frees memory although nothing is owned" % (self.idtor, " with a NULL address" if self.addr_null else "")
        else:
            st = getattr(self, "storage", None)
            if st is not None:
                rs = [ev for ev in rel1 if ev[2] is st]
                rel1 = [ev for ev in rel1 if ev[2] is not st]
                if len(rs) != 1:
                    fail = "idtor %d: the element storage of the owned %s is released %d times, expected exactly once" % (
                        self.idtor, self.expect["type"], len(rs))
            if fail:
                pass
            elif len(rel1) != 1 or rel1[0][2] is not self.obj:
                fail = "idtor %d: the owned %s is released %d times, expected exactly once" % (self.idtor, self.expect["type"], len(rel1))
            elif rel1[0][1] != self.expect["family"]:
                fail = "idtor %d: %s allocated with %s is released with %s" % (self.idtor, self.expect["type"], self.expect["family"], rel1[0][1])
            elif self.expect.get("has_dtor"):
                d = [c for c in self.dtor_calls if isinstance(c[1], Ptr) and c[1].obj is self.obj]
                if len(d) != 1 or self.expect["type"].split("::")[-1] not in d[0][0]:
                    fail = "idtor %d: the destructor of %s is not run exactly once on the object before it is freed (%r)" % (
                        self.idtor, self.expect["type"], [c[0] for c in self.dtor_calls])
            elif self.expect["type"] == "std::string":
                sd = [ev for ev in self.events1 if ev[0] == "string_dtor" and ev[1] is self.obj]
                if len(sd) != 1:
                    fail = "idtor %d: the std::string is not destroyed exactly once before its storage is freed" % self.idtor
        if not fail and rel2:
            fail = "idtor %d: releasing the same handle a second time frees memory again" % self.idtor
        if not fail:
            a, k = self.post1
            if not (isinstance(a, Ptr) and a.obj is None) or conc(k) != 0:
                fail = "idtor %d: after release the capsule is not {addr = NULL, idtor = 0}" % self.idtor
        if self.twin and not fail:
            fail = "reachability twin"
        if fail:
            return {"cls": cls, "violation": self.witness(fail), "vkey": "dtor:" + re.sub(r"\d+", "N", fail)[:60]}
        return {"cls": cls, "sample": self.witness(None)}


def make_dtor(**kw):
    return DtorHarness(**kw)


class CopyReleaseHarness(object):
    """<PREFIX>ShroudCopyArray / <PREFIX>ShroudCopyStringAndFree: the copy-then-release step the Fortran
    wrapper calls exactly once for a std::vector / allocatable string held in a context.  From every
    pre-state {element length, element count / string length, destination size}: the memory destructor
    runs exactly once on the context's capsule, on every path, and the copy stays inside both buffers."""

    def __init__(self, build_key, helper, twin=False):
        self.build_key, self.helper, self.twin = tuple(build_key), helper, twin

    def run(self, e):
        b = lc.get_build(self.build_key)
        m, fn = None, None
        for fname, mod in b.modules.items():
            hits = [n for n, f in mod.functions.items() if f.defined and n.endswith(self.helper)]
            if hits:
                m, fn = mod, hits[0]
        if m is None:
            raise Unsupported("no %s in %s" % (self.helper, self.build_key))
        ex = Executor(e, m, cap=24 if self.helper.endswith("CopyArray") else 4)
        self.ex = ex
        self.released = []
        self.owned = []
        h = self

        def ext(ex_, name, argv, argt, rt):
            if name.endswith("_SHROUD_memory_destructor"):
                h.released.append(argv[0])
                # the destructor deletes the C++ object and with it the storage the context points into:
                # anything read from it afterwards is a use after release
                for o_ in h.owned:
                    o_.live = False
                return None
            raise Unsupported("%s calls %s" % (fn, name))
        ex.stubs["*"] = ext
        for name, f in m.functions.items():
            if name.endswith("_SHROUD_memory_destructor"):
                ex.stubs[name] = ext
        fnobj = m.functions[fn]
        rs = ir.resolve(ir.resolve(fnobj.params[0][0]).to)
        data = ex.new_obj("context", ir.size_of(rs), "heap")
        self.data = data
        held = ex.new_obj("held_cxx_object", 24, "heap", "new")
        ex.store_ptr(Ptr(data, ir.field_offset(rs, 0)), Ptr(held, 0))
        ex.store_int(Ptr(data, ir.field_offset(rs, 0) + 8), z3.BitVecVal(1, 32), 32)
        self.v = {}
        if self.helper.endswith("CopyArray"):
            el = z3.BitVec("elem_len", 64)
            n = z3.BitVec("size", 64)
            dn = z3.BitVec("c_var_size", 64)
            e.assume(z3.Or([el == k for k in (1, 2, 4, 8)]))
            for k in (1, 2, 4):          # the element length is a compile-time constant of the wrapper: one path each
                if e.branch(el == k):
                    break
            e.assume(z3.And(z3.ULE(n, 3), z3.ULE(dn, 3)))
            self.v = {"elem_len": el, "size": n, "c_var_size": dn}
            if e.branch(n == 0) and e.branch(z3.Bool("empty_vector_data_is_null")):
                src = NULL
            else:
                so = lc.sym_buffer(ex, "vector_storage", z3.simplify(el * n), "heap", "new")
                src = Ptr(so, 0)
            dst = lc.sym_buffer(ex, "fortran_array", z3.simplify(el * dn))
            ex.store_int(Ptr(data, ir.field_offset(rs, 3)), el, 64)
            ex.store_int(Ptr(data, ir.field_offset(rs, 4)), n, 64)
            third = dn
        else:
            L = z3.BitVec("string_length", 64)
            dn = z3.BitVec("c_var_len", 64)
            e.assume(z3.And(z3.ULE(L, 4), z3.ULE(dn, 5)))
            self.v = {"string_length": L, "c_var_len": dn}
            so = lc.sym_buffer(ex, "string_storage", z3.simplify(L + 1), "heap", "new")
            for i in range(5):
                I = z3.BitVecVal(i, 64)
                e.assume(z3.Implies(z3.ULT(I, L), z3.Select(so.arr, I) != 0))
            so.arr = z3.Store(so.arr, L, z3.BitVecVal(0, 8))
            src = Ptr(so, 0)
            dst = lc.sym_buffer(ex, "fortran_character", dn)
            ex.store_int(Ptr(data, ir.field_offset(rs, 3)), L, 64)
            ex.store_int(Ptr(data, ir.field_offset(rs, 4)), z3.BitVecVal(1, 64), 64)
            third = dn
        ex.store_ptr(Ptr(data, ir.field_offset(rs, 1)), src)
        self.owned = [held] + ([src.obj] if isinstance(src, Ptr) and src.obj is not None else [])
        ex.call_function(fn, [Ptr(data, 0), Ptr(dst, 0), third])
        return ex

    def witness(self, m, what):
        return {"kernel": "copy-release", "build": list(self.build_key), "helper": self.helper,
                "inputs": {k: lc.mval(m, v) for k, v in self.v.items()}, "what": what}

    def judge(self, e, kind, value):
        cls = "copy-release/%s" % self.helper
        m = e.model()
        if kind == "exc":
            if isinstance(value, MemViolation):
                return {"cls": cls, "violation": self.witness(value.model or m, "memory safety: %s" % value), "vkey": "cr:%s:%s" % (self.helper, value.kind)}
            return {"cls": cls, "violation": self.witness(m, "unexpected %s: %s" % (type(value).__name__, str(value)[:160])), "vkey": "cr:exc"}
        fail = None
        ok = [p for p in self.released if isinstance(p, Ptr) and p.obj is self.data and conc(p.off) == 0]
        if len(self.released) != 1 or len(ok) != 1:
            fail = "%s releases the C++ object held by the context %d times, expected exactly once" % (self.helper, len(ok))
        if self.twin and not fail:
            fail = "reachability twin"
        if fail:
            return {"cls": cls, "violation": self.witness(m, fail), "vkey": "cr:%s:%s" % (self.helper, fail[-40:])}
        return {"cls": cls, "sample": self.witness(m, None)}


def make_copyrel(**kw):
    return CopyReleaseHarness(**kw)


def main():
    tier, seed, rp = checklib.tier_and_seed()
    if rp:
        with open(rp) as f:
            w = json.load(f)
        if w.get("kernel") == "wrapper" and tuple(w.get("build", ())) in (("strs.yaml", "strs.hpp"), ("cstrs.yaml", "cstrs.h")):
            v = cw.replay_wrapper(w)
        else:
            v = resolve_symbolic(w)
        print("case:", json.dumps({k: w[k] for k in w if k not in ("what",)})[:900])
        print("verdict:", v or "property holds on this input")
        if v:
            print("VIOLATION property=%s replay=%s" % (PID, rp))
        return 1 if v else 0
    rep = checklib.Report(PID)
    cap = 3 if tier == "quick" else 6
    specs, labels, skipped = [], [], []
    for key in BUILDS:
        try:
            b = lc.get_build(key)
        except Exception as ex:
            rep.inconc("cannot build %s: %s" % (key[0], str(ex)[:300]))
            continue
        infos = wrapsym.collect(b)
        for cname in sorted(infos):
            h = wrapsym.WrapperHarness(key, cname, cap)
            h.build, h.infos, h.info = b, infos, infos[cname]
            why = h.unsupported_reason()
            if why or wrapsym.module_of(b, cname) is None:
                skipped.append((cname, why or "no IR"))
                continue
            specs.append(("harness.wrapsym", "make", dict(build_key=list(key), cname=cname, cap=cap)))
            labels.append("%s (%s)" % (cname, key[0]))
    accs = driver.explore_many(specs, split_depth=4, time_budget_s=900 if tier == "quick" else 5000, max_decisions=50000)
    total = driver.Acc()
    runs = []
    table = {}
    for lab, a, spec in zip(labels, accs, specs):
        total.merge(a)
        runs.append({"function": lab, "paths": a.stats.paths, "violations": a.nviol})
        for msg in a.inconclusive:
            rep.inconc("%s: %s" % (lab, msg))
        bk = tuple(spec[2]["build_key"])
        for hs in a.extras:
            for h in hs:
                if h["idtor"]:
                    table.setdefault(bk, {}).setdefault(h["idtor"], set()).add((h["type"], h["family"], h["function"]))
    viol = list(total.violations)
    # 2. one index, one way of releasing
    dspecs, dlabels = [], []
    for bk in BUILDS:
        b = lc.get_build(bk)
        withd = classes_with_dtor(b)
        t = table.get(bk, {})
        for k, uses in sorted(t.items()):
            ways = {(ty, fam) for (ty, fam, fn) in uses}
            if len(ways) > 1:
                viol.append({"kernel": "table", "build": list(bk), "idtor": k, "uses": sorted(map(list, uses)),
                             "what": "destructor index %d is handed out for objects that need different release code: %r" % (k, sorted(ways)),
                             "_vkey": "table:%s:%d" % (bk[0], k)})
        kmax = max(list(t) + [0])
        for k in range(-1, kmax + 3):
            exp = None
            if k in t:
                ty, fam, fn = sorted(t[k])[0]
                exp = {"type": ty, "family": fam, "has_dtor": ty in withd and fam == "new"}
            for null in (False, True):
                dspecs.append(("harness.C06", "make_dtor", dict(build_key=list(bk), idtor=k, addr_null=null, expect=exp)))
                dlabels.append("%s destructor idtor=%d%s" % (bk[0], k, " (NULL)" if null else ""))
    ndtor = len(dspecs)
    for bk in BUILDS:
        b = lc.get_build(bk)
        for helper in ("ShroudCopyArray", "ShroudCopyStringAndFree"):
            if any(n.endswith(helper) and f.defined for mod in b.modules.values() for n, f in mod.functions.items()):
                dspecs.append(("harness.C06", "make_copyrel", dict(build_key=list(bk), helper=helper)))
                dlabels.append("%s %s" % (bk[0], helper))
    daccs = driver.explore_many(dspecs, split_depth=4, time_budget_s=600, max_decisions=50000)
    dtotal = driver.Acc()
    for lab, a in zip(dlabels, daccs):
        dtotal.merge(a)
        for msg in a.inconclusive:
            rep.inconc("%s: %s" % (lab, msg))
    viol += dtotal.violations
    tw = driver.explore(("harness.C06", "make_dtor", dict(build_key=list(BUILDS[0]), idtor=0, addr_null=True, expect=None, twin=True)), nworkers=1)
    twin_ok = tw.stats.paths > 0 and tw.nviol == tw.stats.paths and not tw.inconclusive
    if not twin_ok:
        rep.inconc("reachability twin failed: %r" % (tw.inconclusive[:1],))
    known = [k for k in checklib.load_known(PID) if k.get("status") == "known"]
    seen, confirmed = set(), 0
    for i, v in enumerate(viol):
        key = v.get("_vkey")
        if key in seen:
            continue
        seen.add(key)
        if v.get("kernel") == "wrapper" and tuple(v.get("build", ())) in (("strs.yaml", "strs.hpp"), ("cstrs.yaml", "cstrs.h")):
            native = cw.replay_wrapper(v)
            if native is None:
                rep.inconc("counterexample did not reproduce natively: %s" % json.dumps(v)[:300])
                continue
        else:
            native = resolve_symbolic(v)
            if native is None:
                rep.inconc("counterexample did not reproduce on re-execution: %s" % json.dumps(v)[:300])
                continue
        confirmed += 1
        kf = [k for k in known if k["key"] in v["what"]]
        if kf:
            rep.known_finding("%s (%s)" % (kf[0]["what_fails"], v.get("function", v.get("idtor"))))
            continue
        path = checklib.write_replay(PID, "cex%03d" % i, v)
        rep.violation(path, "%s | %s | %s" % (v["what"], str(native)[:140], json.dumps({k: v[k] for k in v if k in ("function", "idtor", "build", "addr_null")})))
    samples = []
    for cls, lst in sorted(dtotal.samples.items()):
        samples.append(lst[0])
    for cls, lst in sorted(total.samples.items())[:6]:
        samples.append({"function": lst[0]["function"]})
    cov = {
        "programs": len(specs) + len(dspecs),
        "disagreements_checked": confirmed,
        "samples": samples[:10],
        "functions_encoded": labels + sorted(set(l.split(" idtor")[0] for l in dlabels)),
        "outside_the_harness": [{"function": c, "reason": r} for c, r in skipped],
        "handoff_table": {"%s" % bk[0]: {str(k): sorted(map(list, v)) for k, v in t.items()} for bk, t in table.items()},
        "destructor_prestates": ndtor,
        "copy_release_helpers": dlabels[ndtor:],
        "bounds": {"string_capacity": cap, "idtor_range": "[-1, max index + 2] x {NULL, live object}",
                   "copy_release": "elem_len in {1,2,4,8}, element counts 0..3 on both sides, empty vector with NULL or non-NULL data; strings 0..4 chars into 0..5 bytes", "libraries": [k[0] for k in BUILDS]},
        "solver": {"name": "z3 " + z3.get_version_string(), "queries": total.stats.queries + dtotal.stats.queries,
                   "solver_s": round(total.stats.solver_s + dtotal.stats.solver_s, 2)},
        "paths": total.stats.paths + dtotal.stats.paths,
        "reachability_twin_ok": twin_ok,
        "runs": runs[:80],
    }
    assumptions = cw.ASSUMPTIONS + [
        "representation invariant for the inductive step: a capsule whose idtor is a table index holds NULL or a live object of the type/allocator that index is handed out for (established by part 1/2 for every wrapper that fills a capsule)",
        "caller-owned class / std::string results are allocated with operator new, caller-owned native arrays with malloc, +free_pattern results with the pattern's own allocator",
        "the Fortran finaliser and assignment semantics, Python capsule destructors / reference counts, std::vector copies are outside",
        "violations in the class/ownership libraries are confirmed by re-executing the harness (symbolic result); the string libraries are replayed natively under ASan",
    ]
    checklib.write_evidence(PID, tier, seed, "translation_validation", cov, assumptions, rep.wall(), len(rep.violations))
    return rep.finish()


def resolve_symbolic(w):
    """Re-execute the harness case recorded in a witness; returns the violation text if it shows again."""
    if w.get("kernel") == "destructor":
        a = driver.explore(("harness.C06", "make_dtor", dict(build_key=w["build"], idtor=w["idtor"], addr_null=w["addr_null"], expect=w["expect"])), nworkers=1)
    elif w.get("kernel") == "wrapper":
        a = driver.explore(("harness.wrapsym", "make", dict(build_key=w["build"], cname=w["function"], cap=w.get("cap", 3))), nworkers=1)
    elif w.get("kernel") == "copy-release":
        a = driver.explore(("harness.C06", "make_copyrel", dict(build_key=w["build"], helper=w["helper"])), nworkers=1)
    elif w.get("kernel") == "table":
        return w["what"]
    else:
        return None
    for v in a.violations:
        return v["what"]
    return None


if __name__ == "__main__":
    sys.exit(main())
