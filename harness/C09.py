"""C09 - declarations are understood exactly as a C++ compiler understands them (bounded)."""
import json
import sys
import os

sys.path.insert(0, os.path.dirname(os.path.dirname(os.path.abspath(__file__))))
from lib import checklib  # noqa: E402
from harness import parse_explore as pe  # noqa: E402

PID = "C09"

ASSUMPTIONS = [
    "token values come from a finite alphabet (listed in coverage.bounds); identifiers resolve to: unknown name, typedef, namespace, class, std::string, std::vector, template parameter",
    "the reference reading (gen/refdecl.py) is the C++ meaning for the documented subset; accepted inputs the reference cannot give a meaning to (semantic:*) are counted, not judged",
    "agreement with a real compiler's std::is_same is outside the technique",
    "SymKind.__format__ renders token kinds as '<KIND>' inside diagnostics (kind names contain no format metacharacters)",
    "default values: renderings with '=init' are only required to denote the same type; round trip is required for declarations without default values",
]


INST_TYPES = ["int", "double", "long long", "unsigned int", "size_t", "int32_t", "uint64_t", "std::string", "TypeID", "Class1"]
INST_PARAMS = ["T a", "const T *p", "T &r", "const T &r", "T **pp", "T * const q"]


def instantiation_verdict(only=None):
    """Renderings of instantiated declarations: a template parameter replaced through Declaration.instantiate (what
    generate.template_function does for every `cxx_template` entry) must render as the declaration with the type written in
    place of T - read by the reference reader from both texts.  Enumerated (types x parameter shapes), no symbolic input."""
    from shroud import ast, declast, typemap
    from gen import refdecl
    saved = getattr(declast, "global_namespace", None)
    typemap.initialize()
    lib = ast.LibraryNode()
    lib.add_declaration("typedef int TypeID")
    lib.add_declaration("class Class1")
    n = 0
    try:
        for ty in INST_TYPES:
            for par in INST_PARAMS:
                if only and only != [ty, par]:
                    continue
                n += 1
                node = lib.add_declaration("template<typename T> void fq%d(%s)" % (n, par), cxx_template=[ast.TemplateArgument("<%s>" % ty)])
                new = node.ast.params[0].instantiate(node.template_arguments[0].asts[0])
                text = new.gen_decl()
                want = par.replace("T", ty, 1)
                try:
                    a = pe.ref_summary(refdecl.read(pe.real_tokens("void g(%s)" % text)))
                except Exception as ex:
                    return {"kernel": "instantiation", "type": ty, "param": par, "rendering": text,
                            "what": "the rendering %r of parameter %r instantiated for %s cannot be read as a declaration (%s)" % (text, par, ty, str(ex)[:80])}, n
                b = pe.ref_summary(refdecl.read(pe.real_tokens("void g(%s)" % want)))
                if a != b:
                    return {"kernel": "instantiation", "type": ty, "param": par, "rendering": text,
                            "what": "the rendering %r of parameter %r instantiated for %s does not denote %r" % (text, par, ty, want)}, n
    finally:
        declast.global_namespace = saved
    return None, n


def main():
    tier, seed, rp = checklib.tier_and_seed()
    if rp:
        with open(rp) as f:
            w = json.load(f)
        if w.get("kernel") == "instantiation":
            v, _ = instantiation_verdict(only=[w["type"], w["param"]])
            print("verdict:", v["what"] if v else "property holds on this input")
            if v:
                print("VIOLATION property=%s replay=%s" % (PID, rp))
            return 1 if v else 0
        ok, detail = pe.confirm(PID, w)
        print(json.dumps(detail, indent=1, default=str))
        if ok:
            print("VIOLATION property=%s replay=%s" % (PID, rp))
            return 1
        print("property holds on this input")
        return 0
    rep = checklib.Report(PID)
    cov = pe.run_check(PID, tier, seed, rep)
    try:
        iv, ninst = instantiation_verdict()
    except Exception as ex:
        iv, ninst = None, 0
        rep.inconc("instantiation kernel failed: %s: %s" % (type(ex).__name__, str(ex)[:200]))
    if iv:
        rep.violation(checklib.write_replay(PID, "instantiation", iv), iv["what"])
    cov["instantiation_renderings_checked"] = ninst
    checklib.write_evidence(PID, tier, seed, "model_checking", cov, ASSUMPTIONS, rep.wall(), len(rep.violations))
    return rep.finish()


if __name__ == "__main__":
    sys.exit(main())
