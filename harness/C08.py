"""C08 - every callable C++ signature gets exactly one, distinct wrapper name.

A  util.un_camel executed symbolically (every character a z3 integer, character classes chosen by
   the engine) against the documented conversion, for all identifiers up to a length bound.
B  Expansion structures (overloads x trailing defaults x template instantiations x fortran_generic x
   scopes x explicit/default suffixes) through the whole real pipeline with placeholder identifiers:
   the emitted C prototypes, Fortran specifics/generic interfaces and Python/Lua method tables are
   compared with the reference set of callable signatures; every emitted name is decomposed into a
   template over the placeholders (and a second run with other placeholders must give the same
   templates).
C  z3's sequence theory decides, for every pair of emitted names of a structure, that the two
   templates cannot denote the same string for any identifiers of the claimed domain.
"""
import itertools
import json
import os
import re
import sys

import z3

sys.path.insert(0, os.path.dirname(os.path.dirname(os.path.abspath(__file__))))
from engines.shadowsym.core import Engine, Unsupported  # noqa: E402
from engines.shadowsym import driver  # noqa: E402
from gen import pipeline  # noqa: E402
from harness import cfg_common as cc  # noqa: E402
from lib import checklib  # noqa: E402

PID = "C08"
MARK = "§"


# ---------------------------------------------------------------------------- A: un_camel
class MarkChar(str):
    """A real str (so that ''.join and %-formatting work) whose text is a marker standing for a
    symbolic character; class tests branch through the engine."""
    def __new__(cls, e, z, reg):
        reg.append(z)
        s = str.__new__(cls, "%s%d%s" % (MARK, len(reg) - 1, MARK))
        s.e, s.z, s.reg = e, z, reg
        return s

    def isupper(self):
        return self.e.branch(z3.And(self.z >= 65, self.z <= 90))

    def islower(self):
        return self.e.branch(z3.And(self.z >= 97, self.z <= 122))

    def lower(self):
        return MarkChar(self.e, z3.If(z3.And(self.z >= 65, self.z <= 90), self.z + 32, self.z), self.reg)

    def upper(self):
        return MarkChar(self.e, z3.If(z3.And(self.z >= 97, self.z <= 122), self.z - 32, self.z), self.reg)

    def isdigit(self):
        return self.e.branch(z3.And(self.z >= 48, self.z <= 57))

    def isalpha(self):
        return self.e.branch(z3.Or(z3.And(self.z >= 65, self.z <= 90), z3.And(self.z >= 97, self.z <= 122)))

    def __eq__(self, o):
        if isinstance(o, MarkChar):
            return self.e.branch(self.z == o.z)
        if isinstance(o, str) and len(o) == 1:
            return self.e.branch(self.z == ord(o))
        return False

    def __ne__(self, o):
        return not self.__eq__(o)

    def __hash__(self):
        raise Unsupported("hash(MarkChar)")


class SymText(object):
    def __init__(self, chars):
        self.c = chars

    def __len__(self):
        return len(self.c)

    def __getitem__(self, i):
        if isinstance(i, slice):
            return SymText(self.c[i])
        return self.c[i]

    def __iter__(self):
        return iter(self.c)


CLASSES = ["upper", "lower", "digit", "under"]


def class_term(z, cls):
    if cls == "upper":
        return z3.And(z >= 65, z <= 90)
    if cls == "lower":
        return z3.And(z >= 97, z <= 122)
    if cls == "digit":
        return z3.And(z >= 48, z <= 57)
    return z == 95


def reference_un_camel(classes, zs, known_finding_exact=False):
    """Documented conversion: an upper-case letter starts a new word (gets '_' in front) when it is
    not the first character and either follows a lower-case letter or is followed by one; all
    letters are lower-cased.  Returns list of items: ('lit', '_') or ('low', index)."""
    out = []
    n = len(classes)
    for i, c in enumerate(classes):
        if c == "upper":
            start = i > 0 and (classes[i - 1] == "lower" or (i + 1 < n and classes[i + 1] == "lower"))
            if start:
                out.append(("lit", "_"))
            out.append(("low", i))
        else:
            out.append(("same", i))
    return out


def decode(s, reg):
    """marker string -> list of ('lit', ch) | ('term', z3 term)"""
    out = []
    pos = 0
    for m in re.finditer(r"%s(\d+)%s" % (MARK, MARK), s):
        for ch in s[pos:m.start()]:
            out.append(("lit", ch))
        out.append(("term", reg[int(m.group(1))]))
        pos = m.end()
    for ch in s[pos:]:
        out.append(("lit", ch))
    return out


class UnCamelHarness(object):
    def __init__(self, n, twin=False):
        self.n, self.twin = n, twin

    def run(self, e):
        from shroud import util
        self.zs = [z3.Int("c%d" % i) for i in range(self.n)]
        self.reg = []
        self.classes = []
        for i, z in enumerate(self.zs):
            k = e.choose(z3.Int("cls%d" % i) if False else self._clsvar(e, i))
            cls = CLASSES[k]
            self.classes.append(cls)
            e.assume(class_term(z, cls))
        if self.classes and self.classes[0] == "digit":
            from engines.shadowsym.core import Infeasible
            raise Infeasible()          # identifiers do not start with a digit
        text = SymText([MarkChar(e, z, self.reg) for z in self.zs])
        return util.un_camel(text)

    def _clsvar(self, e, i):
        v = z3.Int("cls%d" % i)
        e.assume(z3.And(v >= 0, v < len(CLASSES)))
        return v

    def witness(self, m, what):
        s = "".join(chr(m.eval(z, model_completion=True).as_long()) for z in self.zs)
        return {"kernel": "un_camel", "text": s, "what": what}

    def judge(self, e, kind, value):
        m = e.model()
        if kind == "exc":
            return {"cls": "un_camel", "violation": self.witness(m, "exception %s: %s" % (type(value).__name__, value)),
                    "vkey": "exception"}
        got = decode(value, self.reg)
        ref = reference_un_camel(self.classes, self.zs)
        fail = None
        # known finding: the real code never splits before the *second* character
        kf = len(self.classes) >= 2 and self.classes[1] == "upper" and \
            (self.classes[0] == "lower" or (len(self.classes) > 2 and self.classes[2] == "lower"))
        if len(got) != len(ref):
            fail = "result has %d characters, documented form has %d" % (len(got), len(ref))
        else:
            for g, r in zip(got, ref):
                if r[0] == "lit":
                    ok = g == ("lit", "_")
                    if not ok:
                        fail = "missing '_' word separator"
                        break
                else:
                    z = self.zs[r[1]]
                    want = z + 32 if r[0] == "low" else z
                    if g[0] == "lit":
                        claim = want == ord(g[1])
                    else:
                        claim = g[1] == want
                    if e.check(z3.Not(claim)) == "sat":
                        m = e.model(z3.Not(claim))
                        fail = "character %d is not the lower-cased input character" % r[1]
                        break
        cls = "un_camel/" + ("second-char-upper" if kf else "ok")
        if self.twin and not fail:
            fail = "reachability twin"
        if fail:
            w = self.witness(m, fail)
            w["second_char_class"] = kf
            return {"cls": cls, "violation": w, "vkey": ("kf:second-char-upper" if kf else fail[:40])}
        return {"cls": cls, "sample": self.witness(m, None)}


def make_uncamel(**kw):
    return UnCamelHarness(**kw)


def documented_un_camel(s):
    out = []
    n = len(s)
    for i, ch in enumerate(s):
        if ch.isupper():
            if i > 0 and (s[i - 1].islower() or (i + 1 < n and s[i + 1].islower())):
                out.append("_")
            out.append(ch.lower())
        else:
            out.append(ch)
    return "".join(out)


# ---------------------------------------------------------------------------- B: structures
ARGT = ["int", "double", "long"]


def function_yaml(name, k, d, t, g, explicit):
    """YAML nodes for one C++ name: k overloads, the last overload has d trailing defaults,
    t template instantiations (0 or 2), g fortran_generic entries (0 or 2)."""
    nodes = []
    for i in range(k):
        base_args = ["%s a%d" % (ARGT[i], j) for j in range(i + 1)]
        node = {}
        args = list(base_args)
        if i == k - 1:
            for j in range(d):
                args.append("int d%d = %d" % (j, j))          # (the first default is 0: a falsy default is still a default)
        if t == 3 and i == 0:
            # two template parameters, the instantiations share their first argument: the documented suffix is the
            # sequence number (_0, _1) unless the user names one
            decl = "template<typename T, typename U> void %s(T tt, U uu, %s)" % (name, ", ".join(args))
            node["cxx_template"] = [{"instantiation": "<int,long>"}, {"instantiation": "<int,double>"}]
            if explicit:
                node["cxx_template"][0]["format"] = {"template_suffix": "_ti"}
                node["cxx_template"][1]["format"] = {"template_suffix": "_td"}
        elif t and i == 0:
            decl = "template<typename T> void %s(T tt, %s)" % (name, ", ".join(args))
            node["cxx_template"] = [{"instantiation": "<int>"}, {"instantiation": "<double>"}]
            if explicit:
                node["cxx_template"][0]["format"] = {"template_suffix": "_ti"}
                node["cxx_template"][1]["format"] = {"template_suffix": "_td"}
        else:
            decl = "void %s(%s)" % (name, ", ".join(args))
        if g == 3 and i == 0 and not t:
            # generic over rank: the array variant needs a C entry point of its own
            node["fortran_generic"] = [{"decl": "(const int *a0)", "function_suffix": "_gs"},
                                       {"decl": "(const int *a0 +rank(1))", "function_suffix": "_ga"}]
            decl = decl.replace("int a0", "const int *a0")
        elif g == 1 and i == 0 and not t:
            # a list of one: still a generic name for its single specific
            node["fortran_generic"] = [{"decl": "(float a0)", "function_suffix": "_gf"}]
            decl = decl.replace("int a0", "double a0")
        elif g and i == 0 and not t:
            node["fortran_generic"] = [{"decl": "(float a0)", "function_suffix": "_gf"},
                                       {"decl": "(double a0)", "function_suffix": "_gd"}]
            decl = decl.replace("int a0", "double a0")
        node["decl"] = decl
        if explicit == "cppif" and i == 0 and k > 1:
            node["cpp_if"] = "ifdef HAVE_FIRST"          # only the first overload is conditional
        if explicit in (True, "blank") and k > 1:
            # "blank": the first overload is given an explicitly empty suffix (it keeps the plain name)
            node.setdefault("format", {})["function_suffix"] = "" if (explicit == "blank" and i == 0) else "_ov%s" % "abc"[i]
        if explicit in (True, "blank") and i == k - 1 and d:
            node["default_arg_suffix"] = ["_n%d" % j for j in range(d + 1)]
            if explicit == "blank" and k == 1:
                node["default_arg_suffix"][0] = ""
        if explicit == "partial" and i == k - 1 and d:
            # a suffix list that names only the shortened calls; the full call keeps its generated suffix
            node["default_arg_suffix"] = ["_n%d" % j for j in range(d)]
        nodes.append(node)
    return nodes


def predicted_names(scope, atoms, idx, spec):
    """For structures in which the user names every suffix: the documented templates give the names outright.
    C: {C_prefix}{C_name_scope}{underscore_name}{function_suffix}{template_suffix}; Fortran specific:
    {F_name_scope}{underscore_name}{function_suffix}{template_suffix} with generic suffixes appended."""
    k, d, t, g, explicit = spec
    if explicit not in (True, "blank") or g == 3:
        return None
    f = atoms["f%d" % idx]
    if atoms.get("_case"):
        # C_API_case controls the case of C_name_scope: the namespace and class parts of the C name
        cs = {"lower": str.lower, "upper": str.upper}[atoms["_case"]]
        atoms = dict(atoms, ns=cs(atoms["ns"]), cls_c=cs(atoms["cls"]))
    cscope = {"lib": "", "conly": "", "ns": atoms["ns"] + "_", "cls": atoms["ns"] + "_" + atoms.get("cls_c", atoms["cls"]) + "_",
              "deep": atoms["ns"] + "_inner_" + atoms["cls"] + "_", "tcls": atoms["ns"] + "_" + atoms["cls"] + "_int_",
              "tclsr": atoms["ns"] + "_" + atoms["cls"] + "_int_"}[scope]
    fscope = atoms["cls"] + "_" if scope in ("cls", "deep") else (atoms["cls"] + "_int_" if scope in ("tcls", "tclsr") else "")
    cn, fn = set(), set()
    for i in range(k):
        if i == k - 1 and d:
            sufs = ["_n%d" % j for j in range(d + 1)]
            if explicit == "blank" and k == 1:
                sufs[0] = ""
        elif k > 1:
            sufs = ["" if (explicit == "blank" and i == 0) else "_ov%s" % "abc"[i]]
        else:
            sufs = [""]
        tsuf = ["_ti", "_td"] if (t and i == 0) else [""]
        gsuf = ["_gf", "_gd"] if (g == 2 and i == 0 and not t) else (["_gf"] if (g == 1 and i == 0 and not t) else [""])
        for s_ in sufs:
            for ts in tsuf:
                cn.add("LIB_" + cscope + f + s_ + ts)
                for gs in gsuf:
                    fn.add(fscope + f + s_ + gs + ts)
    return cn, fn


def expected_counts(k, d, t, g):
    """(C entry points, Fortran specifics) for one C++ name."""
    c = 0
    f = 0
    for i in range(k):
        arities = (d + 1) if i == k - 1 else 1
        inst = 2 if (t and i == 0) else 1
        gen = (1 if g == 1 else 2) if (g and i == 0 and not t) else 1
        cgen = 2 if (g == 3 and i == 0 and not t) else 1
        c += arities * inst * cgen
        f += arities * inst * gen
    return c, f


def build_library(atoms, scope, funcs):
    """atoms: dict ns/cls/f0/f1 -> spelling.  funcs: list of (k,d,t,g,explicit)."""
    decls = []
    for idx, spec in enumerate(funcs):
        decls += function_yaml(atoms["f%d" % idx], *spec)
    lib = {"library": "lib", "cxx_header": "lib.hpp", "options": {"wrap_python": True, "wrap_lua": True}}
    if scope == "lib":
        lib["declarations"] = decls
    elif scope == "conly":
        # the C API alone: Fortran (and with it Python / Lua) switched off
        lib["declarations"] = decls
        lib["options"].update({"wrap_fortran": False, "wrap_python": False, "wrap_lua": False})
    elif scope == "cfistr":
        # Fortran-2018 descriptors: every overload returns a std::string that the Fortran API hands back through an
        # argument (F_string_result_as_arg), so each callable signature also has a *_CFI C entry point
        import copy as _copy
        sdecls = _copy.deepcopy(decls)
        for nd in sdecls:
            nd["decl"] = re.sub(r"^void ", "const std::string ", nd["decl"])
            nd.setdefault("format", {})["F_string_result_as_arg"] = "output"
        lib["declarations"] = sdecls
        lib["options"].update({"F_CFI": True, "wrap_python": False, "wrap_lua": False})
    elif scope == "ns":
        lib["declarations"] = [{"decl": "namespace %s" % atoms["ns"], "declarations": decls}]
    elif scope == "deep":
        # methods of a class two namespaces down
        lib["declarations"] = [{"decl": "namespace %s" % atoms["ns"], "declarations": [
            {"decl": "namespace inner", "declarations": [{"decl": "class %s" % atoms["cls"], "declarations": decls}]}]}]
    elif scope in ("tcls", "tclsr"):
        # methods of an instantiated class template; the first parameter of every overload has the template parameter's type
        # (tclsr: the template parameter is the result type only, no parameter mentions it)
        import copy as _copy
        tdecls = _copy.deepcopy(decls)
        for nd in tdecls:
            if scope == "tclsr":
                nd["decl"] = re.sub(r"^void ", "T ", nd["decl"])
            else:
                nd["decl"] = re.sub(r"\b(?:int|double|long) a0\b", "T a0", nd["decl"])
        lib["declarations"] = [{"decl": "namespace %s" % atoms["ns"], "declarations": [
            {"decl": "template<typename T> class %s" % atoms["cls"], "cxx_template": [{"instantiation": "<int>"}], "declarations": tdecls}]}]
        lib["options"]["wrap_python"] = False          # (this scope is about the C and Fortran names)
        lib["options"]["wrap_lua"] = False
    elif scope == "flat":
        # the same names at library level and in a namespace that is flattened into the library's Fortran module
        import copy as _copy
        lib["declarations"] = _copy.deepcopy(decls) + [{"decl": "namespace %s" % atoms["ns"], "options": {"F_flatten_namespace": True},
                                                        "declarations": decls}]
        # the Lua module registers namespace members under their bare names (known finding 'lua-namespace-same-name',
        # replayed on every run); this scope is about the Fortran module, so Lua is left out of it
        lib["options"]["wrap_lua"] = False
    else:
        # methods of a class inside a namespace
        lib["declarations"] = [{"decl": "namespace %s" % atoms["ns"], "declarations": [
            {"decl": "class %s" % atoms["cls"], "declarations": decls}]}]
    return lib


ATOMS1C = {"ns": "Qna", "cls": "Qka", "f0": "qfa", "f1": "qfb"}
ATOMS2C = {"ns": "Wnzz", "cls": "Wkz", "f0": "wfzz", "f1": "wfy"}
ATOMS1 = {"ns": "qna", "cls": "qka", "f0": "qfa", "f1": "qfb"}
ATOMS2 = {"ns": "wnzz", "cls": "wkz", "f0": "wfzz", "f1": "wfy"}


def emitted_names(res):
    """Observable names: C prototypes, Fortran entities and generic interfaces, PyMethodDef and
    luaL_Reg entries."""
    texts = cc.file_texts(res)
    out = {"c": [], "f_spec": [], "f_iface": [], "f_generic": {}, "py": {}, "lua": {}}
    for f, t in sorted(texts.items()):
        b = os.path.basename(f)
        if b.startswith("wrap") and b.endswith((".h",)) and not b.startswith("wrapf"):
            for m in re.finditer(r"(?m)^[A-Za-z_][\w \*]*?\b(\w+)\((?:[^;{]*?)\);", t):
                out["c"].append(m.group(1))
        elif b.endswith(".f"):
            body = t
            for m in re.finditer(r"(?ims)^\s*interface\s+(\w+)\s*\n(.*?)^\s*end interface", body):
                procs = re.findall(r"(?im)^\s*module procedure\s+(\w+)", m.group(2))
                out["f_generic"].setdefault(m.group(1).lower(), []).extend(p.lower() for p in procs)
            anon = re.findall(r"(?ims)^\s*interface\s*\n(.*?)^\s*end interface", body)
            for blk in anon:
                for m in re.finditer(r"(?im)^\s*(?:[\w()=, ]*\s)?(?:function|subroutine)\s+(\w+)\s*\(", blk):
                    out["f_iface"].append(m.group(1).lower())
            outside = re.sub(r"(?ims)^\s*interface\b.*?^\s*end interface\b[^\n]*", "", body)
            for m in re.finditer(r"(?im)^\s*(?:[\w()=, ]*\s)?(?:function|subroutine)\s+(\w+)\s*\(", outside):
                out["f_spec"].append(m.group(1).lower())
        elif b.startswith("py") and b.endswith((".cpp", ".c")):
            for m in re.finditer(r"(?s)static PyMethodDef (\w+)\[\]\s*=\s*\{(.*?)\};", t):
                out["py"].setdefault(b + ":" + m.group(1), []).extend(re.findall(r'\{\s*"(\w+)"', m.group(2)))
        elif b.startswith("lua") and b.endswith((".cpp", ".c")):
            for m in re.finditer(r"(?s)static const (?:struct )?luaL_Reg (\w+)\s*\[\]\s*=\s*\{(.*?)\};", t):
                out["lua"].setdefault(b + ":" + m.group(1), []).extend(re.findall(r'\{\s*"(\w+)"', m.group(2)))
    return out


def struct_suffix_verdict():
    """A struct used as the single template argument: the instantiation's suffix is the struct's own
    `format: template_suffix` when it gives one (documented: the type's explicit suffix, else '_' + its flat name)."""
    lib = {"library": "lib", "cxx_header": "lib.hpp", "options": {"wrap_python": False, "wrap_lua": False}, "declarations": [
        {"decl": "struct Qpair { int a; int b; }", "format": {"template_suffix": "_pr"}},
        {"decl": "struct Qtrio { int a; }"},
        {"decl": "template<typename T> int qfa(T v)",
         "cxx_template": [{"instantiation": "<Qpair>"}, {"instantiation": "<Qtrio>"}, {"instantiation": "<int>"}]}]}
    try:
        names = emitted_names(pipeline.run(lib))
    except Exception as ex:
        return "generation fails: %s: %s" % (type(ex).__name__, str(ex)[:150])
    got = sorted(n for n in names["c"] if "qfa" in n)
    want = sorted(["LIB_qfa_pr", "LIB_qfa_Qtrio", "LIB_qfa_int"])
    if got != want:
        return "template instantiated with structs: the documented suffixes give %r, emitted %r" % (want, got)
    return None


def conditional_generics(res):
    """A generic interface that sits inside a preprocessor conditional while one of the specifics it lists is defined
    outside any conditional: with the macro undefined the specific exists but its generic name does not.
    Returns a description or None."""
    texts = cc.file_texts(res)
    for f, t in sorted(texts.items()):
        if not f.endswith(".f"):
            continue
        stack = []
        defined = {}          # procedure -> conditional stack at its definition
        ifaces = []           # (name, stack, [procedures])
        cur = None
        in_anon = False
        for ln in t.splitlines():
            s_ = ln.strip()
            if s_.startswith("#if"):
                stack.append(s_)
                continue
            if s_.startswith("#endif"):
                if stack:
                    stack.pop()
                continue
            if s_.startswith("#"):
                continue
            m = re.match(r"(?i)^interface\s+(\w+)\s*$", s_)
            if m:
                cur = (m.group(1).lower(), tuple(stack), [])
                continue
            if re.match(r"(?i)^interface\s*$", s_):
                in_anon = True
                continue
            if re.match(r"(?i)^end interface", s_):
                if cur is not None:
                    ifaces.append(cur)
                cur = None
                in_anon = False
                continue
            if cur is not None:
                m = re.match(r"(?i)^module procedure\s+(\w+)", s_)
                if m:
                    cur[2].append((m.group(1).lower(), tuple(stack)))
                continue
            if not in_anon:
                m = re.match(r"(?i)^(?:[\w()=, ]*\s)?(?:function|subroutine)\s+(\w+)\s*\(", s_)
                if m:
                    defined.setdefault(m.group(1).lower(), tuple(stack))
        for name, istack, procs in ifaces:
            for p_, pstack in procs:
                dstack = defined.get(p_)
                if dstack is not None and len(dstack) < len(istack):
                    return "generic %s is inside %s but its specific %s is defined unconditionally: without the macro %s exists and %s does not" % (
                        name, istack[-1], p_, p_, name)
    return None


def dups(lst):
    seen, d = set(), []
    for x in lst:
        if x in seen:
            d.append(x)
        seen.add(x)
    return d


def template_of(name, atoms):
    """Decompose an emitted name against the placeholder spellings: list of ('atom', key)|('lit', text)."""
    out = []
    i = 0
    keys = sorted(atoms, key=lambda k: -len(atoms[k]))
    lit = ""
    low = {k: atoms[k].lower() for k in atoms}
    while i < len(name):
        for k in keys:
            if name.lower().startswith(low[k], i):
                if lit:
                    out.append(("lit", lit))
                    lit = ""
                out.append(("atom", k))
                i += len(low[k])
                break
        else:
            lit += name[i]
            i += 1
    if lit:
        out.append(("lit", lit))
    return tuple(out)


def check_structure(scope, funcs):
    """Returns (violation text or None, info dict with templates)."""
    results = []
    case = None
    if "-" in scope:
        # '<scope>-lower' / '<scope>-upper': option C_API_case, namespace and class spelled with capitals
        scope, case = scope.split("-")
    for atoms in ((ATOMS1, ATOMS2) if case is None else (ATOMS1C, ATOMS2C)):
        lib = build_library(atoms, scope, funcs)
        if case:
            lib["options"]["C_API_case"] = case
            atoms = dict(atoms, _case=case)
        try:
            r = pipeline.run(lib)
        except Exception as ex:
            return "generation fails: %s: %s" % (type(ex).__name__, str(ex)[:200]), None
        cg = conditional_generics(r)
        if cg:
            return cg, None
        results.append((atoms, emitted_names(r)))
    atoms, names = results[0]
    # distinctness
    # (Fortran allows a generic name to equal one of its own specific procedures)
    gen_ok = [g for g, procs in names["f_generic"].items() if g not in procs]
    for what, lst in (("external C symbols", names["c"]),
                      ("Fortran module entities", names["f_spec"] + names["f_iface"] + gen_ok)):
        d = dups(lst)
        if d:
            return "%s coincide: %r" % (what, sorted(set(d))[:4]), None
    for tab, lst in list(names["py"].items()) + list(names["lua"].items()):
        d = dups(lst)
        if d:
            return "method table %s has duplicate entries %r" % (tab, d[:4]), None
    # completeness against the reference set of callable signatures
    for idx, spec in enumerate(funcs):
        k, d, t, g, explicit = spec
        fname = atoms["f%d" % idx].lower()
        # Python and Lua present a C++ name once per table, under that name (overloads, arities and instantiations are
        # dispatched behind it)
        for tab, lst in list(names["py"].items()) + list(names["lua"].items()):
            mine = [n for n in lst if fname in n.lower()]
            if len(mine) > 1 or (mine and mine[0] != atoms["f%d" % idx]):
                return "method table %s presents the C++ name %s as %r (expected the name itself, once)" % (tab, atoms["f%d" % idx], mine[:4]), None
        want_c, want_f = expected_counts(k, d, t, g)
        want_f1 = want_f
        if scope == "flat":
            want_c, want_f = 2 * want_c, 2 * want_f
        mine_c = [n for n in names["c"] if fname in n.lower() and "bufferify" not in n and (scope != "cfistr" or n.endswith("_CFI"))]
        # (scope cfistr: a std::string returned by value has no plain C entry point, its *_CFI function is the one counted)
        if len(mine_c) != want_c:
            return "C++ name %s has %d callable signatures but %d C entry points %r" % (atoms["f%d" % idx], want_c, len(mine_c), mine_c[:8]), None
        pred = predicted_names(scope, atoms, idx, spec) if scope not in ("flat", "cfistr") else None
        if pred is not None and not (t and d and k == 1):
            if set(mine_c) != pred[0]:
                return "C++ name %s: the user-given suffixes predict the C names %r, emitted %r" % (
                    atoms["f%d" % idx], sorted(pred[0]), sorted(mine_c)), None
        if scope == "conly":
            continue
        mine_f = [n for n in names["f_spec"] if fname in n]
        if pred is not None and not (t and d and k == 1):
            direct = {n for n in names["f_iface"] if fname in n and not n.startswith("c_") and "bufferify" not in n}
            if ({n for n in mine_f} | direct) != {n.lower() for n in pred[1]}:
                return "C++ name %s: the user-given suffixes predict the Fortran specifics %r, emitted %r" % (
                    atoms["f%d" % idx], sorted(pred[1]), sorted(mine_f)), None
        # functions that need no Fortran wrapper are bound directly through their interface
        mine_i = [n for n in names["f_iface"] if fname in n and "bufferify" not in n]
        nspec = len(mine_f) if mine_f else 0
        if scope not in ("cls", "deep") or True:
            total_f = len(set(mine_f)) + len([n for n in mine_i if not any(n[2:] == s or n == "c_" + s for s in mine_f)])
        if len(set(mine_f)) > want_f:
            return "C++ name %s has %d callable Fortran signatures but %d Fortran specifics %r" % (atoms["f%d" % idx], want_f, len(mine_f), mine_f[:8]), None
        # generic interface lists exactly the specifics of its C++ name
        gens = {gname: procs for gname, procs in names["f_generic"].items() if fname in gname}
        if g == 1 and k == 1 and not d and not t and scope in ("lib", "ns") and fname not in gens:
            return "C++ name %s has a fortran_generic list (of one) but no generic interface of that name" % atoms["f%d" % idx], None
        for gname, procs in gens.items():
            d2 = dups(procs)
            if d2:
                return "generic interface %s lists %r more than once" % (gname, d2[:3]), None
            for p in procs:
                if fname not in p:
                    return "generic interface %s lists %s, a specific of another name" % (gname, p), None
                if p not in names["f_spec"]:
                    # `module procedure p` demands a procedure the module defines; a name that only exists as a bind(C)
                    # interface body is no module procedure (gfortran: "'p' is not a module procedure")
                    return "generic interface %s lists %s as a module procedure, but the module defines no procedure of that name%s" % (
                        gname, p, " (it is only an interface body)" if p in names["f_iface"] else ""), None
            if want_f > 1 and scope not in ("cls", "deep", "tcls", "tclsr", "flat") and gname == fname and len(procs) != want_f:
                return "generic interface %s lists %d specifics, the C++ name has %d callable signatures" % (gname, len(procs), want_f), None
            if scope == "flat" and want_f1 > 1 and len(procs) != want_f1:
                return "generic interface %s lists %d specifics, its C++ name has %d callable signatures" % (gname, len(procs), want_f1), None
        if scope == "flat" and want_f1 > 1 and len(gens) != 2:
            return "the C++ names %s and %s::%s (flattened namespace) have %d generic interfaces, expected one each" % (
                atoms["f%d" % idx], atoms["ns"], atoms["f%d" % idx], len(gens)), None
    # templates and parametricity
    t1 = sorted(template_of(n, results[0][0]) for n in names["c"])
    t2 = sorted(template_of(n, results[1][0]) for n in results[1][1]["c"])
    if t1 != t2:
        return "C names are not a function of the name templates alone (two placeholder sets give different templates)", None
    f1 = sorted(template_of(n, results[0][0]) for n in names["f_spec"] + names["f_iface"] + list(names["f_generic"]))
    f2 = sorted(template_of(n, results[1][0]) for n in results[1][1]["f_spec"] + results[1][1]["f_iface"] + list(results[1][1]["f_generic"]))
    if f1 != f2:
        return "Fortran names are not a function of the name templates alone", None
    return None, {"c_templates": t1, "f_templates": f1, "names": names}


# ---------------------------------------------------------------------------- C: injectivity with z3 strings
def ident_re(maxlen):
    lower = z3.Range("a", "z")
    alnum = z3.Union(z3.Range("a", "z"), z3.Range("0", "9"))
    # no underscore, does not end in a digit
    return z3.Union(lower, z3.Concat(lower, z3.Star(alnum), lower))


# not identifiers a C++ function, class or namespace can have
CXX_WORDS = ["int", "long", "double", "float", "char", "short", "void", "bool", "signed", "unsigned", "const", "class",
             "struct", "enum", "union", "if", "do", "for", "new", "try", "and", "or", "not", "xor", "asm", "auto", "case",
             "else", "goto", "this", "true", "false", "using", "while", "break", "catch", "throw", "const", "static",
             "extern", "inline", "return", "sizeof", "switch", "typedef", "delete", "friend", "public", "private",
             "default", "virtual", "mutable", "typeid", "typename", "template", "operator", "namespace", "volatile",
             "register", "explicit", "export", "continue", "protected", "nullptr", "noexcept", "decltype", "alignas",
             "alignof", "bitand", "bitor", "compl", "wchar_t", "size_t"]
F_C_STEM = "c"       # options.F_C_prefix is "c_": known finding 'fortran-c-prefix-name'
RESERVED_METHOD_NAMES = ["eq", "ne", "assign", "associated", "final"]   # helpers Shroud generates for every class


def injective(templates, maxlen=8, timeout_ms=60000, reserved_for=()):
    """For every pair of distinct templates: can they denote the same string for identifiers in the
    claimed domain?  Returns (counterexample or None, queries, unknowns)."""
    keys = sorted({k for t in templates for (kind, k) in t if kind == "atom"})
    vars_ = {k: z3.String("id_" + k) for k in keys}
    base = []
    R = ident_re(maxlen)
    for k, v in vars_.items():
        base.append(z3.InRe(v, R))
        base.append(z3.Length(v) <= maxlen)
        base.append(z3.Length(v) >= 1)
    for a, b in itertools.combinations(keys, 2):
        base.append(vars_[a] != vars_[b])
    for k, v in vars_.items():
        for w in CXX_WORDS:
            if len(w) <= maxlen:
                base.append(v != z3.StringVal(w))
        base.append(v != z3.StringVal(F_C_STEM))       # known finding, replayed concretely on every run
    for k in reserved_for:          # known finding: a method named like a generated class helper
        if k in vars_:
            for w in RESERVED_METHOD_NAMES:
                base.append(vars_[k] != z3.StringVal(w))

    def term(t):
        parts = [vars_[k] if kind == "atom" else z3.StringVal(k) for (kind, k) in t]
        return parts[0] if len(parts) == 1 else z3.Concat(*parts)
    nq = unk = 0
    s = z3.Solver()
    s.set("timeout", timeout_ms)
    s.add(base)
    uniq = sorted(set(templates))
    for a, b in itertools.combinations(uniq, 2):
        s.push()
        s.add(term(a) == term(b))
        r = s.check()
        nq += 1
        if r == z3.sat:
            m = s.model()
            cex = {k: m.eval(v, model_completion=True).as_string() for k, v in vars_.items()}
            s.pop()
            return (a, b, cex), nq, unk
        if r == z3.unknown:
            unk += 1
        s.pop()
    return None, nq, unk


def render(t, vals):
    return "".join(vals[k] if kind == "atom" else k for (kind, k) in t)


# ---------------------------------------------------------------------------- driver
def structures(tier):
    single = []
    for k in (1, 2, 3):
        for d in (0, 1, 2):
            for t in (0, 2, 3):
                for g in (0, 1, 2, 3):
                    if t and g:
                        continue
                    if t == 3 and (d or k > 2):
                        continue        # (two-parameter templates: plain and with one overload beside them)
                    if g == 1 and (d or k > 1):
                        continue        # (a one-entry generic list: alone)
                    if g == 3 and k == 1 and d:
                        continue        # rank generics combined with default arguments on one function: not claimed
                    for ex in (False, True, "partial", "blank"):
                        if ex == "partial" and not d:
                            continue
                        if ex == "blank" and not (k > 1 or d):
                            continue
                        single.append((k, d, t, g, ex))
    out = []
    for s in single:
        if s[4] is False and not (s[2] and s[1] and s[0] == 1):
            out.append(("flat", [s]))
    for s in single:
        if not s[2] and not s[3] and (s[0] > 1 or s[1]) and s[4] in (False, True):
            out.append(("cfistr", [s]))
    for scope in ("lib", "ns", "cls", "deep", "tcls", "tclsr", "conly"):
        for s in single:
            if scope in ("cls", "deep", "tcls", "tclsr", "conly") and s[3]:
                continue
            if scope == "tclsr" and (s[2] or s[1] or s[0] < 2):
                continue        # (this scope is about numbering overloads whose parameters do not mention T)
            if scope == "conly" and not s[1]:
                continue        # (the C-only scope is about the wrap flags of default-argument copies)
            if scope == "tcls" and s[2]:
                continue        # (no member templates inside the class template)
            if scope == "tcls" and s[1]:
                continue        # known finding: class-template method with trailing default arguments
            if scope == "deep" and not (s[0] > 1 or s[1]):
                continue        # (the deep scope is about overload / default-argument processing of nested classes)
            if s[2] and s[1] and s[0] == 1:
                continue        # known finding: function template with trailing default arguments
            out.append((scope, [s]))
    for scope in ("lib", "ns", "cls"):
        out.append((scope, [(2, 0, 0, 0, "cppif")]))
        out.append((scope, [(3, 0, 0, 0, "cppif")]))
    for scope in ("ns", "cls"):
        for case in ("lower", "upper"):
            for s in [(1, 0, 0, 0, True), (2, 1, 0, 0, True), (1, 2, 0, 0, True)]:
                out.append(("%s-%s" % (scope, case), [s]))
    pair_specs = [(1, 0, 0, 0, False), (2, 0, 0, 0, False), (1, 2, 0, 0, False), (2, 1, 0, 0, True), (1, 0, 2, 0, False), (1, 1, 0, 2, False),
                  (1, 0, 0, 3, False), (1, 2, 0, 0, "partial")]
    if tier == "thorough":
        pair_specs += [(3, 2, 0, 0, False), (2, 2, 2, 0, True), (3, 0, 0, 2, True)]
    for scope in ("lib", "ns", "cls"):
        for a in pair_specs:
            for b in pair_specs:
                if scope == "cls" and (a[3] or b[3]):
                    continue
                out.append((scope, [a, b]))
    return out


def run_structs(chunk):
    """worker: returns list of (struct, violation, templates, z3 queries, unknown, cex)"""
    out = []
    for scope, funcs in chunk:
        v, info = check_structure(scope, funcs)
        rec = {"scope": scope, "funcs": funcs, "what": v, "queries": 0, "unknown": 0}
        if v is None:
            for key in ("c_templates", "f_templates"):
                cex, nq, unk = injective(info[key], reserved_for=("f0", "f1") if scope.split("-")[0] in ("cls", "deep", "tcls", "tclsr") else ())
                rec["queries"] += nq
                rec["unknown"] += unk
                if cex:
                    a, b, vals = cex
                    rec["what"] = "two %s names coincide for identifiers %r: %s" % (
                        "C" if key[0] == "c" else "Fortran", vals, render(a, vals))
                    rec["cex_atoms"] = vals
                    break
            rec["sample"] = info["names"]["c"][:6]
        out.append(rec)
    return out


def confirm_struct(w):
    atoms = w.get("cex_atoms")
    if atoms:
        a = {"ns": atoms.get("ns", "qna"), "cls": atoms.get("cls", "qka"), "f0": atoms.get("f0", "qfa"), "f1": atoms.get("f1", "qfb")}
        try:
            r = pipeline.run(build_library(a, w["scope"], [tuple(f) for f in w["funcs"]]))
        except Exception as ex:
            return "generation fails: %s" % ex
        names = emitted_names(r)
        d = dups(names["c"]) or dups(names["f_spec"] + names["f_iface"] + list(names["f_generic"]))
        return ("emitted names coincide: %r" % d[:4]) if d else None
    v, _ = check_structure(w["scope"], [tuple(f) for f in w["funcs"]])
    return v


def assumed_rank_verdict():
    """One Fortran specific per admissible rank of an assumed-rank argument: `dimension(..)` with F_assumed_rank_min..max
    (both inclusive, docs: "the minimum / maximum rank") gives the specifics <name>_<r>d for every rank in the range, all
    listed by the generic of the C++ name."""
    for lo, hi in ((0, 3), (1, 2), (0, 7), (2, 2)):
        lib = {"library": "lib", "language": "c", "options": {"wrap_python": False, "wrap_lua": False,
                                                              "F_assumed_rank_min": lo, "F_assumed_rank_max": hi},
               "declarations": [{"decl": "int qfa(const int *values +dimension(..), int nvalues)"}]}
        try:
            names = emitted_names(pipeline.run(lib))
        except Exception as ex:
            return "generation fails for ranks %d..%d: %s: %s" % (lo, hi, type(ex).__name__, str(ex)[:150])
        want = sorted("qfa_%dd" % r for r in range(lo, hi + 1))
        got = sorted(n for n in names["f_spec"] if n.startswith("qfa"))
        if got != want:
            return "assumed-rank argument with ranks %d..%d: expected the specifics %r, emitted %r" % (lo, hi, want, got)
        listed = sorted(names["f_generic"].get("qfa", []))
        if listed != want:
            return "assumed-rank argument with ranks %d..%d: the generic qfa lists %r, expected %r" % (lo, hi, listed, want)
    return None


def confirm(w):
    if w.get("kernel") == "assumed-rank":
        return assumed_rank_verdict()
    if w.get("kernel") == "struct-suffix":
        return struct_suffix_verdict()
    if w.get("kernel") == "un_camel":
        from shroud import util
        got = util.un_camel(w["text"])
        want = documented_un_camel(w["text"])
        return None if got == want else "un_camel(%r) = %r, documented form %r" % (w["text"], got, want)
    return confirm_struct(w)


def main():
    tier, seed, rp = checklib.tier_and_seed()
    if rp:
        with open(rp) as f:
            w = json.load(f)
        v = confirm(w)
        print("case:", json.dumps({k: w[k] for k in w if k not in ("what",)})[:600])
        print("verdict:", v or "property holds on this case")
        if v:
            print("VIOLATION property=%s replay=%s" % (PID, rp))
        return 1 if v else 0
    rep = checklib.Report(PID)
    known = [k for k in checklib.load_known(PID) if k.get("status") == "known"]
    # A
    nmax = 6 if tier == "quick" else 8
    specs = [("harness.C08", "make_uncamel", dict(n=n)) for n in range(1, nmax + 1)]
    accs = driver.explore_many(specs, split_depth=5, time_budget_s=900 if tier == "quick" else 4000, max_decisions=20000)
    total = driver.Acc()
    for n, a in zip(range(1, nmax + 1), accs):
        total.merge(a)
        for msg in a.inconclusive:
            rep.inconc("un_camel n=%d: %s" % (n, msg))
    tw = driver.explore(("harness.C08", "make_uncamel", dict(n=2, twin=True)), nworkers=1)
    twin_ok = tw.stats.paths > 0 and tw.nviol == tw.stats.paths and not tw.inconclusive
    if not twin_ok:
        rep.inconc("reachability twin failed")
    # B + C
    structs = structures(tier)
    import multiprocessing
    CH = 6
    chunks = [structs[i:i + CH] for i in range(0, len(structs), CH)]
    recs = []
    with multiprocessing.get_context("fork").Pool(min(16, os.cpu_count() or 1)) as pool:
        for r in pool.imap_unordered(run_structs, chunks, chunksize=1):
            recs.extend(r)
    nq = sum(r["queries"] for r in recs)
    nunk = sum(r["unknown"] for r in recs)
    if nunk:
        rep.inconc("%d z3 string queries returned unknown" % nunk)
    viol = list(total.violations)
    sv = struct_suffix_verdict()
    if sv:
        viol.append({"kernel": "struct-suffix", "what": sv, "_vkey": "struct-suffix"})
    av = assumed_rank_verdict()
    if av:
        viol.append({"kernel": "assumed-rank", "what": av, "_vkey": "assumed-rank"})
    for r in recs:
        if r["what"]:
            viol.append({"kernel": "structure", "scope": r["scope"], "funcs": r["funcs"], "what": r["what"],
                         "cex_atoms": r.get("cex_atoms"), "_vkey": re.sub(r"\w*q[nkf]\w*|\d+", "N", r["what"])[:70]})
    seen, confirmed, printed = set(), 0, set()
    for k in known:
        if k["key"] == "template-with-defaults":
            v0, _ = check_structure("lib", [(1, 1, 2, 0, False)])
            if v0:
                rep.known_finding("%s (%s)" % (k["what_fails"], v0[:120]))
        elif k["key"] == "class-template-method-defaults":
            v0, _ = check_structure("tcls", [(1, 1, 0, 0, False)])
            if v0:
                rep.known_finding("%s (%s)" % (k["what_fails"], v0[:120]))
        elif k["key"] == "overloaded-function-templates":
            lib0 = {"library": "lib", "cxx_header": "lib.hpp", "options": {"wrap_python": False, "wrap_lua": False}, "declarations": [
                {"decl": "template<typename T> void qfa(T v)", "cxx_template": [{"instantiation": "<int>"}, {"instantiation": "<double>"}]},
                {"decl": "template<typename T> void qfa(T v, int n)", "cxx_template": [{"instantiation": "<int>"}, {"instantiation": "<double>"}]}]}
            try:
                d0 = dups(emitted_names(pipeline.run(lib0))["c"])
            except Exception:
                d0 = []
            if d0:
                rep.known_finding("%s (emitted twice: %r)" % (k["what_fails"], sorted(set(d0))))
        elif k["key"] == "fortran-c-prefix-name":
            v0 = confirm_struct({"scope": "lib", "funcs": [[1, 0, 0, 3, False], [1, 0, 0, 3, False]], "cex_atoms": {"f0": "c", "f1": "ga"}})
            if v0:
                rep.known_finding("%s (%s)" % (k["what_fails"], v0[:120]))
        elif k["key"] == "lua-namespace-same-name":
            lib0 = build_library(ATOMS1, "flat", [(1, 0, 0, 0, False)])
            lib0["options"]["wrap_lua"] = True
            try:
                n0 = emitted_names(pipeline.run(lib0))
                d0 = [d for tab, lst in n0["lua"].items() for d in dups(lst)]
            except Exception:
                d0 = []
            if d0:
                rep.known_finding("%s (luaL_Reg lists %r twice)" % (k["what_fails"], d0[0]))
        elif k["key"] == "reserved-method-name":
            v0 = confirm_struct({"scope": "cls", "funcs": [[1, 0, 0, 0, False]], "cex_atoms": {"cls": "a", "f0": "eq"}})
            if v0:
                rep.known_finding("%s (%s)" % (k["what_fails"], v0[:120]))
    for i, v in enumerate(viol):
        verdict = confirm(v)
        if verdict is None:
            rep.inconc("counterexample did not reproduce concretely: %r" % (v,))
            continue
        confirmed += 1
        if v.get("kernel") == "un_camel" and v.get("second_char_class"):
            kf = [k for k in known if k["key"] == "un_camel-second-char"]
            if kf:
                if "u" not in printed:
                    printed.add("u")
                    rep.known_finding("%s (e.g. %s)" % (kf[0]["what_fails"], verdict))
                continue
        key = v.get("_vkey")
        if key in seen:
            continue
        seen.add(key)
        path = checklib.write_replay(PID, "cex%03d" % i, v)
        rep.violation(path, "%s  case=%s" % (verdict, json.dumps({k: v[k] for k in v if k in ("text", "scope", "funcs", "cex_atoms")})[:300]))
    samples = []
    for cls, lst in sorted(total.samples.items()):
        samples.extend(lst[:1])
    samples += [{"scope": r["scope"], "funcs(k,d,t,g,explicit)": r["funcs"], "c_names": r.get("sample")} for r in recs[:4]]
    cov = {
        "states": total.stats.paths + len(recs),
        "transitions": max(total.stats.decisions, 1),
        "traces_validated_against_impl": confirmed,
        "samples": samples[:8],
        "exhaustive": False,
        "functions_encoded": ["shroud.util.un_camel", "whole pipeline for structures: generate.GenFunctions.define_function_suffix, has_default_args, "
                              "template_function, generic_function; ast eval_template / name templates; wrapf generic interfaces; wrapp/wrapl method tables"],
        "bounds": {"un_camel_length_max": nmax, "un_camel_alphabet": "A-Z a-z 0-9 _ (not starting with a digit), every character symbolic within its class",
                   "structures": len(structs), "overloads_max": 3, "trailing_defaults_max": 2, "template_instantiations": [0, 2],
                   "fortran_generic": [0, 2], "scopes": ["library", "namespace", "class in namespace"], "functions_per_scope_max": 2,
                   "identifier_domain_for_injectivity": "[a-z]([a-z0-9]*[a-z])?, length <= 8, pairwise distinct, no underscore"},
        "solver": {"name": "z3 " + z3.get_version_string(), "queries": total.stats.queries + nq, "solver_s": round(total.stats.solver_s, 2),
                   "string_queries": nq, "string_unknown": nunk},
        "classes": dict(total.counts),
        "reachability_twin_ok": twin_ok,
    }
    assumptions = [
        "identifiers for the injectivity claim contain no underscore and do not end in a digit (names with '_' or trailing digits make scope-join / generated-suffix collisions satisfiable: outside the claimed domain)",
        "the documented un_camel: an upper-case letter that is not first and follows a lower-case letter or is followed by one starts a new word",
        "emitted names are read from generated headers (C prototypes), Fortran modules, PyMethodDef and luaL_Reg tables by the harness's regular expressions",
        "known finding excluded from the un_camel claim: an upper-case SECOND character never starts a new word (aB -> ab)",
    ]
    checklib.write_evidence(PID, tier, seed, "model_checking", cov, assumptions, rep.wall(), len(rep.violations))
    return rep.finish()


if __name__ == "__main__":
    sys.exit(main())
