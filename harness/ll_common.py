"""Shared pieces of the llsym harnesses (C02, C06, C10, C18, C03)."""
import os
import re
import subprocess
import tempfile
import shutil

import z3

from engines.llsym import ir
from engines.llsym.exec import Executor, Ptr, NULL, FuncPtr, MemViolation, PathAbort, conc, bv
from gen import cgen

LIBDIR = os.path.join(os.path.dirname(os.path.dirname(os.path.abspath(__file__))), "gen", "libs")
_BUILDS = {}


def lib_text(name):
    with open(os.path.join(LIBDIR, name)) as f:
        return f.read()


def get_build(key):
    """key: (yaml file, header file[, language override])"""
    if key not in _BUILDS:
        yaml_name, hdr = key[0], key[1]
        text = lib_text(yaml_name)
        if len(key) > 2 and key[2]:
            text = re.sub(r"(?m)^language:.*\n", "", text)
            text = "language: %s\n" % key[2] + text
        extra = [os.path.join(os.path.dirname(LIBDIR), "luastub")]
        if "F_CFI: true" in text:
            # ISO_Fortran_binding.h comes with gfortran, not with clang
            import glob
            extra += sorted(glob.glob("/usr/lib/gcc/*/*/include"))[-1:]
        b = cgen.build(text, {hdr: lib_text(hdr)}, extra_includes=extra)
        if b.errors:
            raise RuntimeError("generated code does not compile: %s" % b.errors[0][:800])
        _BUILDS[key] = b
    return _BUILDS[key]


def find_function(module, pattern):
    rx = re.compile(pattern)
    hits = [n for n, f in module.functions.items() if f.defined and rx.search(n)]
    return hits


def sym_buffer(ex, name, size, kind="heap", alloc=None):
    """object of (possibly symbolic) size with unconstrained byte contents"""
    o = ex.new_obj(name, size, kind, alloc)
    o.tag["input"] = True
    return o


def bytes_of(model, arr, n, base=0):
    out = []
    for i in range(n):
        v = model.eval(z3.Select(arr, z3.BitVecVal(base + i, 64)), model_completion=True)
        out.append(v.as_long())
    return out


def mval(model, term, signed_bits=None):
    v = model.eval(term, model_completion=True)
    if z3.is_bool(v):
        return bool(z3.is_true(v))
    x = v.as_long()
    if signed_bits and x >= 1 << (signed_bits - 1):
        x -= 1 << signed_bits
    return x


def helper_source(wrap_text, name):
    """text of one emitted helper function (from its '// helper NAME' comment to the next helper/blank section)"""
    m = re.search(r"(?ms)^// helper %s\b.*?(?=^// helper |^// splicer|^extern \"C\"|\Z)" % re.escape(name), wrap_text)
    return m.group(0) if m else None


def run_native(sources, flags=(), cxx=True, timeout=60, run_args=()):
    """compile the given {filename: text} with ASan+UBSan and run; returns (rc, output)."""
    tmp = tempfile.mkdtemp(prefix="llreplay_")
    try:
        files = []
        for name, text in sources.items():
            with open(os.path.join(tmp, name), "w") as f:
                f.write(text)
            if name.endswith((".c", ".cpp")):
                files.append(os.path.join(tmp, name))
        exe = os.path.join(tmp, "a.out")
        cmd = ["clang++" if cxx else "clang"] + (["-std=c++11"] if cxx else ["-std=c99"]) + \
              ["-g", "-O0", "-fsanitize=address,undefined", "-fno-omit-frame-pointer", "-w", "-I", tmp] + list(flags) + files + ["-o", exe]
        p = subprocess.run(cmd, stdout=subprocess.PIPE, stderr=subprocess.STDOUT, universal_newlines=True)
        if p.returncode != 0:
            return -999, "compile failed: " + p.stdout[-2000:]
        env = dict(os.environ, ASAN_OPTIONS="detect_leaks=1:abort_on_error=0", UBSAN_OPTIONS="print_stacktrace=0")
        p = subprocess.run([exe] + list(run_args), stdout=subprocess.PIPE, stderr=subprocess.STDOUT, universal_newlines=True,
                           timeout=timeout, env=env)
        return p.returncode, p.stdout
    except subprocess.TimeoutExpired:
        return -998, "timeout"
    finally:
        shutil.rmtree(tmp, ignore_errors=True)


def c_bytes(bs):
    return "{" + ",".join(str(b) for b in bs) + "}" if bs else "{0}"


def outcome_class(kind, value):
    if kind == "exc":
        if isinstance(value, MemViolation):
            return "memory:" + value.kind
        if isinstance(value, PathAbort):
            return "abort:" + value.kind
        return "exception:" + type(value).__name__
    return "returned"
