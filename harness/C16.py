"""C16 - documentation and debug options change comments only.

The whole real pipeline runs with the documentation/debug options as symbolic booleans
(SymBool proxies injected into the option dictionaries); every feasible combination of
branch outcomes is a path.  On every path the set of files and the comment-stripped token
streams must equal those of the all-defaults run.
"""
import json
import os
import sys

import z3

sys.path.insert(0, os.path.dirname(os.path.dirname(os.path.abspath(__file__))))
from engines.shadowsym.core import Engine  # noqa: E402
from engines.shadowsym.proxies import SymBool  # noqa: E402
from engines.shadowsym import driver  # noqa: E402
from gen import pipeline  # noqa: E402
from harness import cfg_common as cc  # noqa: E402
from lib import checklib  # noqa: E402

PID = "C16"
LIB_OPTS = ["debug", "debug_index", "doxygen", "show_splicer_comments"]
DECL_OPTS = ["debug", "doxygen", "literalinclude"]


def decl_nodes(d, out=None):
    out = [] if out is None else out
    for sub in d.get("declarations") or []:
        if "decl" in sub:
            out.append(sub)
        decl_nodes(sub, out)
    return out


_BASE = {}

# user code supplied for the Fortran wrapper in every run: code in front of the module and the body of a function that is
# generated after a struct (both disappear silently if a splicer scope is mishandled under one of the options)
USER_SPLICERS = {
    "geom": {"f": {"file_top": ["#define GEOM_USER_CODE 7"]},
             # a body for a function inside a namespace (the C wrapper of shapes::count)
             "c": {"namespace": {"shapes": {"function": {"count": ["return 4242;"]}}}}},
    "clib": {"f": {"file_top": ["#define CLIB_USER_CODE 7"], "function": {"norm": ["SHT_rv = 42"]}}},
    "nest": {"f": {"file_top": ["#define NEST_USER_CODE 7"]}},
}


def user_splicers(libname):
    import copy
    return copy.deepcopy(USER_SPLICERS.get(libname))


def baseline(libname, write_version):
    key = (libname, write_version)
    if key not in _BASE:
        r = pipeline.run(pipeline.load_yaml(cc.LIBS[libname]), write_version=write_version, splicers=user_splicers(libname))
        texts = cc.file_texts(r)
        _BASE[key] = {f: cc.strip_comments(f, t) for f, t in texts.items() if cc.language_of(f) != "json"}
    return _BASE[key]


class Harness(object):
    def __init__(self, libname, lib_level, decl_index, write_version=False, twin=False):
        self.libname, self.lib_level, self.decl_index = libname, lib_level, decl_index
        self.write_version, self.twin = write_version, twin

    def run(self, e):
        d = pipeline.load_yaml(cc.LIBS[self.libname])
        self.vars = {}
        if self.lib_level:
            opts = d.setdefault("options", {})
            for o in LIB_OPTS:
                v = z3.Bool("lib_" + o)
                self.vars["lib." + o] = v
                opts[o] = SymBool(e, v)
        if self.decl_index is not None:
            node = decl_nodes(d)[self.decl_index]
            self.decl_text = node["decl"]
            opts = node.setdefault("options", {})
            for o in DECL_OPTS:
                v = z3.Bool("decl_" + o)
                self.vars["decl." + o] = v
                opts[o] = SymBool(e, v)
        r = pipeline.run(d, write_version=self.write_version, deep=False, splicers=user_splicers(self.libname))
        return r

    def witness(self, m, what):
        cfg = {k: bool(z3.is_true(m.eval(v, model_completion=True))) for k, v in self.vars.items()}
        return {"library": self.libname, "options": cfg, "decl_index": self.decl_index,
                "decl": getattr(self, "decl_text", None), "write_version": self.write_version, "what": what}

    def judge(self, e, kind, value):
        cls = "%s/%s%s" % (self.libname, "lib" if self.lib_level else "", "" if self.decl_index is None else "+decl%d" % self.decl_index)
        m = e.model()
        if kind == "exc":
            return {"cls": cls, "violation": self.witness(m, "exception %s: %s" % (type(value).__name__, str(value)[:200])),
                    "vkey": "exception:" + type(value).__name__}
        what = compare(self.libname, self.write_version, value)
        if self.twin and not what:
            what = "reachability twin"
        if what:
            return {"cls": cls, "violation": self.witness(m, what), "vkey": what.split(":")[0][:60] + what.split(":")[1][:40] if ":" in what else what[:80]}
        return {"cls": cls, "sample": self.witness(m, None)}


def compare(libname, write_version, res):
    base = baseline(libname, False)
    try:
        texts = cc.file_texts(res)
    except TypeError as ex:
        return "proxy leaked into output: %s" % ex
    got = {f: cc.strip_comments(f, t) for f, t in texts.items() if cc.language_of(f) != "json"}
    if set(got) != set(base):
        return "file set differs: missing %r, extra %r" % (sorted(set(base) - set(got)), sorted(set(got) - set(base)))
    for f in sorted(base):
        d = cc.first_token_diff(base[f], got[f])
        if d:
            return "%s: code differs after comment removal: %s" % (f, d)
    return None


def make(**kw):
    return Harness(**kw)


def confirm(w):
    """Plain run with concrete booleans (no proxies)."""
    d = pipeline.load_yaml(cc.LIBS[w["library"]])
    for k, v in w["options"].items():
        scope, o = k.split(".")
        if scope == "lib":
            d.setdefault("options", {})[o] = v
        else:
            decl_nodes(d)[w["decl_index"]].setdefault("options", {})[o] = v
    try:
        r = pipeline.run(d, write_version=w.get("write_version", False), splicers=user_splicers(w["library"]))
    except Exception as ex:
        return "exception %s: %s" % (type(ex).__name__, ex)
    return compare(w["library"], w.get("write_version", False), r)


def main():
    tier, seed, rp = checklib.tier_and_seed()
    if rp:
        with open(rp) as f:
            w = json.load(f)
        v = confirm(w)
        print("configuration:", json.dumps({k: w[k] for k in ("library", "options", "decl", "write_version")}))
        print("verdict:", v or "property holds on this configuration")
        if v:
            print("VIOLATION property=%s replay=%s" % (PID, rp))
        return 1 if v else 0
    rep = checklib.Report(PID)
    scan = cc.static_is_scan(sorted(set(LIB_OPTS + DECL_OPTS)))
    for ln in scan:
        rep.inconc("identity test on a value this harness makes symbolic: " + ln)
    specs, labels = [], []
    libs = ["geom", "clib", "plain", "nest"] if tier == "quick" else ["geom", "clib", "strs", "plain", "nest"]
    for lib in libs:
        nd = len(decl_nodes(pipeline.load_yaml(cc.LIBS[lib])))
        for wv in (False, True):
            specs.append(("harness.C16", "make", dict(libname=lib, lib_level=True, decl_index=None, write_version=wv)))
            labels.append("%s library-level wv=%s" % (lib, wv))
        for i in range(nd):
            specs.append(("harness.C16", "make", dict(libname=lib, lib_level=(tier == "thorough"), decl_index=i)))
            labels.append("%s decl %d" % (lib, i))
    accs = driver.explore_many(specs, split_depth=3, time_budget_s=600 if tier == "quick" else 4000)
    total = driver.Acc()
    runs = []
    for lab, a in zip(labels, accs):
        total.merge(a)
        runs.append({"exploration": lab, "paths": a.stats.paths, "violations": a.nviol})
        for msg in a.inconclusive:
            rep.inconc("%s: %s" % (lab, msg))
    tw = driver.explore(("harness.C16", "make", dict(libname="clib", lib_level=True, decl_index=None, twin=True)), nworkers=1)
    twin_ok = tw.stats.paths > 0 and tw.nviol == tw.stats.paths and not tw.inconclusive
    if not twin_ok:
        rep.inconc("reachability twin failed %r" % (tw.inconclusive[:1],))
    known = checklib.load_known(PID)
    seen, confirmed = set(), 0
    for i, v in enumerate(total.violations):
        verdict = confirm(v)
        if verdict is None:
            rep.inconc("counterexample did not reproduce with plain booleans: %r" % (v,))
            continue
        confirmed += 1
        key = v.get("_vkey")
        if key in seen:
            continue
        seen.add(key)
        kf = [k for k in known if k.get("status") == "known" and k.get("key") and k["key"] in verdict]
        if kf:
            rep.known_finding("%s (e.g. %s options %r)" % (kf[0]["what_fails"], v["library"], v["options"]))
            continue
        path = checklib.write_replay(PID, "cex%03d" % i, v)
        rep.violation(path, "%s  library=%s options=%r decl=%r [%d paths]" % (verdict, v["library"], v["options"], v["decl"], total.vcount.get(key, 1)))
    samples = []
    for cls, lst in sorted(total.samples.items()):
        samples.extend(lst[:1])
    cov = {
        "explanation": "Each path is one feasible combination of outcomes of the branches the real emitters take on the symbolic "
                       "option values (booleans): the exploration is exhaustive over them and z3's role is feasibility bookkeeping "
                       "of the branch conditions. Every path's complete output (all files, after language-aware comment and "
                       "blank removal) is compared token by token with the all-defaults run.",
        "evaluations": total.stats.paths,
        "distinct_nontrivial": total.stats.paths,
        "samples": samples[:6],
        "exhaustive": True,
        "functions_encoded": ["whole pipeline: ast.create_library_from_dictionary, generate.generate_functions, Wrapc/Wrapf/Wrapp/Wrapl.wrap_library, util.write_output_file/write_lines"],
        "bounds": {"libraries": libs, "library_level_options": LIB_OPTS, "declaration_level_options": DECL_OPTS,
                   "write_version": [False, True], "combined_library_and_declaration": tier == "thorough"},
        "solver": {"name": "z3 " + z3.get_version_string(), "queries": total.stats.queries, "solver_s": round(total.stats.solver_s, 2)},
        "reachability_twin_ok": twin_ok,
        "static_identity_scan_hits": scan,
        "runs": runs,
    }
    assumptions = [
        "library descriptions are the three small libraries in harness/cfg_common.py (C++ with namespace/class/strings/overloads, C, strings/defaults)",
        "library-level literalinclude / literalinclude2 is excluded by the property",
        "comment removal is language-aware (C/C++ // and /* */, Fortran !, Python/YAML #), string literals respected; JSON dumps are not compared",
        "options compared with `is True/False` in Shroud are never made symbolic (static scan on every run)",
    ]
    checklib.write_evidence(PID, tier, seed, "other", cov, assumptions, rep.wall(), len(rep.violations))
    return rep.finish()


if __name__ == "__main__":
    sys.exit(main())
