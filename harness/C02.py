"""C02 - the generated C API of a C++ library is call-equivalent to the C++ API (bounded).

Every extern "C" function Shroud writes for the libraries in gen/libs is compiled to LLVM IR and
executed symbolically against a nondeterministic stub of the wrapped library (harness/wrapsym.py):
the callee symbol, 'this', every argument as the callee receives it, the return value and the
output arguments as the C caller sees them are compared with the reference model of DESIGN.md
appendix A.2 (A.1 for character data); the set of C entry points is compared with the callable
signatures of the declarations.
"""
import json
import os
import re
import sys

import z3

sys.path.insert(0, os.path.dirname(os.path.dirname(os.path.abspath(__file__))))
from engines.shadowsym import driver  # noqa: E402
from harness import ll_common as lc  # noqa: E402
from harness import wrapsym  # noqa: E402
from harness import c10_wrappers as cw  # noqa: E402
from lib import checklib  # noqa: E402

PID = "C02"
BUILDS = [("cls.yaml", "cls.hpp"), ("strs.yaml", "strs.hpp"), ("cstrs.yaml", "cstrs.h"), ("vres.yaml", "vres.hpp")]


def expected_entry_points(build):
    """callable signatures of the declarations -> how many C entry points each must have."""
    out = []
    nodes = []

    def walk(n, cls=None):
        for f in getattr(n, "functions", []):
            nodes.append((f, cls))
        for c in getattr(n, "classes", []):
            walk(c, c)
        for s in getattr(n, "namespaces", []):
            walk(s, None)
    walk(build.library)
    byd = {}
    for f, cls in nodes:
        if f._generated in ("arg_to_cfi", "fortran_generic", "getter/setter"):
            continue
        key = (f.decl, id(cls))
        byd.setdefault(key, []).append(f)
    for (decl, _), fs in byd.items():
        orig = [f for f in fs if not f._generated]
        if not orig:
            continue
        o = orig[0]
        if o.template_arguments or o.have_template_args:
            continue
        ndef = sum(1 for a in (o.ast.params or []) if a.init is not None)
        have = sorted(f.fmtdict.C_name for f in fs if f.wrap.c and f.fmtdict.inlocal("C_name") and f._generated != "arg_to_buffer")
        if not have:
            # no plain C form exists (e.g. std::string by value): the *_bufferify function is the C entry point
            have = sorted(f.fmtdict.C_name for f in fs if f.wrap.c and f.fmtdict.inlocal("C_name"))
        out.append((decl, ndef + 1, have))
    return out


def prototype_verdict(fi):
    """The C prototype's return type against the declaration, for every generated function (also those whose body is
    outside the harness): a result that travels through an argument (result buffer / array context of a string, char or
    vector result) leaves nothing to return, and a void C++ function returns nothing."""
    roles = {r[0] for r in fi.roles() if r}
    ret = fi.ret_c.strip()
    moved = "res_buf" in roles or ("res_context" in roles and fi.result is not None and fi.result.kind() in ("string", "charp", "vector"))
    if moved and ret != "void":
        return "%s hands its result back through an argument but is declared to return '%s' (nothing is returned)" % (fi.cname, ret)
    if fi.result is None and not fi.is_ctor and "res_capsule" not in roles and ret != "void":
        return "%s wraps a function without result but is declared to return '%s'" % (fi.cname, ret)
    return None


def main():
    tier, seed, rp = checklib.tier_and_seed()
    if rp:
        with open(rp) as f:
            w = json.load(f)
        v = cw.replay_wrapper(w) if w.get("kernel") == "wrapper" else confirm_entry(w)
        print("case:", json.dumps({k: w[k] for k in w if k not in ("what",)})[:900])
        print("verdict:", v or "not reproduced natively / property holds on this input")
        if v:
            print("VIOLATION property=%s replay=%s" % (PID, rp))
        return 1 if v else 0
    rep = checklib.Report(PID)
    cap = 3 if tier == "quick" else 6
    specs, labels, skipped = [], [], []
    entry_viol = []
    nentry = 0
    for key in BUILDS:
        try:
            b = lc.get_build(key)
        except Exception as ex:
            rep.inconc("cannot build %s: %s" % (key[0], str(ex)[:300]))
            continue
        infos = wrapsym.collect(b)
        for decl, want, have in expected_entry_points(b):
            nentry += 1
            if len(have) != want:
                entry_viol.append({"kernel": "entry_points", "build": list(key), "decl": decl, "expected": want, "have": have,
                                   "what": "declaration %r has %d callable signatures (default-argument arities) but %d C entry points %r" % (decl, want, len(have), have)})
        for cname in sorted(infos):
            pv = prototype_verdict(infos[cname])
            if pv:
                entry_viol.append({"kernel": "prototype", "build": list(key), "function": cname, "what": pv})
        for cname in sorted(infos):
            h = wrapsym.WrapperHarness(key, cname, cap)
            h.build, h.infos, h.info = b, infos, infos[cname]
            why = h.unsupported_reason()
            if why or wrapsym.module_of(b, cname) is None:
                skipped.append((cname, why or "no IR"))
                continue
            specs.append(("harness.wrapsym", "make", dict(build_key=list(key), cname=cname, cap=cap)))
            labels.append("%s (%s)" % (cname, key[0]))
    accs = driver.explore_many(specs, split_depth=4, time_budget_s=900 if tier == "quick" else 5000, max_decisions=50000)
    total = driver.Acc()
    runs = []
    for lab, a in zip(labels, accs):
        total.merge(a)
        runs.append({"function": lab, "paths": a.stats.paths, "queries": a.stats.queries, "violations": a.nviol})
        for msg in a.inconclusive:
            rep.inconc("%s: %s" % (lab, msg))
    tw = driver.explore(("harness.wrapsym", "make", dict(build_key=list(BUILDS[0]), cname="CLS_ns_overload_0", cap=2, twin=True)), nworkers=1)
    twin_ok = tw.stats.paths > 0 and tw.nviol == tw.stats.paths and not tw.inconclusive
    if not twin_ok:
        rep.inconc("reachability twin failed: %r" % (tw.inconclusive[:1],))
    known = [k for k in checklib.load_known(PID) if k.get("status") == "known"]
    seen, confirmed = set(), 0
    for i, v in enumerate(entry_viol):
        confirmed += 1
        path = checklib.write_replay(PID, "entry%03d" % i, v)
        rep.violation(path, v["what"])
    for i, v in enumerate(total.violations):
        key = v.get("_vkey")
        if key in seen:
            continue
        seen.add(key)
        native = cw.replay_wrapper(v) if can_replay(v) else "(symbolic result; native replay is implemented for the string libraries)"
        if native is None:
            rep.inconc("counterexample did not reproduce natively: %s" % json.dumps(v)[:400])
            continue
        confirmed += 1
        kf = [k for k in known if k["key"] in (v["what"] + " " + v["function"])]
        if kf:
            rep.known_finding("%s (%s)" % (kf[0]["what_fails"], v["function"]))
            continue
        path = checklib.write_replay(PID, "cex%03d" % i, v)
        rep.violation(path, "%s | %s | function=%s [%d paths]" % (v["what"], native[:160], v["function"], total.vcount.get(key, 1)))
    samples = []
    for cls, lst in sorted(total.samples.items()):
        s0 = lst[0]
        samples.append({"function": s0["function"], "inputs": {k: (v if not isinstance(v, dict) else {"size": v["size"]}) for k, v in s0["inputs"].items()}})
    cov = {
        "programs": len(specs),
        "disagreements_checked": confirmed,
        "samples": samples[:10],
        "functions_encoded": labels,
        "outside_the_harness": [{"function": c, "reason": r} for c, r in skipped],
        "entry_point_declarations_checked": nentry,
        "bounds": {"string_capacity": cap, "scalars": "full width, symbolic", "libraries": [k[0] for k in BUILDS]},
        "solver": {"name": "z3 " + z3.get_version_string(), "queries": total.stats.queries, "solver_s": round(total.stats.solver_s, 2)},
        "paths": total.stats.paths,
        "assertions_discharged": total.counters.get("assertions", 0),
        "reachability_twin_ok": twin_ok,
        "runs": runs,
    }
    assumptions = cw.ASSUMPTIONS + [
        "the callee symbol is compared with the declaration by demangled name, scope, arity, const-ness and native parameter types",
        "class instances are opaque 64-byte objects; class arguments/results by value, std::vector, struct arguments, templates and function pointers are outside (listed per function in coverage.outside_the_harness)",
        "exceptions are disabled (-fno-exceptions); allocation never fails",
    ]
    checklib.write_evidence(PID, tier, seed, "translation_validation", cov, assumptions, rep.wall(), len(rep.violations))
    return rep.finish()


def can_replay(v):
    return tuple(v.get("build", ())) in (("strs.yaml", "strs.hpp"), ("cstrs.yaml", "cstrs.h"))


def confirm_entry(w):
    b = lc.get_build(tuple(w["build"]))
    if w.get("kernel") == "prototype":
        fi = wrapsym.collect(b).get(w["function"])
        return prototype_verdict(fi) if fi is not None else None
    for decl, want, have in expected_entry_points(b):
        if decl == w["decl"] and len(have) != want:
            return "declaration %r: %d callable signatures, C entry points %r" % (decl, want, have)
    return None


if __name__ == "__main__":
    sys.exit(main())
