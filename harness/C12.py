"""C12 - user splicer code is carried into the named blocks unchanged.

L1 (kernel): WrapperMixin._create_splicer -> write_lines -> write_continue into memory, then
    splicer.get_splicers (module-global `open` bound to the in-memory text) on the result, with the
    user's lines SymStr proxies (every character a z3 integer).
L2 (pipeline): the whole real generation pipeline (gen/pipeline.py) on small libraries with the
    user's symbolic lines supplied for every splicer block the library has, in C, Fortran, Python
    and Lua outputs; every generated file is read back with get_splicers and regenerated.
"""
import json
import os
import re
import sys
import time

import z3

sys.path.insert(0, os.path.dirname(os.path.dirname(os.path.abspath(__file__))))
from engines.shadowsym.core import Engine, Inconclusive, Unsupported  # noqa: E402
from engines.shadowsym.proxies import SymChar, SymStr, is_space_term  # noqa: E402
from engines.shadowsym import driver  # noqa: E402
from gen import pipeline  # noqa: E402
from lib import checklib  # noqa: E402

PID = "C12"
TAB, FF, NL = 9, 12, 10
META = "#@^+-"


class FP(object):
    def __init__(self):
        self.items = []

    def write(self, x):
        self.items.append(x)


def flatten(items):
    flat = []
    for it in items:
        if isinstance(it, str):
            flat.extend(it)
        elif isinstance(it, SymStr):
            flat.extend(it.c)
        elif isinstance(it, SymChar):
            flat.append(it)
        else:
            raise TypeError("non-string written: %r" % (type(it),))
    return flat


def split_lines(flat):
    lines, cur = [], []
    for ch in flat:
        if isinstance(ch, str) and ch == "\n":
            lines.append(cur)
            cur = []
        else:
            cur.append(ch)
    if cur:
        lines.append(cur)
    return lines


def conc(line):
    """concrete text of a line if it has no symbolic char, else None"""
    if all(isinstance(c, str) for c in line):
        return "".join(line)
    return None


class Judge(object):
    def __init__(self, e):
        self.e = e
        self.fail = None

    def valid(self, claim, what):
        if self.fail:
            return False
        if claim is True:
            return True
        if claim is False:
            self.fail = (what, self.e.model())
            return False
        if self.e.check(z3.Not(claim)) == "sat":
            self.fail = (what, self.e.model(z3.Not(claim)))
            return False
        return True


def ws_term(ch):
    if isinstance(ch, str):
        return ch.isspace()
    return is_space_term(ch.z)


def line_equiv(J, user, out, what):
    """out (emitted / read back line, list of chars) equals the user's line (list of chars) up to
    leading indentation and trailing blanks:  strip(out) == strip(user).

    By provenance the symbolic characters of `out` are the user's own objects, so the claim is:
    out's characters are, in order, a subsequence of the user's; anything concrete that was added
    is blank and sits at the ends; every user character that is missing is blank and has only
    blanks before it or only blanks after it (validity queries over the path condition)."""
    i = 0
    while i < len(out) and isinstance(out[i], str) and out[i].isspace():
        i += 1
    j = len(out)
    while j > i and isinstance(out[j - 1], str) and out[j - 1].isspace():
        j -= 1
    mid = out[i:j]
    pos = 0
    kept = set()
    for b in mid:
        found = None
        for k in range(pos, len(user)):
            a = user[k]
            if (a is b) or (isinstance(a, str) and isinstance(b, str) and a == b):
                found = k
                break
        if found is None:
            return J.valid(False, "%s: text was inserted, altered or reordered" % what)
        kept.add(found)
        pos = found + 1
    n = len(user)
    for k in range(n):
        if k in kept:
            continue
        t = ws_term(user[k])
        before = [ws_term(user[q]) for q in range(k)]
        after = [ws_term(user[q]) for q in range(k + 1, n)]
        if t is False:
            return J.valid(False, "%s: a non-blank character of the user's line was removed" % what)
        def conj(ts):
            ts = [x for x in ts if x is not True]
            if any(x is False for x in ts):
                return False
            return z3.And(ts) if ts else True
        cb, ca = conj(before), conj(after)
        edge = True if (cb is True or ca is True) else (False if (cb is False and ca is False) else
                                                         z3.Or(*[x for x in (cb, ca) if x is not False]))
        claim = edge if t is True else (False if edge is False else (t if edge is True else z3.And(t, edge)))
        if not J.valid(claim, "%s: a character was removed from inside the user's line" % what):
            return False
    return True


def block_equiv(J, user_lines, out_lines, what):
    if len(user_lines) != len(out_lines):
        return J.valid(False, "%s: %d lines supplied, %d lines in the block" % (what, len(user_lines), len(out_lines)))
    for k, (u, o) in enumerate(zip(user_lines, out_lines)):
        if not line_equiv(J, u, o, "%s line %d" % (what, k)):
            return False
    return True


def find_blocks(lines, comment):
    """lines: list of char lists.  Returns dict name -> list of lines between its markers,
    plus list of errors."""
    blocks = {}
    cur = None
    for ln in lines:
        txt = conc(ln)
        if txt is not None:
            m = re.search(r"splicer begin (\S+)", txt)
            if m and cur is None:
                cur = (m.group(1), [])
                continue
            m = re.search(r"splicer end (\S+)", txt)
            if m and cur is not None:
                if m.group(1) != cur[0]:
                    return blocks, "end marker %r closes block %r" % (m.group(1), cur[0])
                blocks.setdefault(cur[0], []).append(cur[1])
                cur = None
                continue
        if cur is not None:
            cur[1].append(ln)
    if cur is not None:
        return blocks, "block %r is not closed" % cur[0]
    return blocks, None


def hint_class(zs):
    """Known-finding class 'layout-hint characters in user text' for one line (z3 term)."""
    n = len(zs)
    CR = 13
    terms = [z3.Or([z == FF for z in zs])] if zs else []
    if zs:
        terms.append(zs[0] == CR)
    for i in range(1, n - 1):
        before = z3.Or([z3.Not(is_space_term(zs[j])) for j in range(i)])
        after = z3.Or([z3.Not(is_space_term(zs[j])) for j in range(i + 1, n)])
        terms.append(z3.And(zs[i] == TAB, before, after))
    for k in range(1, n):
        lead = z3.And([zs[j] == TAB for j in range(k)])
        terms.append(z3.And(lead, z3.Or([zs[k] == ord(c) for c in META])))
    return z3.Or(terms) if terms else False


def trailing_pm_class(zs):
    """Known-finding class: the last non-blank character of the line is + or -."""
    n = len(zs)
    terms = []
    for k in range(n):
        rest_blank = z3.And([is_space_term(zs[j]) for j in range(k + 1, n)]) if k + 1 < n else True
        terms.append(z3.And(z3.Or(zs[k] == ord("+"), zs[k] == ord("-")), rest_blank))
    return z3.Or(terms) if terms else False


def domain(zs_lines):
    """Domain of the property minus the recorded known-finding line shapes."""
    cons = []
    for zs in zs_lines:
        for z in zs:
            cons.append(z3.And(z >= 1, z <= 0x10FFFF, z != NL))
        if not zs:
            continue
        cons.append(z3.And([zs[0] != ord(c) for c in META]))          # column-one metacharacter: outside the property
        cons.append(z3.Not(trailing_pm_class(zs)))                     # known finding
        cons.append(z3.Not(hint_class(zs)))                            # known finding
    return z3.And(cons) if cons else True


class MemIn(object):
    def __init__(self, lines):
        self.lines = lines

    def readlines(self):
        return self.lines

    def __enter__(self):
        return self

    def __exit__(self, *a):
        return False


def read_back(file_lines):
    """Run the real splicer.get_splicers on in-memory lines (lists of chars)."""
    from shroud import splicer
    import shroud.splicer as S
    objs = []
    for ln in file_lines:
        e = next((c.e for c in ln if isinstance(c, SymChar)), None)
        if e is None:
            objs.append("".join(ln) + "\n")
        else:
            objs.append(SymStr(e, ln + ["\n"]))
    out = {}
    S.open = lambda name, mode="r": MemIn(objs)
    try:
        splicer.get_splicers("<memory>", out)
    finally:
        del S.open
    return out


def lookup(d, dotted):
    for part in dotted.split("."):
        if not isinstance(d, dict) or part not in d:
            return None
        d = d[part]
    return d


def chars_of(line):
    if isinstance(line, SymStr):
        return list(line.c)
    return list(line)


# ---------------------------------------------------------------------------- L1 kernel
class _Opt(object):
    show_splicer_comments = True


class _Lib(object):
    options = _Opt()


def mixin(comment, cont, linelen, indent):
    from shroud import util

    class W(util.WrapperMixin):
        pass
    w = W()
    w.newlibrary = _Lib()
    w.comment = comment
    w.cont = cont
    w.linelen = linelen
    w.indent = indent
    return w


class KernelHarness(object):
    """user body of len(shape) lines; line i has shape[i] symbolic characters."""

    def __init__(self, shape, comment, names, combo, indent=1, twin=False, via_file=None):
        """via_file=(marker indentation, chars of text outside the markers): the user's lines are
        supplied in a hand-written splicer file that the real reader (get_splicers) reads first."""
        self.shape, self.comment, self.names, self.combo = tuple(shape), comment, list(names), tuple(combo)
        self.indent, self.twin = indent, twin
        self.via_file = tuple(via_file) if via_file else None

    def mk_lines(self, e):
        self.zs = [[z3.Int("c%d_%d" % (i, k)) for k in range(n)] for i, n in enumerate(self.shape)]
        e.assume(domain(self.zs))
        return [SymStr(e, [SymChar(e, z) for z in zs]) for zs in self.zs]

    def run(self, e):
        user = self.mk_lines(e)
        has_force, has_user, has_default = self.combo
        self.user = user
        self.default = ["default_line();", "  more();"]
        self.force = ["forced();"]
        tree = {}
        d = tree
        for nm in self.names[:-1]:
            d = d.setdefault(nm, {})
        if has_user and self.via_file:
            mi, nout = self.via_file
            self.zout = [[z3.Int("o%d_%d" % (i, k)) for k in range(nout)] for i in range(2)]
            for zs in self.zout:
                for z in zs:
                    e.assume(z3.And(z >= 1, z <= 0x10FFFF, z != NL))
            outside = [[SymChar(e, z) for z in zs] for zs in self.zout]
            dotted = ".".join(self.names)
            flines = [outside[0], list(" " * mi + self.comment + " splicer begin " + dotted)]
            flines += [list(u.c) for u in user]
            flines += [list(" " * mi + self.comment + " splicer end " + dotted), outside[1]]
            tree = read_back(flines)
            self.file_tree = tree
        elif has_user:
            d[self.names[-1]] = user
        cont = " &" if self.comment == "!" else ""
        w = mixin(self.comment, cont, 72, self.indent)
        w._init_splicer(tree)
        for nm in self.names[:-1]:
            w._push_splicer(nm)
        out = ["before();"]
        w._create_splicer(self.names[-1], out, default=self.default if has_default else None,
                          force=self.force if has_force else None)
        out.append("after();")
        for nm in reversed(self.names[:-1]):
            w._pop_splicer(nm)
        fp = FP()
        w.write_lines(fp, out)
        lines = split_lines(flatten(fp.items))
        rb = read_back(lines)
        # second generation from what was read back
        w2 = mixin(self.comment, cont, 72, self.indent)
        w2._init_splicer(rb)
        for nm in self.names[:-1]:
            w2._push_splicer(nm)
        out2 = ["before();"]
        w2._create_splicer(self.names[-1], out2, default=self.default if has_default else None,
                           force=self.force if has_force else None)
        out2.append("after();")
        fp2 = FP()
        w2.write_lines(fp2, out2)
        lines2 = split_lines(flatten(fp2.items))
        return lines, rb, lines2

    def witness(self, m, what):
        body = ["".join(chr(m.eval(z, model_completion=True).as_long()) for z in zs) for zs in self.zs]
        w = {"level": "kernel", "user_lines": body, "comment": self.comment, "names": self.names,
             "combo": list(self.combo), "indent": self.indent, "what": what}
        if self.via_file and self.combo[1]:
            w["via_file"] = list(self.via_file)
            w["outside"] = ["".join(chr(m.eval(z, model_completion=True).as_long()) for z in zs) for zs in self.zout]
        return w

    def judge(self, e, kind, value):
        cls = "kernel/%s/%s" % (self.comment, "".join("FUD"[i] if c else "-" for i, c in enumerate(self.combo)))
        if kind == "exc":
            w = self.witness(e.model(), "exception %s: %s" % (type(value).__name__, str(value)[:160]))
            return {"cls": cls, "violation": w, "vkey": "exception:" + type(value).__name__}
        lines, rb, lines2 = value
        J = Judge(e)
        has_force, has_user, has_default = self.combo
        name = ".".join(self.names)
        user = [chars_of(u) for u in self.user]
        expect = [list(s) for s in self.force] if has_force else user if has_user else \
            [list(s) for s in self.default] if has_default else []
        blocks, err = find_blocks(lines, self.comment)
        if has_user and self.via_file:
            got0 = lookup(self.file_tree, name)
            top = self.file_tree
            only = True
            for nm in self.names:
                only = only and isinstance(top, dict) and list(top) == [nm]
                top = top.get(nm) if isinstance(top, dict) else None
            if got0 is None:
                J.valid(False, "block %r not found by the splicer file reader" % name)
            elif not only:
                J.valid(False, "the splicer file reader produced entries from text outside the markers")
            else:
                block_equiv(J, user, [chars_of(g) for g in got0], "block as read from the splicer file")
        if J.fail:
            pass
        elif err:
            J.valid(False, err)
        elif list(blocks) != [name] or len(blocks[name]) != 1:
            J.valid(False, "expected exactly one block %r, found %r" % (name, list(blocks)))
        else:
            if block_equiv(J, expect, blocks[name][0], "emitted block"):
                got = lookup(rb, name)
                if got is None:
                    J.valid(False, "block %r missing after reading the generated text back" % name)
                elif block_equiv(J, expect, [chars_of(g) for g in got], "read-back block"):
                    b2, err2 = find_blocks(lines2, self.comment)
                    if err2 or name not in b2:
                        J.valid(False, "regeneration from the read-back splicers lost block %r" % name)
                    else:
                        block_equiv(J, expect, b2[name][0], "regenerated block")
        if self.twin and not J.fail:
            J.valid(False, "reachability twin")
        if J.fail:
            what, m = J.fail
            return {"cls": cls, "violation": self.witness(m, what), "vkey": re.sub(r"\d+", "N", what)[:90]}
        return {"cls": cls, "sample": self.witness(e.model(), None)}


def make_kernel(**kw):
    return KernelHarness(**kw)


# ---------------------------------------------------------------------------- L2 pipeline
LIBS = {
    "geom": """
library: geom
cxx_header: geom.hpp
options:
  wrap_python: true
  wrap_lua: true
  show_splicer_comments: true
declarations:
- decl: namespace shapes
  declarations:
  - decl: class Circle
    declarations:
    - decl: Circle()
    - decl: ~Circle()
    - decl: double area(double scale = 1.0) const
    - decl: void setName(const std::string &name)
  - decl: int count(int n)
  - decl: namespace detail
    declarations:
    - decl: int depth(int n)
- decl: template<typename T> class Box
  cxx_template:
  - instantiation: <int>
  - instantiation: <double>
  options:
    wrap_python: false
    wrap_lua: false
  declarations:
  - decl: Box()
  - decl: T get() const
- decl: const std::string getName()
- decl: enum Color { RED, BLUE }
- decl: template<typename T> int measure(T value)
  cxx_template:
  - instantiation: <int>
  - instantiation: <double>
""",
    # namespaces flattened into the library's Fortran module (block-name clause only)
    "flat": """
library: flt
cxx_header: flt.hpp
options:
  F_flatten_namespace: true
declarations:
- decl: namespace ns1
  declarations:
  - decl: void g1(const std::string &s)
  - decl: class C2
    declarations:
    - decl: void m1(const std::string &s)
  - decl: namespace ns2
    declarations:
    - decl: void h1(const std::string &s)
- decl: namespace ns3
  declarations:
  - decl: void k1(const std::string &s)
""",
    "clib": """
library: clib
language: c
options:
  wrap_python: true
  show_splicer_comments: true
declarations:
- decl: int add(int a, int b)
- decl: void fill(char *name +intent(out)+charlen(20))
- decl: struct Pt { int x; double y; }
""",
}


def group_of(fname):
    b = os.path.basename(fname)
    if b.startswith("wrapf") or b.endswith(".f"):
        return "f"
    if b.startswith("lua"):
        return "lua"
    if b.startswith("py") or b == "setup.py":
        return "py"
    if b.endswith((".h", ".hpp", ".c", ".cpp")):
        return "c"
    return None


def comment_of(fname):
    return "!" if fname.endswith(".f") else "#" if fname.endswith((".py", ".yaml")) else "//"


_DEFAULTS = {}


def default_run(libname):
    if libname not in _DEFAULTS:
        r = pipeline.run(pipeline.load_yaml(LIBS[libname]))
        info = {}
        for fname, pieces in r.files.items():
            g = group_of(fname)
            if g is None:
                continue
            blocks, err = find_blocks(split_lines(flatten(pieces)), comment_of(fname))
            if err:
                raise RuntimeError("default run of %s: %s in %s" % (libname, err, fname))
            info[fname] = (g, {k: v for k, v in blocks.items()})
        _DEFAULTS[libname] = info
    return _DEFAULTS[libname]


def scope_components(libname):
    """Names of the namespaces and of the classes / structs (a class template also under its instantiated names) the
    library declares."""
    ns, cls = set(), set()

    def walk(decls):
        for d in decls or []:
            text = d.get("decl", "") if isinstance(d, dict) else ""
            m = re.match(r"^\s*namespace\s+(\w+)", text)
            if m:
                ns.add(m.group(1))
            m = re.match(r"^\s*(?:template\s*<[^>]*>\s*)?(?:class|struct)\s+(\w+)", text)
            if m:
                cls.add(m.group(1))
                for inst in d.get("cxx_template", []) or []:
                    args = re.findall(r"\w+", inst.get("instantiation", ""))
                    cls.add(m.group(1) + "_" + "_".join(args))
            if isinstance(d, dict):
                walk(d.get("declarations"))
    walk(pipeline.load_yaml(LIBS[libname]).get("declarations"))
    return ns, cls


def name_shape_verdict(libname):
    """Block names are paths: `namespace.<N>.` and `class.<C>.` components for the scopes the block lies in, then the
    block's own name (docs/splicers: e.g. class.Circle.method.area, namespace.shapes.function.count).  A user file written
    with those names must find its blocks, so in every generated file each `namespace` / `class` keyword is followed by
    a declared name of that kind and a declared scope name does not occur without its keyword."""
    ns, cls = scope_components(libname)
    # function name -> the namespaces it is declared in (outermost first), for names declared once
    where = {}

    def walk(decls, path):
        for d in decls or []:
            if not isinstance(d, dict):
                continue
            text = d.get("decl", "")
            m = re.match(r"^\s*namespace\s+(\w+)", text)
            if m:
                walk(d.get("declarations"), path + [m.group(1)])
                continue
            if re.match(r"^\s*(?:template\s*<[^>]*>\s*)?(?:class|struct)\s+\w+", text):
                walk(d.get("declarations"), path)
                continue
            m = re.search(r"(\w+)\s*\(", text)
            if m:
                where.setdefault(m.group(1), []).append(path)
            walk(d.get("declarations"), path)
    walk(pipeline.load_yaml(LIBS[libname]).get("declarations"), [])
    for fname, (g, blocks) in sorted(default_run(libname).items()):
        for name in sorted(blocks):
            parts = name.split(".")
            if len(parts) >= 2 and parts[-2] in ("function", "method") and g != "lua":
                # (the Lua module has one flat table per class and names no namespaces in its paths)
                cands = [f for f in where if parts[-1] == f or parts[-1].startswith(f + "_")]
                if len(cands) == 1 and len(where[cands[0]]) == 1:
                    said = [q for k_ in range(len(parts) - 1) if parts[k_] == "namespace" for q in parts[k_ + 1].split("::")]
                    if said != where[cands[0]][0]:
                        return "%s: block %s lies in the namespaces %r, but %s is declared in %r" % (
                            os.path.basename(fname), name, said, cands[0], where[cands[0]][0])
            i = 0
            while i + 1 < len(parts) and parts[i] in ("namespace", "class"):
                pool = ns if parts[i] == "namespace" else cls
                if parts[i + 1] not in pool and not (parts[i] == "namespace" and all(q in ns for q in parts[i + 1].split("::"))):
                    return "%s: block %s: %r follows the keyword %r but the library declares no such %s" % (
                        os.path.basename(fname), name, parts[i + 1], parts[i], parts[i])
                i += 2
            if i < len(parts) - 1 and parts[i] in (ns | cls):
                return "%s: block %s: the scope name %r stands in the path without its namespace / class keyword" % (
                    os.path.basename(fname), name, parts[i])
    return None


def nest(names_to_lines):
    tree = {}
    for dotted, lines in names_to_lines.items():
        d = tree
        parts = dotted.split(".")
        ok = True
        for p in parts[:-1]:
            d = d.setdefault(p, {})
            if not isinstance(d, dict):
                ok = False
                break
        if ok and not isinstance(d.get(parts[-1]), dict):
            d[parts[-1]] = lines
    return tree


class PipelineHarness(object):
    def __init__(self, libname, shape, subset, twin=False):
        self.libname, self.shape, self.subset, self.twin = libname, tuple(shape), subset, twin

    def run(self, e):
        self.zs = [[z3.Int("c%d_%d" % (i, k)) for k in range(n)] for i, n in enumerate(self.shape)]
        e.assume(domain(self.zs))
        user = [SymStr(e, [SymChar(e, z) for z in zs]) for zs in self.zs]
        self.user = user
        info = default_run(self.libname)
        supplied = {"c": {}, "f": {}, "py": {}, "lua": {}}
        self.supplied_names = {}
        for fname, (g, blocks) in sorted(info.items()):
            for i, name in enumerate(sorted(blocks)):
                if self.subset == "all" or (self.subset == "even") == (i % 2 == 0):
                    supplied[g][name] = user
                    self.supplied_names.setdefault(g, set()).add(name)
        splicers = {g: nest(v) for g, v in supplied.items()}
        r1 = pipeline.run(pipeline.load_yaml(LIBS[self.libname]), splicers=splicers)
        files1 = {f: split_lines(flatten(p)) for f, p in r1.files.items() if group_of(f)}
        # read every generated file back as a splicer file, regenerate from that
        rb = {"c": {}, "f": {}, "py": {}, "lua": {}}
        from shroud import splicer
        import shroud.splicer as S
        self.rb_err = None
        self.rb_dup = None
        self.rb_dups = {}
        for f, lines in sorted(files1.items()):
            g = group_of(f)
            objs = []
            for ln in lines:
                ee = next((c.e for c in ln if isinstance(c, SymChar)), None)
                objs.append("".join(ln) + "\n" if ee is None else SymStr(ee, ln + ["\n"]))
            S.open = lambda name, mode="r", _o=objs: MemIn(_o)
            try:
                tmp = {}
                try:
                    splicer.get_splicers(f, tmp)     # one generated file fed back on its own
                except RuntimeError as ex:
                    self.rb_err = "generated file %s cannot be fed back as a splicer file: %s" % (f, ex)
                    continue
                dup = merge_missing(rb[g], tmp, dups=self.rb_dups.setdefault(g, set()))
                if dup and self.rb_err is None:
                    self.rb_dup = (f, dup)
            finally:
                del S.open
        r2 = pipeline.run(pipeline.load_yaml(LIBS[self.libname]), splicers=rb)
        files2 = {f: split_lines(flatten(p)) for f, p in r2.files.items() if group_of(f)}
        return files1, rb, files2

    def witness(self, m, what):
        body = ["".join(chr(m.eval(z, model_completion=True).as_long()) for z in zs) for zs in self.zs]
        return {"level": "pipeline", "library": self.libname, "user_lines": body, "subset": self.subset, "what": what}

    def judge(self, e, kind, value):
        cls = "pipeline/%s/%s" % (self.libname, self.subset)
        if kind == "exc":
            w = self.witness(e.model(), "exception %s: %s" % (type(value).__name__, str(value)[:200]))
            return {"cls": cls, "violation": w, "vkey": "exception:" + type(value).__name__}
        files1, rb, files2 = value
        J = Judge(e)
        if self.rb_err:
            J.valid(False, self.rb_err)
        info = default_run(self.libname)
        user = [chars_of(u) for u in self.user]
        nblocks = 0
        for fname, (g, dblocks) in sorted(info.items()):
            if J.fail:
                break
            if fname not in files1:
                J.valid(False, "file %s is no longer generated when splicers are supplied" % fname)
                break
            for gen_name, files in (("generated", files1), ("regenerated", files2)):
                blocks, err = find_blocks(files[fname], comment_of(fname)) if fname in files else ({}, "file missing")
                if err:
                    J.valid(False, "%s %s: %s" % (gen_name, fname, err))
                    break
                if set(blocks) != set(dblocks):
                    J.valid(False, "%s %s: block names changed: missing %r, extra %r" % (
                        gen_name, fname, sorted(set(dblocks) - set(blocks))[:3], sorted(set(blocks) - set(dblocks))[:3]))
                    break
                for name in sorted(dblocks):
                    occ = blocks[name]
                    if len(occ) > 1 and gen_name == "generated":
                        # two blocks of one name in one file: user code for one cannot be told from the other
                        J.valid(False, "%s %s: block %s occurs %d times in this file" % (gen_name, fname, name, len(occ)))
                        break
                    if len(occ) != len(dblocks[name]):
                        J.valid(False, "%s %s: block %s occurs %d times, %d by default" % (gen_name, fname, name, len(occ), len(dblocks[name])))
                        break
                    for k, body in enumerate(occ):
                        nblocks += 1
                        if name in self.supplied_names.get(g, ()):
                            expect = user
                        else:
                            expect = dblocks[name][k]
                            if gen_name == "regenerated" and name in self.rb_dups.get(g, ()):
                                continue        # one name in two generated files (known finding, replayed in main)
                        if not block_equiv(J, [strip_cont(x) for x in expect], [strip_cont(x) for x in body],
                                           "%s %s block %s" % (gen_name, fname, name)):
                            break
                    if J.fail:
                        break
                if J.fail:
                    break
        if not J.fail:
            for g, names in self.supplied_names.items():
                for name in sorted(names):
                    got = lookup(rb[g], name)
                    if got is None or isinstance(got, dict):
                        J.valid(False, "reading the generated files back does not yield block %s/%s" % (g, name))
                        break
                    if not block_equiv(J, user, [chars_of(x) for x in got], "read-back %s/%s" % (g, name)):
                        break
                if J.fail:
                    break
        if self.twin and not J.fail:
            J.valid(False, "reachability twin")
        if J.fail:
            what, m = J.fail
            return {"cls": cls, "violation": self.witness(m, what), "vkey": re.sub(r"\d+", "N", what)[:90]}
        return {"cls": cls, "sample": self.witness(e.model(), None), "counters": {"blocks_checked": nblocks}}


def strip_cont(line):
    return line


# ---------------------------------------------------------------------------- L3 splicers on a declaration
DECL_KEYS = ["c", "c_buf", "f", "py"]


FORMS = ["list", "text", "text+newline", "list+blank"]


class DeclSplicerHarness(object):
    """Every function declaration of the library carries `splicer: {c:, c_buf:, f:, py:}` with four different
    symbolic lines, while file-level splicers with other text are supplied for every block: the body of each
    emitted function must hold the line of ITS key (declaration beats file): c in the plain C wrapper, c_buf in
    the *_bufferify wrapper, f in the Fortran procedure, py in the Python function.  The block is located
    through the function that contains it (the name Shroud documents for that wrapper), not through its own name."""

    def __init__(self, libname, n=2, twin=False):
        self.libname, self.n, self.twin = libname, n, twin

    def run(self, e):
        self.zs = {k: [z3.Int("d%s_%d" % (k, i)) for i in range(self.n)] for k in DECL_KEYS}
        e.assume(domain(list(self.zs.values())))
        # the four lines differ (first characters pairwise distinct), so a swapped body is visible
        firsts = [self.zs[k][0] for k in DECL_KEYS]
        e.assume(z3.Distinct(*firsts))
        for z in firsts:
            e.assume(z3.Not(is_space_term(z)))
        self.user = {k: SymStr(e, [SymChar(e, z) for z in self.zs[k]]) for k in DECL_KEYS}
        d = pipeline.load_yaml(LIBS[self.libname])

        # the YAML value of a splicer may be a list of lines, or one text (plain scalar / '|-' block: no final newline;
        # '|' block: final newline)
        fz = z3.Int("splicer_value_form")
        e.assume(z3.And(fz >= 0, fz <= 3))
        self.form = FORMS[e.choose(fz)]

        def value_of(k):
            if self.form == "list":
                return [self.user[k]]
            if self.form == "list+blank":
                # an empty list item (YAML gives None) is a blank line of the user's code
                return [self.user[k], None, "tail_line();"]
            return self.user[k] if self.form == "text" else self.user[k] + "\n"

        def visit(node):
            for sub in node.get("declarations") or []:
                t = sub.get("decl", "")
                if t and not re.match(r"\s*(class|namespace|enum|struct|typedef)\b", t):
                    sub["splicer"] = {k: value_of(k) for k in DECL_KEYS}
                visit(sub)
        visit(d)
        info = default_run(self.libname)
        supplied = {"c": {}, "f": {}, "py": {}, "lua": {}}
        for fname, (g, blocks) in sorted(info.items()):
            for name in blocks:
                supplied[g][name] = ["file_level_text();"]
        # shroud.ast.listify asks isinstance(value, str): the module-global name `str` is bound to a class that also
        # accepts the string proxy (and converts like str)
        import builtins
        import shroud.ast as A

        class _StrMeta(type):
            def __instancecheck__(cls, o):
                return isinstance(o, (builtins.str, SymStr))

            def __call__(cls, *a, **k):
                return builtins.str(*a, **k)

        class StrLike(metaclass=_StrMeta):
            pass
        A.str = StrLike
        try:
            return pipeline.run(d, splicers={g: nest(v) for g, v in supplied.items()}, deep=False)
        finally:
            del A.str

    def witness(self, m, what):
        body = {k: "".join(chr(m.eval(z, model_completion=True).as_long()) for z in zs) for k, zs in self.zs.items()}
        return {"level": "declaration", "library": self.libname, "user_lines": [body[k] for k in DECL_KEYS], "keys": DECL_KEYS, "what": what,
                "form": getattr(self, "form", "list")}

    def body_in_function(self, lines, head_rx, comment):
        """lines of the first splicer block after the first line matching head_rx (a function's heading)"""
        start = None
        for i, ln in enumerate(lines):
            t = conc(ln)
            if t is not None and head_rx.search(t):
                start = i
                break
        if start is None:
            return None
        body, inside = [], False
        for ln in lines[start + 1:]:
            t = conc(ln)
            if t is not None and "splicer begin" in t and not inside:
                inside = True
                continue
            if t is not None and "splicer end" in t and inside:
                return body
            if inside:
                body.append(ln)
            elif t is not None and re.match(r"^\}|^\s*end (function|subroutine)\b", t):
                return None
        return None

    def judge(self, e, kind, value):
        cls = "declaration/%s" % self.libname
        if kind == "exc":
            w = self.witness(e.model(), "exception %s: %s" % (type(value).__name__, str(value)[:200]))
            return {"cls": cls, "violation": w, "vkey": "exception:" + type(value).__name__}
        r = value
        J = Judge(e)
        files = {f: split_lines(flatten(p)) for f, p in r.files.items() if group_of(f)}
        nodes = []

        def walk(n):
            for f in getattr(n, "functions", []):
                nodes.append(f)
            for c in list(getattr(n, "classes", [])) + list(getattr(n, "namespaces", [])):
                walk(c)
        walk(r.library)
        nchecked = 0
        for f in nodes:
            if J.fail:
                break
            if not f.splicer:
                continue
            fmt = f.fmtdict
            todo = []
            if f.wrap.c and fmt.inlocal("C_name"):
                key = "c_buf" if f._generated == "arg_to_buffer" else "c"
                todo.append(("c", key, re.compile(r"^[A-Za-z_][\w \*]*\b%s\(" % re.escape(fmt.C_name)), "C function %s" % fmt.C_name))
            if f.wrap.fortran and fmt.inlocal("F_name_impl"):
                todo.append(("f", "f", re.compile(r"(?i)^\s*(?:[\w()=, ]*\s)?(function|subroutine)\s+%s\(" % re.escape(fmt.F_name_impl)),
                             "Fortran procedure %s" % fmt.F_name_impl))
            if f.wrap.python and fmt.inlocal("PY_name_impl"):
                todo.append(("py", "py", re.compile(r"^%s\($" % re.escape(fmt.PY_name_impl)), "Python function %s" % fmt.PY_name_impl))
            for g, key, rx, label in todo:
                found = None
                for fname, lines in sorted(files.items()):
                    if group_of(fname) != g or fname.endswith(".h"):
                        continue
                    body = self.body_in_function(lines, rx, comment_of(fname))
                    if body is not None:
                        found = body
                        break
                if found is None:
                    if g == "c":
                        J.valid(False, "%s (declared with a splicer) has no body block in the C output" % label)
                        break
                    if g == "f" and not f._generated and f._PTR_F_C_index is None:
                        # a declaration that carries an 'f' splicer gets a Fortran procedure to hold it, whether or not it
                        # would need one otherwise
                        J.valid(False, "%s (declared with an 'f' splicer) has no body block in the Fortran output" % label)
                        break
                    continue
                nchecked += 1
                want = [chars_of(self.user[key])] + ([[], list("tail_line();")] if self.form == "list+blank" else [])
                if not block_equiv(J, want, found, "%s: body of the declaration's '%s' splicer" % (label, key)):
                    break
        if self.twin and not J.fail:
            J.valid(False, "reachability twin")
        if J.fail:
            what, m = J.fail
            return {"cls": cls, "violation": self.witness(m, what), "vkey": re.sub(r"\d+", "N", what)[:90]}
        return {"cls": cls, "sample": self.witness(e.model(), None), "counters": {"blocks_checked": nchecked}}


def make_decl(**kw):
    return DeclSplicerHarness(**kw)


# ---------------------------------------------------------------------------- L4 splicer files named in the YAML file
SUPPLY_EXT = {"c": [".c", ".cpp", ".h", ".hpp", ".txt"], "f": [".f", ".f90", ".txt"],
              "py": [".c", ".cpp", ".h", ".py", ".txt"], "lua": [".c", ".cpp", ".lua", ".txt"]}


# documented suffixes of splicer files named on the command line (the suffix decides the group)
CMD_EXT = {"c": [".c", ".h", ".cpp", ".hpp", ".cxx", ".hxx", ".cc", ".C"], "f": [".f", ".f90"], "py": [".py"], "lua": [".lua"]}


class SupplyHarness(object):
    """`splicer: {c: [...], f: [...], py: [...], lua: [...]}` in the YAML file, through the real main_with_args on
    temporary files: a file listed under a group supplies that group whatever its extension is (the engine picks
    the extension); the other groups keep their defaults.  Bodies are concrete here (they come from disk)."""

    def __init__(self, libname, group, twin=False, via="yaml"):
        self.libname, self.group, self.twin, self.via = libname, group, twin, via

    def run(self, e):
        from harness import C14
        exts = SUPPLY_EXT[self.group] if self.via == "yaml" else CMD_EXT[self.group]
        v = z3.Int("ext")
        e.assume(z3.And(v >= 0, v < len(exts)))
        self.ext = exts[e.choose(v)]
        info = default_run(self.libname)
        self.block = None
        for fname, (g, blocks) in sorted(info.items()):
            if g == self.group:
                cand = sorted(b for b in blocks if b.startswith("function.") or ".method." in b)
                if cand:
                    self.block, self.comment = cand[0], comment_of(fname)
                    # a second block of the same file whose name shares the first component (function. / class.)
                    same = [b for b in cand[1:] if b.split(".")[0] == cand[0].split(".")[0]]
                    self.block2 = same[-1] if same else None
                    break
        if self.block is None:
            raise Unsupported("no function block in group %s of %s" % (self.group, self.libname))
        fn = "user_%s%s" % (self.group, self.ext)
        body = "%s splicer begin %s\nTAG_%s();\n%s splicer end %s\n" % (self.comment, self.block, self.group, self.comment, self.block)
        d = pipeline.load_yaml(LIBS[self.libname])
        names = [fn]
        tmpfiles = {fn: body}
        # the user's code may be spread over several files of one group: a second file (before or after the first) supplies
        # another block whose name begins with the same component
        self.second = 0
        if self.block2 is not None:
            sv = z3.Int("second_file")
            e.assume(z3.And(sv >= 0, sv <= 3))
            self.second = e.choose(sv)
        if self.second == 3:
            # the second block is stated in the YAML file itself (splicer_code), next to the file that supplies the first
            d["splicer_code"] = {self.group: nest({self.block2: ["TAG2_%s();" % self.group]})}
        elif self.second:
            fn2 = "more_%s%s" % (self.group, self.ext)
            tmpfiles[fn2] = "%s splicer begin %s\nTAG2_%s();\n%s splicer end %s\n" % (self.comment, self.block2, self.group, self.comment, self.block2)
            names = [fn, fn2] if self.second == 1 else [fn2, fn]
        if self.via == "yaml":
            d["splicer"] = {self.group: names}
        import yaml
        text = yaml.safe_dump(d)
        return run_main_with_files(text, tmpfiles, names if self.via == "cmdline" else [])

    def witness(self, what):
        return {"level": "yaml-splicer-file", "via": self.via, "library": self.libname, "group": self.group, "extension": self.ext,
                "block": self.block, "user_lines": ["TAG_%s();" % self.group], "second_file": getattr(self, "second", 0),
                "second_block": getattr(self, "block2", None), "what": what}

    def judge(self, e, kind, value):
        cls = "supply/%s/%s" % (self.libname, self.group)
        if kind == "exc":
            return {"cls": cls, "violation": self.witness("exception %s: %s" % (type(value).__name__, str(value)[:200])),
                    "vkey": "exception:" + type(value).__name__}
        fail = None
        info = default_run(self.libname)
        seen = False
        seen2 = False
        for f, p in value.files.items():
            g = group_of(f)
            if g is None:
                continue
            blocks, err = find_blocks(split_lines(flatten(p)), comment_of(f))
            if err:
                fail = "%s: %s" % (f, err)
                break
            for name, occ in blocks.items():
                for body in occ:
                    txt = ["".join(ln).strip() for ln in body]
                    if g == self.group and name == self.block:
                        seen = True
                        if txt != ["TAG_%s();" % self.group]:
                            fail = "block %s of the %s output does not hold the body from the file listed under '%s:' (%s): %r" % (
                                name, g, self.group, self.ext, txt[:3])
                    elif self.second and g == self.group and name == self.block2:
                        seen2 = True
                        if txt != ["TAG2_%s();" % self.group]:
                            fail = "block %s of the %s output does not hold the body from the second %s file (%s; files given as %s): %r" % (
                                name, g, self.group, self.ext, {1: "first, second", 2: "second, first", 3: "a file and splicer_code"}[self.second], txt[:3])
                    elif any(t.startswith("TAG") for t in txt):
                        fail = "the body supplied for group %s appears in %s block %s" % (self.group, g, name)
            if fail:
                break
        if not fail and not seen:
            fail = "block %s is missing from the %s output" % (self.block, self.group)
        if not fail and self.second and not seen2:
            fail = "block %s is missing from the %s output" % (self.block2, self.group)
        if self.twin and not fail:
            fail = "reachability twin"
        if fail:
            return {"cls": cls, "violation": self.witness(fail), "vkey": re.sub(r"\d+", "N", fail)[:80]}
        return {"cls": cls, "sample": self.witness(None)}


def run_main_with_files(yaml_text, extra_files, more_filenames=()):
    """the real main_with_args on a temporary directory holding lib.yaml and the given files; output in memory"""
    import argparse
    import shutil
    import tempfile
    from shroud import main as smain
    import shroud.util as U
    tmp = tempfile.mkdtemp(prefix="c12_")
    cwd = os.getcwd()
    files = {}
    try:
        os.chdir(tmp)
        with open("lib.yaml", "w") as f:
            f.write(yaml_text)
        for n, t in extra_files.items():
            with open(n, "w") as f:
                f.write(t)

        def mem_open(path, mode="r", *a, **k):
            if "w" in mode:
                return pipeline.MemFile(files, path)
            return open(path, mode, *a, **k)
        U.open = mem_open
        U.print = lambda *a, **k: None
        pipeline._restore_tables()
        from shroud import wrapc, wrapp
        wrapc.Wrapc.capsule_code, wrapc.Wrapc.capsule_order, wrapc.Wrapc.capsule_include = {}, [], {}
        wrapp.Wrapp.capsule_code, wrapp.Wrapp.capsule_order = {}, []
        try:
            args = argparse.Namespace(cmake="", cfiles="", ffiles="", filename=["lib.yaml"] + list(more_filenames), logdir="", outdir="",
                                      outdir_c_fortran="", outdir_lua="", outdir_python="", outdir_yaml="", path=[],
                                      write_helpers="", write_statements="", yaml_types="", write_version=False,
                                      option=[], language=None)
            smain.main_with_args(args)
        finally:
            del U.open
            del U.print
    finally:
        os.chdir(cwd)
        shutil.rmtree(tmp, ignore_errors=True)
    r = pipeline.Result()
    r.files = files
    return r


def make_supply(**kw):
    return SupplyHarness(**kw)


# ---------------------------------------------------------------------------- L5 blocks of files that are empty by default
EMPTY_LIB = """
library: geom
cxx_header: geom.hpp
options:
  wrap_python: false
  wrap_lua: false
  show_splicer_comments: true
declarations:
- decl: class Marker
- decl: namespace tools
  declarations:
  - decl: class Probe
- decl: int count(int n)
"""
EMPTY_BLOCKS = ["class.Marker.C_definitions", "class.Marker.CXX_definitions",
                "namespace.tools.class.Probe.C_definitions", "namespace.tools.class.Probe.CXX_definitions"]


class EmptyFileHarness(object):
    """A class without wrapped members has no implementation file by default; user code supplied for one of that
    file's blocks (engine-chosen, one symbolic line) must still come out between that block's markers."""

    def __init__(self, n=2, twin=False):
        self.n, self.twin = n, twin

    def run(self, e):
        self.zs = [[z3.Int("c0_%d" % k) for k in range(self.n)]]
        e.assume(domain(self.zs))
        self.user = [SymStr(e, [SymChar(e, z) for z in self.zs[0]])]
        v = z3.Int("block")
        e.assume(z3.And(v >= 0, v < len(EMPTY_BLOCKS)))
        self.block = EMPTY_BLOCKS[e.choose(v)]
        return pipeline.run(pipeline.load_yaml(EMPTY_LIB), splicers={"c": nest({self.block: self.user})})

    def witness(self, m, what):
        body = ["".join(chr(m.eval(z, model_completion=True).as_long()) for z in zs) for zs in self.zs]
        return {"level": "empty-file", "block": self.block, "user_lines": body, "what": what}

    def judge(self, e, kind, value):
        cls = "empty-file"
        if kind == "exc":
            return {"cls": cls, "violation": self.witness(e.model(), "exception %s: %s" % (type(value).__name__, str(value)[:200])), "vkey": "empty:exc"}
        J = Judge(e)
        found = None
        for f, p in sorted(value.files.items()):
            if group_of(f) != "c":
                continue
            blocks, err = find_blocks(split_lines(flatten(p)), comment_of(f))
            if err:
                J.valid(False, "%s: %s" % (f, err))
                break
            if self.block in blocks:
                found = blocks[self.block]
        if not J.fail:
            if not found:
                J.valid(False, "user code for block %s is not in any generated file (the file that holds it was not written)" % self.block)
            elif len(found) != 1:
                J.valid(False, "block %s occurs %d times" % (self.block, len(found)))
            else:
                block_equiv(J, [chars_of(u) for u in self.user], found[0], "block %s" % self.block)
        if self.twin and not J.fail:
            J.valid(False, "reachability twin")
        if J.fail:
            what, m = J.fail
            return {"cls": cls, "violation": self.witness(m, what), "vkey": "empty:" + re.sub(r"\d+", "N", what)[:70]}
        return {"cls": cls, "sample": self.witness(e.model(), None)}


def make_empty(**kw):
    return EmptyFileHarness(**kw)


def merge_missing(dst, src, path="", dups=None):
    """merge src into dst; returns the first block name present in both (or None); all of them go to `dups`"""
    dup = None
    for k, v in src.items():
        if isinstance(v, dict):
            d = merge_missing(dst.setdefault(k, {}), v, path + k + ".", dups)
            dup = dup or d
        elif k not in dst:
            dst[k] = v
        else:
            dup = dup or (path + k)
            if dups is not None:
                dups.add(path + k)
    return dup


def template_splicer_collision():
    """Known finding: the C wrappers of all instantiations of one class template name their blocks after the template
    (class.Box.method.get in wrapBox_int.cpp and in wrapBox_double.cpp), so generated files fed back as splicer files
    cannot keep the instantiations apart.  Returns the shared names."""
    r = pipeline.run(pipeline.load_yaml(LIBS["geom"]))
    where = {}
    for f, p in r.files.items():
        if group_of(f) != "c":
            continue
        blocks, err = find_blocks(split_lines(flatten(p)), comment_of(f))
        for name in blocks or {}:
            where.setdefault(name, set()).add(os.path.basename(f))
    return sorted(n for n, fs in where.items() if len(fs) > 1 and n.startswith("class."))


def make_pipeline(**kw):
    return PipelineHarness(**kw)


# ---------------------------------------------------------------------------- concrete replay
def confirm(w):
    """Re-run on plain strings: no proxies.  Returns verdict text or None."""
    if w.get("level") == "block-names":
        return name_shape_verdict(w["library"]), None
    lines = w["user_lines"]
    res = {}

    def pinned(h):
        def run(e):
            out = h.run(e)
            return out
        return run

    if w["level"] == "empty-file":
        h = EmptyFileHarness(len(lines[0]))
        res = {}

        def run_e(e):
            for k, ch in enumerate(lines[0]):
                e.assume(z3.Int("c0_%d" % k) == ord(ch))
            e.assume(z3.Int("block") == EMPTY_BLOCKS.index(w["block"]))
            return h.run(e)
        saved = globals()["domain"]
        globals()["domain"] = lambda zs: True
        try:
            Engine().explore(run_e, lambda e, kind, value: res.__setitem__("j", h.judge(e, kind, value)))
        finally:
            globals()["domain"] = saved
        v = res.get("j", {}).get("violation")
        return (v["what"] if v else None), None
    if w["level"] == "yaml-splicer-file":
        h = SupplyHarness(w["library"], w["group"], via=w.get("via", "yaml"))
        res = {}

        def run_s(e):
            e.assume(z3.Int("ext") == (SUPPLY_EXT if w.get("via", "yaml") == "yaml" else CMD_EXT)[w["group"]].index(w["extension"]))
            e.assume(z3.Int("second_file") == w.get("second_file", 0))
            return h.run(e)
        Engine().explore(run_s, lambda e, kind, value: res.__setitem__("j", h.judge(e, kind, value)))
        v = res.get("j", {}).get("violation")
        return (v["what"] if v else None), None
    if w["level"] == "declaration":
        h = DeclSplicerHarness(w["library"], len(lines[0]))
        res = {}

        def run_d(e):
            for k, sline in zip(DECL_KEYS, lines):
                for i, ch in enumerate(sline):
                    e.assume(z3.Int("d%s_%d" % (k, i)) == ord(ch))
            e.assume(z3.Int("splicer_value_form") == FORMS.index(w.get("form", "list")))
            return h.run(e)
        saved = globals()["domain"]
        globals()["domain"] = lambda zs: True
        try:
            Engine().explore(run_d, lambda e, kind, value: res.__setitem__("j", h.judge(e, kind, value)))
        finally:
            globals()["domain"] = saved
        v = res.get("j", {}).get("violation")
        return (v["what"] if v else None), None
    if w["level"] == "kernel":
        h = KernelHarness([len(s) for s in lines], w["comment"], w["names"], w["combo"], w.get("indent", 1),
                          via_file=w.get("via_file"))
    else:
        h = PipelineHarness(w["library"], [len(s) for s in lines], w["subset"])
    orig_mk = None

    def run(e):
        # pin every symbolic character to the witness: a single concrete path
        for i, s in enumerate(lines):
            for k, ch in enumerate(s):
                e.assume(z3.Int("c%d_%d" % (i, k)) == ord(ch))
        for i, s in enumerate(w.get("outside", [])):
            for k, ch in enumerate(s):
                e.assume(z3.Int("o%d_%d" % (i, k)) == ord(ch))
        return h.run(e)

    def cb(e, kind, value):
        res["j"] = h.judge(e, kind, value)

    import shroud  # noqa
    saved = globals()["domain"]
    globals()["domain"] = lambda zs: True        # the witness may be a known-finding shape
    try:
        Engine().explore(run, cb)
    finally:
        globals()["domain"] = saved
    v = res.get("j", {}).get("violation")
    plain = plain_kernel(w) if w["level"] == "kernel" else None
    return (v["what"] if v else None), plain


def plain_kernel(w):
    """The kernel on plain str values, for display and for confirming text-level effects."""
    has_force, has_user, has_default = w["combo"]
    names = w["names"]
    tree = {}
    d = tree
    for nm in names[:-1]:
        d = d.setdefault(nm, {})
    if has_user and w.get("via_file"):
        mi = w["via_file"][0]
        dotted = ".".join(names)
        outside = w.get("outside", ["", ""])
        flines = [outside[0], " " * mi + w["comment"] + " splicer begin " + dotted] + list(w["user_lines"]) + \
                 [" " * mi + w["comment"] + " splicer end " + dotted, outside[1]]
        tree = read_back([list(x) for x in flines])
    elif has_user:
        d[names[-1]] = list(w["user_lines"])
    cont = " &" if w["comment"] == "!" else ""
    m = mixin(w["comment"], cont, 72, w.get("indent", 1))
    m._init_splicer(tree)
    for nm in names[:-1]:
        m._push_splicer(nm)
    out = ["before();"]
    m._create_splicer(names[-1], out, default=["default_line();", "  more();"] if has_default else None,
                      force=["forced();"] if has_force else None)
    out.append("after();")
    fp = FP()
    try:
        m.write_lines(fp, out)
    except Exception as ex:
        return "exception %s: %s" % (type(ex).__name__, ex)
    return "".join(fp.items)


KNOWN_INPUTS = {
    "trailing-plus-minus": {"level": "kernel", "user_lines": ["x = a +", "    1;"], "comment": "//",
                            "names": ["function", "f"], "combo": [False, True, False], "indent": 1},
    "interior-tab": {"level": "kernel", "user_lines": ["int\tx;"], "comment": "//",
                     "names": ["function", "f"], "combo": [False, True, False], "indent": 1},
    "form-feed": {"level": "kernel", "user_lines": ["a\fb"], "comment": "//",
                  "names": ["function", "f"], "combo": [False, True, False], "indent": 1},
}


def main():
    tier, seed, rp = checklib.tier_and_seed()
    if rp:
        with open(rp) as f:
            w = json.load(f)
        verdict, plain = confirm(w)
        print("user lines:", w["user_lines"])
        if plain is not None:
            print("emitted   :", repr(plain))
        print("verdict   :", verdict or "property holds on this input")
        if verdict:
            print("VIOLATION property=%s replay=%s" % (PID, rp))
        return 1 if verdict else 0
    rep = checklib.Report(PID)
    specs = []
    labels = []
    if tier == "quick":
        shapes = [(), (0,), (1,), (2,), (3,), (4,), (1, 1), (2, 1), (2, 2), (3, 2)]
        pshapes = [(), (1,), (2,), (1, 1)]
        plibs = [("geom", "all"), ("geom", "even"), ("clib", "all")]
    else:
        shapes = [(), (0,), (1,), (2,), (3,), (4,), (5,), (6,), (1, 1), (2, 2), (3, 3), (4, 2), (1, 1, 1), (2, 2, 2), (3, 2, 1)]
        pshapes = [(), (1,), (2,), (3,), (1, 1), (2, 2)]
        plibs = [("geom", "all"), ("geom", "even"), ("geom", "odd"), ("clib", "all"), ("clib", "even")]
    combos = [(False, True, False), (False, True, True), (True, True, True), (False, False, True), (True, False, False)]
    for shape in shapes:
        for comment in ("//", "!", "#"):
            for combo in combos:
                if combo != (False, True, False) and (len(shape) > 1 or (shape and shape[0] > 2)):
                    continue
                names = ["function", "get_name"] if comment != "!" else ["namespace", "ns", "class", "Circle", "method", "area"]
                specs.append(("harness.C12", "make_kernel", dict(shape=shape, comment=comment, names=names, combo=combo)))
                labels.append(("kernel", shape, comment, combo))
    fshapes = [(1,), (2,), (3,), (1, 1), (2, 2)] if tier == "quick" else [(1,), (2,), (3,), (4,), (1, 1), (2, 2), (3, 2), (1, 1, 1)]
    for shape in fshapes:
        for comment in ("//", "!", "#"):
            for mi in (0, 2, 4):
                names = ["function", "get_name"] if comment != "!" else ["namespace", "ns", "class", "Circle", "method", "area"]
                specs.append(("harness.C12", "make_kernel", dict(shape=shape, comment=comment, names=names,
                                                                 combo=(False, True, True), via_file=(mi, 2))))
                labels.append(("splicer-file", shape, comment, mi))
    for shape in pshapes:
        for lib, subset in plibs:
            specs.append(("harness.C12", "make_pipeline", dict(libname=lib, shape=shape, subset=subset)))
            labels.append(("pipeline", shape, lib, subset))
    for lib in ("geom", "clib"):
        for n in ((1, 2) if tier == "quick" else (1, 2, 3)):
            specs.append(("harness.C12", "make_decl", dict(libname=lib, n=n)))
            labels.append(("declaration", n, lib))
    specs.append(("harness.C12", "make_empty", dict(n=2)))
    labels.append(("empty-file", 2, "geom"))
    for g in ("c", "f", "py", "lua"):
        specs.append(("harness.C12", "make_supply", dict(libname="geom", group=g)))
        labels.append(("yaml-splicer-file", g, "geom"))
        specs.append(("harness.C12", "make_supply", dict(libname="geom", group=g, via="cmdline")))
        labels.append(("command-line-splicer-file", g, "geom"))
    budget = 600 if tier == "quick" else 5000
    accs = driver.explore_many(specs, split_depth=8, time_budget_s=budget, max_decisions=50000)
    total = driver.Acc()
    runs = []
    for lab, a in zip(labels, accs):
        total.merge(a)
        runs.append({"exploration": list(map(str, lab)), "paths": a.stats.paths, "queries": a.stats.queries,
                     "solver_s": round(a.stats.solver_s, 2), "violations": a.nviol})
        for msg in a.inconclusive:
            rep.inconc("%s: %s" % (lab, msg))
    tw = driver.explore(("harness.C12", "make_kernel", dict(shape=(1,), comment="//", names=["function", "f"],
                                                            combo=(False, True, False), twin=True)), nworkers=1)
    tw2 = driver.explore(("harness.C12", "make_pipeline", dict(libname="clib", shape=(1,), subset="all", twin=True)), nworkers=1)
    twin_ok = all(t.stats.paths > 0 and t.nviol == t.stats.paths and not t.inconclusive for t in (tw, tw2))
    if not twin_ok:
        rep.inconc("reachability twin did not fail on every path: %r %r" % (tw.inconclusive[:1], tw2.inconclusive[:1]))
    # known findings: replay the recorded inputs on the real code
    known = checklib.load_known(PID)
    for k in known:
        if k.get("status") != "known":
            continue
        w = KNOWN_INPUTS.get(k.get("key"))
        if not w:
            continue
        verdict, plain = confirm(w)
        if verdict:
            rep.known_finding("%s: user lines %r are emitted as %r" % (k["what_fails"], w["user_lines"], plain))
    for k in known:
        if k.get("status") == "known" and k.get("key") == "class-template-splicer-names":
            shared = template_splicer_collision()
            if shared:
                rep.known_finding("%s (e.g. %s; %d names)" % (k["what_fails"], shared[0], len(shared)))
    for libname in sorted(LIBS):
        shape = name_shape_verdict(libname)
        if shape:
            path = checklib.write_replay(PID, "names-" + libname, {"level": "block-names", "library": libname, "user_lines": [], "what": shape})
            rep.violation(path, "%s  library=%s level=block-names" % (shape, libname))
    seen = set()
    confirmed = 0
    for i, v in enumerate(total.violations):
        verdict, plain = confirm(v)
        if verdict is None:
            rep.inconc("counterexample did not reproduce on pinned inputs: %r" % (v,))
            continue
        confirmed += 1
        key = v.get("_vkey")
        if key in seen:
            continue
        seen.add(key)
        path = checklib.write_replay(PID, "cex%03d" % i, v)
        rep.violation(path, "%s  user_lines=%r level=%s [%d paths]" % (v["what"], v["user_lines"], v["level"], total.vcount.get(key, 1)))
    samples = []
    for cls, lst in sorted(total.samples.items()):
        samples.extend(lst[:1])
    cov = {
        "states": total.stats.paths,
        "transitions": max(total.stats.decisions, 1),
        "traces_validated_against_impl": confirmed + sum(1 for k in known if k.get("status") == "known"),
        "samples": samples[:8],
        "exhaustive": False,
        "functions_encoded": ["shroud.util.WrapperMixin._create_splicer/_push_splicer/_pop_splicer/_update_splicer_top",
                              "shroud.util.WrapperMixin.write_lines/write_continue", "shroud.splicer.get_splicers",
                              "pipeline level: ast.create_library_from_dictionary, generate.generate_functions, Wrapc/Wrapf/Wrapp/Wrapl.wrap_library"],
        "bounds": {"kernel_shapes(lines x chars)": [list(s) for s in shapes], "pipeline_shapes": [list(s) for s in pshapes],
                   "pipeline_libraries": [list(p) for p in plibs], "comment_styles": ["//", "!", "#"],
                   "precedence_combos(force,user,default)": [list(c) for c in combos],
                   "splicer_file_shapes": [list(s) for s in fshapes], "splicer_file_marker_indentation": [0, 2, 4],
                   "splicer_file_text_outside_markers": "two lines of 2 arbitrary characters",
                   "chars": "every code point except newline, within the stated domain"},
        "solver": {"name": "z3 " + z3.get_version_string(), "queries": total.stats.queries, "solver_s": round(total.stats.solver_s, 2)},
        "pipeline_blocks_checked": total.counters.get("blocks_checked", 0),
        "paths_reaching_assertion": total.reached,
        "reachability_twin_ok": twin_ok,
        "runs": runs[:80],
    }
    assumptions = [
        "user lines contain no newline and do not begin in column one with one of # @ ^ + - (the property's domain)",
        "excluded as recorded known findings (replayed separately on every run): a line whose last character is + or -, a line with a TAB between two non-blank characters, a line containing a form feed",
        "user lines are shorter than the marker words, so they cannot contain 'splicer begin/end'",
        "splicer names are the identifiers the emitters produce (no dots or blanks inside a component)",
        "whitespace is Python's str.isspace set",
    ]
    checklib.write_evidence(PID, tier, seed, "model_checking", cov, assumptions, rep.wall(), len(rep.violations))
    return rep.finish()


if __name__ == "__main__":
    sys.exit(main())
