"""C03 - the generated Python extension is call-equivalent to the wrapped library (kernel, bounded).

Every PY_<function> Shroud writes for gen/libs/pyl.yaml is compiled against the real CPython 3.12
headers to LLVM IR and executed symbolically with contract stubs for the handful of CPython API
calls a wrapper makes.  Symbolic: how many arguments are supplied and how they are split between
positional and keyword form, whether each supplied argument converts, the converted values, the
library's results.  Oracle: the overload / arity selected by the argument count receives the stored
values of exactly the supplied arguments; the returned object is the library's result followed by the
intent(out) arguments; a call that cannot be parsed or matches no overload returns NULL with
TypeError/ValueError set; no SystemError-setting API misuse happens on any path.
"""
import json
import os
import re
import subprocess
import sys

import z3

sys.path.insert(0, os.path.dirname(os.path.dirname(os.path.abspath(__file__))))
from engines.shadowsym.core import Engine, Unsupported, Inconclusive  # noqa: E402
from engines.shadowsym import driver  # noqa: E402
from engines.llsym import ir, models  # noqa: E402
from engines.llsym.exec import Executor, Ptr, NULL, FuncPtr, MemViolation, PathAbort, conc, bv  # noqa: E402
from gen import cgen  # noqa: E402
from harness import ll_common as lc  # noqa: E402
from harness import wrapsym  # noqa: E402
from harness.C18 import Sig  # noqa: E402
from lib import checklib  # noqa: E402

PID = "C03"
_BUILD = {}


def get_build():
    if "b" not in _BUILD:
        inc = subprocess.check_output(["/venv/bin/python", "-c", "import sysconfig;print(sysconfig.get_paths()['include'])"],
                                      universal_newlines=True).strip()
        b = cgen.build(lc.lib_text("pyl.yaml"), {"pyl.hpp": lc.lib_text("pyl.hpp")}, extra_includes=[inc],
                       only=lambda n: n.endswith(("module.cpp", "type.cpp")))
        if b.errors:
            raise RuntimeError("generated Python extension does not compile: %s" % b.errors[0][:600])
        _BUILD["b"] = b
    return _BUILD["b"]


def py_functions(build):
    """method-table name -> dict(cfunc=PY_xxx, sigs=[Sig])"""
    text = [t for n, t in build.files.items() if n.endswith("module.cpp")][0]
    table = re.search(r"(?s)static PyMethodDef PY_methods\[\]\s*=\s*\{(.*?)\};", text).group(1)
    entries = re.findall(r'\{"(\w+)",\s*\(PyCFunction\)(\w+),\s*([\w|]+)', table)
    groups = {}

    def walk(n, cls=None):
        for f in getattr(n, "functions", []):
            if f._generated or not f.wrap.python:
                continue
            groups.setdefault(f.ast.name, []).append(Sig(f, cls))
        for s in getattr(n, "namespaces", []):
            walk(s)
    walk(build.library)
    out = {}
    for name, cfunc, flags in entries:
        if name in groups:
            out[name] = {"cfunc": cfunc, "sigs": groups[name], "flags": flags}
    # static methods of classes: called through the class, they are plain functions (no instance involved)
    def classes(n):
        for c in getattr(n, "classes", []):
            yield c
        for s_ in getattr(n, "namespaces", []):
            for c in classes(s_):
                yield c
    for c in classes(build.library):
        ctext = [t for n, t in build.files.items() if n == "py%stype.cpp" % c.name]
        if not ctext:
            continue
        tab = re.search(r"(?s)static PyMethodDef PY_%s_methods\[\]\s*=\s*\{(.*?)\};" % re.escape(c.name), ctext[0])
        if not tab:
            continue
        cent = {nm: (cf, fl) for nm, cf, fl in re.findall(r'\{"(\w+)",\s*\(PyCFunction\)(\w+),\s*([\w|]+)', tab.group(1))}
        cg = {}
        for f in c.functions:
            if f._generated or not f.wrap.python or "static" not in (f.ast.storage or []):
                continue
            cg.setdefault(f.ast.name, []).append(Sig(f, c))
        for nm, sigs in cg.items():
            if nm in cent:
                out["%s.%s" % (c.name, nm)] = {"cfunc": cent[nm][0], "sigs": sigs, "flags": cent[nm][1], "static_of": c.name}
        # instance methods: called on an object of the extension type, they act on the C++ object the instance holds
        ig = {}
        for f in c.functions:
            if f._generated or not f.wrap.python or "static" in (f.ast.storage or []) or f.ast.is_ctor() or f.ast.is_dtor():
                continue
            ig.setdefault(f.ast.name, []).append(Sig(f, c))
        for nm, sigs in ig.items():
            if nm in cent:
                out["%s.%s" % (c.name, nm)] = {"cfunc": cent[nm][0], "sigs": sigs, "flags": cent[nm][1], "instance_of": c.name}
        # the constructor is the type's tp_init slot
        ctors = [Sig(f, c) for f in c.functions if not f._generated and f.wrap.python and f.ast.is_ctor()]
        mi = re.search(r"\(initproc\)\s*(\w+)\s*,\s*/\* tp_init \*/", ctext[0])
        if ctors and mi and mi.group(1) != "0":
            # which slots of the type object hold a function that runs when an instance dies
            slots = {s_: f_ for f_, s_ in re.findall(r"\(destructor\)\s*(\w+)\s*,\s*/\* (tp_dealloc|tp_del|tp_finalize) \*/", ctext[0])
                     if f_ not in ("nullptr", "NULL", "0")}
            out["%s.__init__" % c.name] = {"cfunc": mi.group(1), "sigs": ctors, "flags": "METH_VARARGS|METH_KEYWORDS",
                                           "instance_of": c.name, "ctor": True, "release_slots": slots}
    return out


def in_params(sig):
    """the parameters a Python caller supplies (implied and hidden ones are computed by the wrapper)"""
    return [p for p in sig.params if p.intent in ("in", "inout") and not p.attrs.get("implied") and not p.attrs.get("hidden")]


def out_params(sig):
    """the arguments handed back to the Python caller: a `hidden` argument is documented to stay out of the wrapped API
    (its value is used by the wrapper only, e.g. as an extent), so an intent(out)+hidden argument is not returned"""
    return [p for p in sig.params if p.intent in ("out", "inout") and not p.attrs.get("hidden")]


UNIT_BITS = {"i": 32, "l": 64, "d": 64, "f": 32, "h": 16, "b": 8, "L": 64, "n": 64, "I": 32, "k": 64, "H": 16, "B": 8}


class PyWorld(object):
    """abstract CPython state for one call"""

    def __init__(self, e, ex, total, npos, hole=-1):
        self.e, self.ex = e, ex
        self.total, self.npos, self.nkw = total, npos, total - npos
        # hole >= 0: the keyword arguments skip the (defaulted) parameter at that position, so the supplied positions are
        # 0 .. total without `hole`; hole < 0: the first `total` parameters are supplied
        self.hole = hole
        self.err = None
        self.misuse = []
        self.parse_n = 0
        self.parses = []
        self.built = None
        self.args = ex.new_obj("py_args_tuple", 64, "extern")
        self.args.tag["py"] = ("tuple", npos)
        self.kwds = None
        if self.nkw > 0:
            self.kwds = ex.new_obj("py_kwds_dict", 64, "extern")
            self.kwds.tag["py"] = ("dict", self.nkw)

    def supplied(self, j):
        if self.hole < 0:
            return j < self.total
        return j <= self.total and j != self.hole

    def maxpos(self):
        """number of leading parameter positions the call reaches (last supplied position + 1)"""
        return self.total if self.hole < 0 else self.total + 1

    def new(self, kind, value=None, refcnt=1):
        o = self.ex.new_obj("py_" + kind, 64, "extern")
        o.tag["py"] = (kind, value)
        # {ob_refcnt, ob_type}: the inline Py_INCREF / Py_DECREF of the 3.12 headers read and write the count
        o.cells[0] = (8, z3.BitVecVal(refcnt, 64))
        return Ptr(o, 0)

    def type_object(self, flags):
        """a type object whose tp_flags word (offset 168 in CPython 3.12) has the given subclass bits"""
        key = ("type", flags)
        if key not in self.__dict__.setdefault("_types", {}):
            t = self.ex.new_obj("py_type_object", 416, "extern")
            t.cells[0] = (8, z3.BitVecVal(1 << 30, 64))
            t.cells[168] = (8, z3.BitVecVal(flags, 64))
            nm = self.ex.new_obj("py_type_name", 8, "extern")
            for i_, ch in enumerate(b"type\0"):
                nm.arr = z3.Store(nm.arr, z3.BitVecVal(i_, 64), z3.BitVecVal(ch, 8))
            t.cells[24] = (8, Ptr(nm, 0))                      # tp_name
            self._types[key] = t
        return self._types[key]

    def new_list(self, n, tag):
        """a real PyListObject layout {refcnt, type, ob_size, ob_item} so that the PySequence_Fast_* macros work"""
        items = self.ex.new_obj("py_list_items_" + tag, max(8 * n, 8), "extern")
        elems = []
        for k in range(n):
            it = self.new("item", {"index": k, "of": tag})
            elems.append(it)
            items.cells[8 * k] = (8, it)
        self._list_items = getattr(self, "_list_items", {})
        self._list_items[tag] = items
        lst = self.ex.new_obj("py_list_" + tag, 40, "extern")
        lst.tag["py"] = ("list", elems)
        lst.cells[0] = (8, z3.BitVecVal(2, 64))            # the caller's reference and the one PySequence_Fast returns
        lst.cells[8] = (8, Ptr(self.type_object(1 << 25), 0))   # Py_TPFLAGS_LIST_SUBCLASS
        lst.cells[16] = (8, z3.BitVecVal(n, 64))
        lst.cells[24] = (8, Ptr(items, 0))
        lst.cells[32] = (8, z3.BitVecVal(n, 64))
        return lst, elems

    def exc_name(self, p):
        if isinstance(p, Ptr) and p.obj is not None:
            return p.obj.tag.get("symbol") or p.obj.name
        return None


def parse_format(fmt):
    """-> (units [(code, extra)], nrequired)"""
    units = []
    req = None
    i = 0
    s = fmt.split(":")[0].split(";")[0]
    while i < len(s):
        c = s[i]
        if c == "|":
            req = len(units)
        elif c == "$":
            pass
        elif c == "O" and s[i + 1:i + 2] in ("!", "&"):
            units.append(("O" + s[i + 1], None))
            i += 1
        elif c in "sz" and s[i + 1:i + 2] in ("#", "*"):
            units.append((c + s[i + 1], None))
            i += 1
        else:
            units.append((c, None))
        i += 1
    return units, (len(units) if req is None else req)


def install_python(ex, w):
    S = ex.stubs

    def load_ptr_arg(p):
        return p

    def parse(ex_, name, a, at, rt):
        args, kwds, fmtp, kwl = a[0], a[1], a[2], a[3]
        fmt = ex_.cstring_at(fmtp)
        if fmt is None:
            raise Unsupported("format string is not a constant")
        units, nreq = parse_format(fmt.decode())
        names = []
        k = 0
        while True:
            q = ex_.load_ptr(ex_.padd(kwl, 8 * k))
            if isinstance(q, Ptr) and q.obj is None:
                break
            names.append((ex_.cstring_at(q) or b"?").decode())
            k += 1
            if k > 32:
                raise Unsupported("kwlist without terminator")
        rec = {"format": fmt.decode(), "names": names, "stored": {}, "ok": None, "units": [u[0] for u in units]}
        w.parses.append(rec)
        w.parse_n += 1
        pn = w.parse_n
        if len(names) != len(units):
            w.misuse.append("format %r has %d units but the keyword list has %d names" % (fmt.decode(), len(units), len(names)))
        # pointers passed for the units
        vp = a[4:]
        need = sum(2 if u[0] in ("O!", "O&", "s#", "z#") else 1 for u in units)
        if len(vp) != need:
            w.misuse.append("format %r needs %d pointers, %d are passed" % (fmt.decode(), need, len(vp)))
            w.err = "SystemError"
            return z3.BitVecVal(0, 32)
        # the call shape
        if not (isinstance(args, Ptr) and args.obj is w.args):
            w.misuse.append("PyArg_ParseTupleAndKeywords is not given the args tuple")
        total = w.total
        fail = False
        if w.npos > len(units) or w.maxpos() > len(units) or any(not w.supplied(j) for j in range(nreq)):
            fail = True         # too many arguments / an unknown keyword / a required argument is missing
        ok_all = True
        if not fail:
            for j in [j_ for j_ in range(len(units)) if w.supplied(j_)]:
                if units[j][0] == "O":
                    continue            # any object is accepted as it is
                okj = z3.Bool("conv_ok_%d_%d" % (pn, j))
                if not ex_.e.branch(okj):
                    ok_all = False
                    break
        if fail or not ok_all:
            w.err = "PyExc_TypeError"
            rec["ok"] = False
            return z3.BitVecVal(0, 32)
        rec["ok"] = True
        vi = 0
        for j, (code, _) in enumerate(units):
            ptrs = vp[vi:vi + (2 if code in ("O!", "O&", "s#", "z#") else 1)]
            vi += len(ptrs)
            if not w.supplied(j):
                continue        # optional argument not supplied: its variable is left untouched
            if code in UNIT_BITS:
                bits = UNIT_BITS[code]
                v = z3.BitVec("pyarg_%d_%d" % (pn, j), bits)
                ex_.store_int(ptrs[0], v, bits)
                rec["stored"][j] = ("scalar", v)
            elif code in ("s", "z"):
                o, L = wrapsym.Stub(None).fresh_cstring(ex_, "pystr_%d_%d" % (pn, j))
                ex_.store_ptr(ptrs[0], Ptr(o, 0))
                rec["stored"][j] = ("string", L, o.arr)
            elif code == "O":
                # the same Python argument is seen by every overload's parser
                ob = w.__dict__.setdefault("argobj", {}).get(j)
                if ob is None:
                    ob = w.argobj[j] = w.new("object")
                ex_.store_ptr(ptrs[0], ob)
                rec["stored"][j] = ("object", ob)
            elif code == "O!":
                ty = w.exc_name(ptrs[0])
                if ty == "PyBool_Type":
                    bvv = z3.Bool("pybool_%d_%d" % (pn, j))
                    ob = w.new("bool", bvv)
                    rec["stored"][j] = ("bool", bvv)
                else:
                    ob = w.new("object:" + str(ty))
                    rec["stored"][j] = ("object", ob)
                ex_.store_ptr(ptrs[1], ob)
            else:
                raise Unsupported("format unit %r" % code)
        return z3.BitVecVal(1, 32)

    def tuple_size(ex_, name, a, at, rt):
        p = a[0]
        if isinstance(p, Ptr) and p.obj is not None and p.obj.tag.get("py", ("",))[0] == "tuple":
            return z3.BitVecVal(p.obj.tag["py"][1], 64)
        w.misuse.append("PyTuple_Size called on %s" % (p.obj.tag.get("py", ("?",))[0] if isinstance(p, Ptr) and p.obj else "NULL"))
        w.err = "SystemError"
        return z3.BitVecVal(-1, 64)

    def dict_size(ex_, name, a, at, rt):
        p = a[0]
        if isinstance(p, Ptr) and p.obj is not None and p.obj.tag.get("py", ("",))[0] == "dict":
            return z3.BitVecVal(p.obj.tag["py"][1], 64)
        w.misuse.append("PyDict_Size called on %s (sets SystemError, returns -1)" % (p.obj.tag.get("py", ("?",))[0] if isinstance(p, Ptr) and p.obj else "NULL"))
        w.err = "SystemError"
        return z3.BitVecVal(-1, 64)

    def from_long(ex_, name, a, at, rt):
        return w.new("int", a[0])

    def from_size_t(ex_, name, a, at, rt):
        return w.new("uint", a[0])

    def from_double(ex_, name, a, at, rt):
        return w.new("float", a[0])

    def bool_from_long(ex_, name, a, at, rt):
        return w.new("bool", a[0] != 0)

    def str_from(ex_, name, a, at, rt):
        p = a[0]
        if isinstance(p, Ptr) and p.obj is None:
            w.misuse.append("%s called with NULL" % name)
            w.err = "SystemError"
            return NULL
        if len(a) > 1:
            n = a[1]
            ex_.check_access(p, n, name)
        else:
            n = models.strlen_term(ex_, p, name)
        ex_.flush(p.obj)
        return w.new("str", (n, p.obj.arr, bv(p.off)))

    def build_value(ex_, name, a, at, rt):
        fmt = ex_.cstring_at(a[0])
        if fmt is None:
            raise Unsupported("Py_BuildValue format is not a constant")
        f = fmt.decode()
        if "#" in f and name == "Py_BuildValue":
            # CPython >= 3.10 (the interpreter of this sandbox is 3.12): '#' formats need PY_SSIZE_T_CLEAN, which makes the
            # headers route the call to _Py_BuildValue_SizeT; the plain entry point fails with SystemError
            w.err = "SystemError"
            w.misuse.append("Py_BuildValue with a '#' format in a module built without PY_SSIZE_T_CLEAN")
            return NULL
        items = []
        vi = 1
        i = 0
        while i < len(f):
            c = f[i]
            if c in "()[]{} ,":
                i += 1
                continue
            if c in "ilhbBHIkLn":
                items.append(("int", a[vi]))
                vi += 1
            elif c in "df":
                items.append(("float", a[vi]))
                vi += 1
            elif c == "s" and f[i + 1:i + 2] == "#":
                p, n = a[vi], a[vi + 1]
                ex_.check_access(p, wrapsym.sx(n), "Py_BuildValue s#")
                if isinstance(p, Ptr) and p.obj is not None:
                    ex_.flush(p.obj)
                    items.append(("str", (wrapsym.sx(n), p.obj.arr, bv(p.off))))
                else:
                    items.append(("none", None))
                vi += 2
                i += 1
            elif c == "s":
                p = a[vi]
                if isinstance(p, Ptr) and p.obj is not None:
                    n = models.strlen_term(ex_, p, "Py_BuildValue s")
                    ex_.flush(p.obj)
                    items.append(("str", (n, p.obj.arr, bv(p.off))))
                else:
                    items.append(("none", None))
                vi += 1
            elif c in "ON":
                items.append(("object", a[vi]))
                vi += 1
            else:
                raise Unsupported("Py_BuildValue unit %r" % c)
            i += 1
        if len(items) == 1:
            k, v = items[0]
            if k == "object":
                return v
            return w.new(k, v)
        return w.new("tuple", items)

    def is_true(ex_, name, a, at, rt):
        p = a[0]
        if isinstance(p, Ptr) and p.obj is not None and p.obj.tag.get("py", ("",))[0] == "bool":
            return z3.If(p.obj.tag["py"][1], z3.BitVecVal(1, 32), z3.BitVecVal(0, 32))
        if isinstance(p, Ptr) and p.obj is None:
            w.misuse.append("PyObject_IsTrue(NULL)")
            raise MemViolation("null-deref", "PyObject_IsTrue(NULL)", ex_.e.model())
        if isinstance(p, Ptr) and p.obj.tag.get("py") is None:
            w.misuse.append("PyObject_IsTrue on an uninitialised pointer")
        return ex_.fresh("istrue", 32)

    def err_set(ex_, name, a, at, rt):
        w.err = w.exc_name(ex_.load_ptr(a[0]) if False else a[0])
        return None

    def err_occurred(ex_, name, a, at, rt):
        if w.err is None:
            return NULL
        return w.new("exception:" + str(w.err))

    def err_matches(ex_, name, a, at, rt):
        return z3.BitVecVal(1 if (w.err is not None and w.exc_name(a[0]) == w.err) else 0, 32)

    def err_clear(ex_, name, a, at, rt):
        w.err = None
        return None

    def sequence_fast(ex_, name, a, at, rt):
        """PySequence_Fast(obj, msg): a list with 0..2 items of engine-chosen kinds, or NULL with TypeError"""
        ob = a[0]
        if not (isinstance(ob, Ptr) and ob.obj is not None and ob.obj.tag.get("py")):
            w.misuse.append("PySequence_Fast on something that is not an object")
            w.err = "SystemError"
            return NULL
        st = ob.obj.tag.setdefault("as_list", None)
        if st is None:
            tag = ob.obj.name + str(ob.obj.id)
            if not ex_.e.branch(z3.Bool("arg_%s_is_a_sequence" % tag)):
                ob.obj.tag["as_list"] = "no"
            else:
                n = 0
                for k in (0, 1):
                    if ex_.e.branch(z3.Bool("list_%s_has_more_than_%d" % (tag, k))):
                        n = k + 1
                    else:
                        break
                lst, elems = w.new_list(n, tag)
                for k, it in enumerate(elems):
                    kv = z3.Int("item_kind_%s_%d" % (tag, k))        # 0 int, 1 float, 2 something else, 3 str, 4 None
                    ex_.e.assume(z3.And(kv >= 0, kv <= 4))
                    kd = ex_.e.choose(kv)
                    if kd == 4:
                        # None is the one object &_Py_NoneStruct (the converters compare pointers)
                        it = ex_.global_ptr("_Py_NoneStruct")
                        it.obj.tag["py"] = ("item", {"index": k, "of": tag})
                        it.obj.cells.setdefault(0, (8, z3.BitVecVal(0xFFFFFFFF, 64)))      # immortal
                        elems[k] = it
                        w._list_items[tag].cells[8 * k] = (8, it)
                    it.obj.tag["kind"] = kd
                    it.obj.cells[8] = (8, Ptr(w.type_object({0: 1 << 24, 3: 1 << 28}.get(kd, 0)), 0))   # LONG / UNICODE subclass bits
                    if kd == 1:
                        # a float is an instance of PyFloat_Type itself (PyFloat_Check compares the type pointers)
                        ft = ex_.global_ptr("PyFloat_Type")
                        ft.obj.cells.setdefault(168, (8, z3.BitVecVal(0, 64)))
                        ft.obj.cells.setdefault(24, w.type_object(0).cells[24])
                        it.obj.cells[8] = (8, ft)
                    it.obj.tag["ival"] = z3.BitVec("item_int_%s_%d" % (tag, k), 64)
                    it.obj.tag["fval"] = z3.BitVec("item_float_%s_%d" % (tag, k), 64)
                    if kd == 3:
                        lv = z3.Int("item_len_%s_%d" % (tag, k))
                        ex_.e.assume(z3.And(lv >= 0, lv <= 2))
                        tl = ex_.e.choose(lv)
                        chars = [z3.BitVec("item_char_%s_%d_%d" % (tag, k, c_), 8) for c_ in range(tl)]
                        for c_ in chars:
                            ex_.e.assume(c_ != 0)
                        it.obj.tag["text"] = chars
                ob.obj.tag["as_list"] = (lst, elems)
            st = ob.obj.tag["as_list"]
        if st == "no":
            w.err = "PyExc_TypeError"
            return NULL
        lst, elems = st
        return Ptr(lst, 0)

    def as_long(ex_, name, a, at, rt):
        it = a[0]
        if isinstance(it, Ptr) and it.obj is not None and it.obj.tag.get("py", ("",))[0] == "item":
            if it.obj.tag["kind"] == 0:
                return it.obj.tag["ival"]
            w.err = "PyExc_TypeError"        # a float or any other object "cannot be interpreted as an integer"
            return z3.BitVecVal(-1, 64)
        raise Unsupported("%s on %r" % (name, it))

    def as_double(ex_, name, a, at, rt):
        it = a[0]
        if isinstance(it, Ptr) and it.obj is not None and it.obj.tag.get("py", ("",))[0] == "item":
            if it.obj.tag["kind"] == 0:
                return ex_.from_fp(z3.fpSignedToFP(z3.RNE(), it.obj.tag["ival"], z3.Float64()))
            if it.obj.tag["kind"] == 1:
                return it.obj.tag["fval"]
            w.err = "PyExc_TypeError"
            return ex_.float_const("-1.0", 64)
        raise Unsupported("%s on %r" % (name, it))

    def err_format(ex_, name, a, at, rt):
        w.err = w.exc_name(a[0])
        return NULL

    def capsule_new(ex_, name, a, at, rt):
        return w.new("capsule", {"ptr": a[0], "dtor": a[2]})

    def capsule_get(ex_, name, a, at, rt):
        c = a[0]
        if isinstance(c, Ptr) and c.obj is not None and c.obj.tag.get("py", ("",))[0] == "capsule":
            return c.obj.tag["py"][1]["ptr"]
        w.misuse.append("PyCapsule_GetPointer on something that is not a capsule")
        w.err = "SystemError"
        return NULL

    def as_utf8_string(ex_, name, a, at, rt):
        """PyUnicode_AsUTF8String(item): a new bytes object {refcnt, type, ob_size, ob_shash, ob_sval[]} holding the item's text"""
        it = a[0]
        if not (isinstance(it, Ptr) and it.obj is not None and it.obj.tag.get("kind") == 3):
            raise Unsupported("%s on %r" % (name, it))
        chars = it.obj.tag["text"]
        o = ex_.new_obj("py_bytes", 33 + len(chars), "extern")
        o.tag["py"] = ("bytes", chars)
        o.cells[0] = (8, z3.BitVecVal(1, 64))
        o.cells[8] = (8, Ptr(w.type_object(1 << 27), 0))             # Py_TPFLAGS_BYTES_SUBCLASS
        o.cells[16] = (8, z3.BitVecVal(len(chars), 64))
        for i_, c_ in enumerate(chars + [z3.BitVecVal(0, 8)]):
            o.arr = z3.Store(o.arr, z3.BitVecVal(32 + i_, 64), c_)
        return Ptr(o, 0)

    def is_subtype(ex_, name, a, at, rt):
        return z3.BitVecVal(0, 32)

    def capsule_set_context(ex_, name, a, at, rt):
        c = a[0]
        if isinstance(c, Ptr) and c.obj is not None and c.obj.tag.get("py", ("",))[0] == "capsule":
            c.obj.tag["py"][1]["context"] = a[1]
            return z3.BitVecVal(0, 32)
        w.misuse.append("PyCapsule_SetContext on something that is not a capsule")
        w.err = "SystemError"
        return z3.BitVecVal(-1, 32)

    def capsule_get_context(ex_, name, a, at, rt):
        c = a[0]
        if isinstance(c, Ptr) and c.obj is not None and c.obj.tag.get("py", ("",))[0] == "capsule":
            return c.obj.tag["py"][1].get("context", NULL)
        w.misuse.append("PyCapsule_GetContext on something that is not a capsule")
        w.err = "SystemError"
        return NULL

    def dealloc(ex_, name, a, at, rt):
        """_Py_Dealloc: the count dropped to zero; a capsule runs its destructor"""
        ob = a[0]
        if isinstance(ob, Ptr) and ob.obj is not None:
            py = ob.obj.tag.get("py", ("",))
            if py[0] == "capsule" and not ob.obj.tag.get("dead"):
                ob.obj.tag["dead"] = True
                d = py[1]["dtor"]
                if isinstance(d, FuncPtr):
                    ex_.call_function(d.name, [ob])
            ob.obj.tag["dead"] = True
        return None

    S["PySequence_Fast"] = sequence_fast
    S["PyLong_AsLong"] = as_long
    S["PyFloat_AsDouble"] = as_double
    S["PyErr_Format"] = err_format
    S["PyCapsule_New"] = capsule_new
    S["PyCapsule_GetPointer"] = capsule_get
    S["PyArg_ParseTupleAndKeywords"] = parse
    S["_PyArg_ParseTupleAndKeywords_SizeT"] = parse      # the name the headers route to under PY_SSIZE_T_CLEAN
    S["PyTuple_Size"] = tuple_size
    S["PyDict_Size"] = dict_size
    S["PyLong_FromLong"] = from_long
    S["PyLong_FromSsize_t"] = from_long
    S["PyLong_FromSize_t"] = from_size_t
    S["PyLong_FromUnsignedLong"] = from_size_t
    S["PyFloat_FromDouble"] = from_double
    S["PyBool_FromLong"] = bool_from_long
    S["PyUnicode_FromStringAndSize"] = str_from
    S["PyUnicode_FromString"] = str_from
    S["Py_BuildValue"] = build_value
    S["_Py_BuildValue_SizeT"] = build_value
    S["PyObject_IsTrue"] = is_true
    S["PyErr_SetString"] = err_set
    S["PyErr_Occurred"] = err_occurred
    S["PyErr_ExceptionMatches"] = err_matches
    S["PyErr_Clear"] = err_clear
    S["_Py_Dealloc"] = dealloc
    S["PyUnicode_AsUTF8String"] = as_utf8_string
    S["PyType_IsSubtype"] = is_subtype
    S["PyCapsule_SetContext"] = capsule_set_context
    S["PyCapsule_GetContext"] = capsule_get_context


class PyHarness(object):
    def __init__(self, pyname, twin=False):
        self.pyname, self.twin = pyname, twin

    def run(self, e):
        b = get_build()
        self.entry = py_functions(b)[self.pyname]
        cf = self.entry["cfunc"]
        m, fn = None, []
        for mname, mod in sorted(b.modules.items()):
            ofcls = self.entry.get("static_of") or self.entry.get("instance_of")
            if ofcls and mname != "py%stype.cpp" % ofcls:
                continue
            if not ofcls and not mname.endswith("module.cpp"):
                continue
            hits = [n for n, f in mod.functions.items() if f.defined and re.match(r"^_ZL\d+%sP(7_object|\d+PY_\w+?P7_object)" % re.escape(cf), n)]
            if hits:
                m, fn = mod, hits
        if not fn:
            raise Unsupported("no IR for %s" % cf)
        ex = Executor(e, m, cap=3)
        self.ex = ex
        P = max(len(in_params(s)) for s in self.entry["sigs"])
        tv, nv = z3.Int("supplied"), z3.Int("positional")
        e.assume(z3.And(tv >= 0, tv <= P + 1, nv >= 0, nv <= tv))
        total = e.choose(tv)
        npos = e.choose(nv)
        if "METH_NOARGS" in self.entry["flags"] and total > 0:
            from engines.shadowsym.core import Infeasible
            raise Infeasible()      # CPython itself rejects arguments to a METH_NOARGS function
        hole = -1
        if len(self.entry["sigs"]) == 1 and total - npos >= 1:
            # keyword arguments may skip one parameter (single-signature functions: the keyword names are that signature's)
            hv = z3.Int("skipped")
            e.assume(z3.And(hv >= -1, hv < total, z3.Or(hv == -1, hv >= npos)))
            hole = e.choose(hv)
        w = PyWorld(e, ex, total, npos, hole)
        self.w = w
        install_python(ex, w)
        self.calls = []
        h = self

        def lib(ex_, name, argv, argt, rt):
            dem = wrapsym.demangle(name)
            mm = re.match(r"^(.*?)\((.*)\)( const)?$", dem)
            if not mm:
                raise Unsupported("call to %s" % name)
            qn = re.sub(r"\[abi:\w+\]", "", mm.group(1))
            ptxt = [] if mm.group(2) in ("", "void") else wrapsym.split_params(mm.group(2))
            fnobj = ex_.m.functions.get(name)
            sret, k = None, 0
            if fnobj is not None and fnobj.params and any(x.startswith("sret") for x in fnobj.params[0][2]):
                sret, k = argv[0], 1
            best = None
            for s in h.entry["sigs"]:
                if len(s.params) != len(ptxt):
                    continue
                if s.is_ctor:
                    if qn != "%s::%s" % (s.cls.name, s.cls.name):
                        continue
                elif s.name != qn.split("::")[-1]:
                    continue
                ok = True
                for p, got in zip(s.params, ptxt):
                    g = got.replace(" const", "").replace("const ", "").strip()
                    if p.kind() == "scalar" and p.cxx_type in wrapsym.NATIVE_TEXT and g != p.cxx_type:
                        ok = False
                    if p.kind() == "nativep" and p.cxx_type in wrapsym.NATIVE_TEXT and \
                            g.replace("*", "").replace("&", "").strip() != p.cxx_type:
                        ok = False
                if ok:
                    best = s
            if best is None:
                raise Unsupported("call to %s which is not a declared signature" % dem)
            this = None
            if best.cls is not None and "static" not in (best.node.ast.storage or []):
                this, k = argv[k], k + 1
            vals = []
            outs = []
            for p, v in zip(best.params, argv[k:]):
                if p.kind() == "string" and p.intent == "out":
                    # the library assigns a text of its own; a std::string may hold NUL characters
                    cur = models.sget(ex_, v, "library assigning '%s'" % p.name)
                    L_ = ex_.fresh("lib_out_%s_len" % p.name, 64)
                    ex_.e.assume(z3.ULE(L_, ex_.cap))
                    src_ = z3.Array("lib_out_%s_bytes!%d" % (p.name, ex_.fresh_n), z3.BitVecSort(64), z3.BitVecSort(8))
                    n_ = models.new_sstr(ex_, L_, lambda i, src_=src_: z3.Select(src_, z3.BitVecVal(i, 64)))
                    cur.buf.live = False
                    cur.buf, cur.len = n_.buf, n_.len
                    vals.append(("out", None))
                    outs.append((p.name, ("string", n_.len, n_.buf.arr)))
                elif p.kind() == "string":
                    s_ = models.sget(ex_, v, "library reading '%s'" % p.name)
                    vals.append(("string", s_.len, s_.buf.arr))
                elif p.kind() == "charp":
                    L = models.strlen_term(ex_, v, "library reading '%s'" % p.name)
                    ex_.flush(v.obj)
                    vals.append(("string", L, v.obj.arr, bv(v.off)))
                elif p.kind() == "nativep" and p.intent in ("out", "inout") and p.attrs.get("dimension"):
                    vals.append(("array", v))
                    outs.append((p.name, ("array", v, p.attrs["dimension"])))
                elif p.kind() == "charpp" and p.intent == "in":
                    # what the library can see: the pointers of the array (as many as the block holds) and their texts
                    seen = []
                    if isinstance(v, Ptr) and v.obj is not None and v.obj.live and conc(v.obj.size) is not None:
                        for i_ in range(conc(v.obj.size) // 8):
                            q_ = ex_.load_ptr(ex_.padd(v, 8 * i_))
                            if isinstance(q_, Ptr) and q_.obj is not None:
                                L_ = models.strlen_term(ex_, q_, "library reading '%s[%d]'" % (p.name, i_))
                                ex_.flush(q_.obj)
                                seen.append((L_, q_.obj.arr, bv(q_.off), q_.obj))
                            else:
                                seen.append(None)
                    vals.append(("charpp_in", v, seen))
                elif p.kind() == "vector" and p.intent == "in":
                    begin = ex_.load_ptr(v)
                    end = ex_.load_ptr(ex_.padd(v, 8))
                    if isinstance(begin, Ptr) and begin.obj is not None:
                        ex_.flush(begin.obj)
                        vals.append(("vector_in", begin, end, begin.obj.arr))
                    else:
                        vals.append(("vector_in", begin, end, None))
                elif p.kind() == "nativep" and p.intent == "inout" and p.attrs.get("rank") and not p.attrs.get("dimension"):
                    # an assumed-shape array the library may change in place: it sees the items, the caller gets them back
                    ebits = ir.size_of(ir.resolve(argt[k + len(vals)]).to) * 8
                    if isinstance(v, Ptr) and v.obj is not None:
                        ex_.flush(v.obj)
                        vals.append(("array_in", v, ebits, v.obj.arr, bool(v.obj.live), v.obj.size))
                    else:
                        vals.append(("array_in", v, ebits, None, False, 0))
                    outs.append((p.name, ("array_inout", v, p.name)))
                elif p.kind() == "nativep" and p.intent == "in" and (p.attrs.get("rank") or p.attrs.get("dimension")):
                    ebits = ir.size_of(ir.resolve(argt[k + len(vals)]).to) * 8
                    if isinstance(v, Ptr) and v.obj is not None:
                        ex_.flush(v.obj)
                        vals.append(("array_in", v, ebits, v.obj.arr, bool(v.obj.live), v.obj.size))
                    else:
                        vals.append(("array_in", v, ebits, None, False, 0))
                elif p.kind() == "nativep" and p.intent in ("out", "inout"):
                    bits = ir.size_of(ir.resolve(argt[k + len(vals)]).to) * 8
                    rv = ex_.fresh("lib_out_" + p.name, bits)
                    ex_.store_int(v, rv, bits)
                    vals.append(("out", rv))
                    outs.append((p.name, rv))
                else:
                    vals.append(("scalar", v))
            res, rinfo = None, {"outs": outs}
            if best.result is not None:
                rp = best.result
                if rp.kind() == "scalar":
                    bits = ir.resolve(rt).bits
                    res = ex_.fresh_bool("lib_result") if bits == 1 else ex_.fresh("lib_result", bits)
                    rinfo["value"] = res
                elif rp.kind() == "string":
                    s_ = wrapsym.Stub(None).fresh_string(ex_, "lib_result")
                    rinfo.update(len=s_.len, arr=s_.buf.arr)
                    if sret is not None:
                        models.construct(ex_, sret, s_)
                    else:
                        o = ex_.new_obj("lib_string", 32, "extern")
                        ex_.strings[(o.id, 0)] = s_
                        res = Ptr(o, 0)
                elif rp.kind() == "nativep":
                    o = ex_.new_obj("lib_array", 1 << 20, "extern")
                    res = Ptr(o, 0)
                    rinfo["value"] = res
                else:
                    raise Unsupported("library result kind %s" % rp.kind())
            rinfo["this"] = this
            rinfo["env"] = {}
            for p, v in zip(best.params, vals):
                if v[0] == "scalar" and not z3.is_bool(v[1]) and v[1].size() == 32:
                    rinfo["env"][p.name] = v[1]
            h.calls.append((dem, best, vals, rinfo, len(argv) - k))
            return res
        ex.stubs["*"] = lib

        def to_pylist(ex_, name, argv, argt, rt):
            p, n = argv[0], argv[1]
            ebits = ir.size_of(ir.resolve(argt[0]).to) * 8
            n64 = wrapsym.sx(n)
            if isinstance(p, Ptr) and p.obj is not None and p.obj.kind == "heap":
                ex_.check_access(p, n64 * (ebits // 8), name)
            return w.new("list", {"ptr": p, "size": n64, "bits": ebits})
        for fname, f in m.functions.items():
            if "SHROUD_to_PyList_" in fname:
                ex.stubs[fname] = to_pylist

        def assert_fail(ex_, name, argv, argt, rt):
            # an assert of the CPython headers (e.g. PyFloat_AS_DOUBLE on something that is not a float): the unchecked
            # macro was applied to an object of another type; with NDEBUG it reads whatever lies there
            msg = ex_.cstring_at(argv[0])
            raise MemViolation("assertion", "a CPython header assertion fails: %s" % (msg.decode() if msg else "?"), ex_.e.model())
        ex.stubs["__assert_fail"] = assert_fail
        self.cpython_reject = None
        if self.entry.get("static_of") and "METH_STATIC" not in self.entry["flags"]:
            # CPython: a method registered without METH_STATIC is a method descriptor; called through the class it takes its
            # first positional argument as the instance (TypeError without one, TypeError for an object of another type)
            self.cpython_reject = "%s is a static method of %s but is not registered METH_STATIC: CPython demands an instance for %s.%s(...)" % (
                self.pyname.split(".")[-1], self.entry["static_of"], self.entry["static_of"], self.pyname.split(".")[-1])
            w.err = "PyExc_TypeError"
            self.ret = NULL
            return ex
        selfo = ex.new_obj("py_module", 64, "extern")
        self.inst = None
        if self.entry.get("instance_of"):
            # an instance of the extension type: {PyObject_HEAD, <Class> *obj, int idtor}; a method finds the C++ object
            # in `obj`; the constructor (tp_init) runs on an instance whose `obj` is still NULL, as tp_new leaves it
            selfo = ex.new_obj("py_instance_of_%s" % self.entry["instance_of"], 32, "extern")
            selfo.cells[0] = (8, z3.BitVecVal(1, 64))
            if self.entry.get("ctor"):
                selfo.cells[16] = (8, NULL)
                selfo.cells[24] = (4, z3.BitVecVal(0, 32))
            else:
                self.inst = ex.new_obj("cxx_instance_of_%s" % self.entry["instance_of"], 64, "extern")
                selfo.cells[16] = (8, Ptr(self.inst, 0))
                selfo.cells[24] = (4, ex.fresh("instance_idtor", 32))
        self.selfo = selfo
        self.ret = ex.call_function(fn[0], [Ptr(selfo, 0), Ptr(w.args, 0), Ptr(w.kwds, 0) if w.kwds is not None else NULL])
        return ex

    def witness(self, m, what):
        w = self.w
        return {"kernel": "python", "function": self.pyname, "supplied": w.total, "positional": w.npos, "keyword": w.nkw,
                "skipped": w.hole,
                "parses": [{"format": p["format"], "converted": p["ok"]} for p in w.parses],
                "called": [c[0] for c in self.calls], "error_set": w.err, "api_misuse": list(w.misuse), "what": what,
                "lists": {str(j): ("not a sequence" if ob.obj.tag.get("as_list") == "no" else
                                   [["int", "float", "other", "str", "none"][it.obj.tag["kind"]] for it in ob.obj.tag["as_list"][1]])
                          for j, ob in getattr(w, "argobj", {}).items() if ob.obj.tag.get("as_list") is not None},
                # the integer items' values in the solver's model (the native replay passes these very numbers)
                "list_values": {str(j): [self.model_int(m, it.obj.tag.get("ival")) if it.obj.tag["kind"] == 0 else None
                                         for it in ob.obj.tag["as_list"][1]]
                                for j, ob in getattr(w, "argobj", {}).items()
                                if ob.obj.tag.get("as_list") not in (None, "no")}}

    @staticmethod
    def model_int(m, term):
        try:
            v = m.eval(term, model_completion=True).as_long()
            v = v - (1 << 64) if v >= (1 << 63) else v
            # keep the number inside a C int so that every element type of the library can hold it
            return v if -100000 < v < 100000 else None      # (also printed unchanged by the recording library's %g)
        except Exception:
            return None

    def judge(self, e, kind, value):
        cls = "python/%s" % self.pyname
        w = self.w
        if kind == "exc":
            if isinstance(value, MemViolation):
                return {"cls": cls, "violation": self.witness(value.model or e.model(), "memory safety: %s" % value), "vkey": "%s:mem" % self.pyname}
            return {"cls": cls, "violation": self.witness(e.model(), "unexpected %s: %s" % (type(value).__name__, str(value)[:160])),
                    "vkey": "%s:exc" % self.pyname}
        fail = None
        known = None
        returned_null = isinstance(self.ret, Ptr) and self.ret.obj is None
        if self.entry.get("ctor"):
            # tp_init reports failure with -1 (an exception set) and success with 0
            rc = conc(self.ret) if not isinstance(self.ret, Ptr) else None
            if rc is None or (rc & 0xFFFFFFFF) not in (0, 0xFFFFFFFF):
                fail = "tp_init returns %r, neither 0 nor -1" % (self.ret,)
            returned_null = rc is not None and (rc & 0xFFFFFFFF) == 0xFFFFFFFF
        if getattr(self, "cpython_reject", None):
            fail = self.cpython_reject
        if w.misuse:
            fail = "API misuse on this path: %s" % w.misuse[0]
            if "PyDict_Size called on tuple" in w.misuse[0]:
                known = "pydict-size-args"
        # which signature does the call select?
        sel = [s for s in self.entry["sigs"] if w.maxpos() <= len(in_params(s)) and
               all(w.supplied(j_) for j_, p in enumerate(in_params(s)) if p.init is None)]
        parsed_ok = [p for p in w.parses if p["ok"]]
        # list-mode array arguments: a signature accepts the call only if the object is a sequence whose items all
        # convert to its element type (an int item converts to int and double, a float item to double only)
        argobj = getattr(w, "argobj", {})

        def accepts(sg):
            for j, p_ in enumerate(in_params(sg)[:w.total]):
                ob = argobj.get(j)
                if ob is None or not (p_.kind() in ("vector", "charpp") or (p_.kind() == "nativep" and (p_.attrs.get("rank") or p_.attrs.get("dimension")))):
                    continue
                info = ob.obj.tag.get("as_list")
                if info is None:
                    continue
                if info == "no":
                    return False
                kinds = [it.obj.tag["kind"] for it in info[1]]
                if p_.kind() == "charpp":
                    if any(k_ not in (3, 4) for k_ in kinds):       # str or None
                        return False
                    continue
                et = p_.elem if p_.kind() == "vector" else p_.tname
                okk = (0,) if et in ("int", "long", "short", "size_t", "unsigned int") else (0, 1)
                if any(k_ not in okk for k_ in kinds):
                    return False
            return True
        if argobj:
            conv = [s_ for s_ in sel if accepts(s_)]
            if sel and not conv:
                parsed_ok = []          # a legitimate rejection: the list cannot be converted for any matching signature
                sel_for_untried = []
            else:
                sel = conv[:1] if conv else sel      # the first matching signature in declaration order is the one selected
        noparse = bool(sel) and w.total == 0 and not w.parses and all(not in_params(s) for s in sel)
        if noparse:
            parsed_ok = [{"stored": {}, "ok": True}]
        if not fail and sel and not parsed_ok and not noparse and not (argobj and not [s_ for s_ in sel if accepts(s_)]):
            # a call whose argument count matches a signature must at least be offered to that signature's parser
            tried = set()
            for p_ in w.parses:
                units, nreq = parse_format(p_["format"])
                tried.add((nreq, len(units)))
            for s_ in sel:
                ins_ = in_params(s_)
                shape = (len(ins_) - sum(1 for q in ins_ if q.init is not None), len(ins_))
                if shape not in tried and (len(sel) == 1 or not w.parses):
                    fail = "a call with %d arguments matches %s(%s) but is rejected without that signature's parser being tried" % (
                        w.total, s_.name, ", ".join(q.tname for q in ins_))
        if not fail:
            if not sel or not parsed_ok:
                # no overload matches / conversion failed: NULL with TypeError or ValueError, library untouched
                if not returned_null:
                    fail = "a call that matches no signature or cannot be converted returns an object"
                elif w.err not in ("PyExc_TypeError", "PyExc_ValueError"):
                    fail = "a failing call sets %s, expected TypeError/ValueError" % w.err
                elif self.calls:
                    fail = "the library is called although the arguments could not be converted"
            else:
                if len(self.calls) != 1:
                    fail = "%d library calls for a valid call, expected one" % len(self.calls)
                    if returned_null and w.err:
                        fail = "a valid call with %d arguments (%d positional, %d keyword) fails with %s" % (w.total, w.npos, w.nkw, w.err)
                else:
                    dem, sig, vals, rinfo, ncall = self.calls[0]
                    pr = parsed_ok[-1]
                    ins = in_params(sig)
                    if len(ins) < w.total or sig not in sel:
                        fail = "the call selects %s with %d arguments but %s is called" % (self.pyname, w.total, dem)
                    else:
                        # every supplied argument reaches the library with its stored value; the arity is the supplied count
                        nout = len(out_params(sig))
                        if w.hole < 0 and ncall != w.total + nout + (0 if True else 0) and ncall != len(sig.params):
                            fail = "the library is called with %d arguments for %d supplied" % (ncall, w.total)
                        idx = z3.BitVec("idx", 64)
                        j = 0
                        for p, v in zip(sig.params, vals):
                            if fail:
                                break
                            if p.intent not in ("in", "inout"):
                                continue
                            if p.attrs.get("implied") or p.attrs.get("hidden"):
                                continue        # computed by the wrapper, not a position of the call (judged with its array)
                            if j == w.hole:
                                # a parameter skipped by keyword is passed explicitly: it must carry its declared default
                                if v[0] == "scalar" and not is_concrete(v[1]):
                                    fail = "parameter '%s', skipped by keyword, reaches the library with an uninitialised value instead of its default %s" % (p.name, p.init)
                                    known = "keyword-skips-default"
                                elif v[0] == "scalar" and default_value(p.init) is not None:
                                    dv = default_value(p.init)
                                    a_ = v[1]
                                    bad_ = (a_ != (dv != 0)) if z3.is_bool(a_) else (a_ != z3.BitVecVal(dv, a_.size()))
                                    if e.check(bad_) == "sat":
                                        fail = "parameter '%s', skipped by keyword, reaches the library with a value other than its default %s" % (p.name, p.init)
                                j += 1
                                continue
                            if not w.supplied(j):
                                # compiler-supplied default of an omitted argument: must come from an arity that omits it
                                if ncall == len(sig.params) and sig.ndefault and v[0] == "scalar" and not is_concrete(v[1]):
                                    fail = "omitted argument '%s' reaches the library with an uninitialised value" % p.name
                                j += 1
                                continue
                            st = pr["stored"].get(j)
                            if st is None:
                                fail = "argument '%s' was not stored by the parser" % p.name
                            elif st[0] == "scalar" and v[0] == "scalar":
                                a_, b_ = v[1], st[1]
                                if z3.is_bool(a_):
                                    b_ = b_ != 0
                                elif a_.size() != b_.size():
                                    b_ = z3.Extract(a_.size() - 1, 0, b_) if b_.size() > a_.size() else z3.SignExt(a_.size() - b_.size(), b_)
                                if e.check(a_ != b_) == "sat":
                                    fail = "argument '%s' does not reach the library with the converted value" % p.name
                            elif st[0] == "object" and v[0] == "array_in":
                                info = st[1].obj.tag.get("as_list")
                                if not info or info == "no":
                                    fail = "array argument '%s' reaches the library although the Python object is not a sequence" % p.name
                                else:
                                    elems = info[1]
                                    ptr, ebits, arr0, live0, size0 = v[1], v[2], v[3], v[4], v[5]
                                    if not (isinstance(ptr, Ptr) and ptr.obj is not None and live0):
                                        if elems:
                                            fail = "array argument '%s' is not a live buffer when the library is called" % p.name
                                    elif conc(size0) is not None and conc(size0) < len(elems) * (ebits // 8):
                                        fail = "array argument '%s': the buffer holds fewer than %d elements" % (p.name, len(elems))
                                    else:
                                        for k_, it in enumerate(elems):
                                            got_ = z3.Concat(*[z3.Select(arr0, bv(ptr.off) + k_ * (ebits // 8) + b_) for b_ in range(ebits // 8 - 1, -1, -1)])
                                            if p.tname in ("double", "float"):
                                                want_ = it.obj.tag["fval"] if it.obj.tag["kind"] == 1 else \
                                                    self.ex.from_fp(z3.fpSignedToFP(z3.RNE(), it.obj.tag["ival"], z3.Float64()))
                                            else:
                                                want_ = z3.Extract(ebits - 1, 0, it.obj.tag["ival"])
                                            if want_.size() == got_.size() and e.check(got_ != want_) == "sat":
                                                fail = "element %d of array argument '%s' does not reach the library with the item's value" % (k_, p.name)
                                                break
                                    # the implied extent
                                    for q_, vq in zip(sig.params, vals):
                                        if not fail and q_.attrs.get("implied") and re.match(r"size\(\s*%s\s*\)" % re.escape(p.name), q_.attrs["implied"]) and vq[0] == "scalar":
                                            if e.check(wrapsym.sx(vq[1]) != len(elems)) == "sat":
                                                fail = "implied argument '%s' is not the number of items of '%s'" % (q_.name, p.name)
                                    if not fail and isinstance(ptr, Ptr) and ptr.obj is not None and ptr.obj.kind == "heap" and ptr.obj.live:
                                        fail = "the buffer converted from the list argument '%s' is never released" % p.name
                            elif st[0] == "object" and v[0] == "charpp_in":
                                info = st[1].obj.tag.get("as_list")
                                if not info or info == "no":
                                    fail = "char ** argument '%s' reaches the library although the Python object is not a sequence" % p.name
                                else:
                                    elems = info[1]
                                    ptr, seen = v[1], v[2]
                                    if elems and len(seen) < len(elems):
                                        fail = "char ** argument '%s': the library is handed %d pointers for a list of %d items" % (p.name, len(seen), len(elems))
                                    for k_, it in enumerate(elems):
                                        if fail:
                                            break
                                        sk = seen[k_]
                                        if it.obj.tag["kind"] == 4:
                                            if sk is not None:
                                                fail = "item %d of '%s' is None but the library does not see a null pointer" % (k_, p.name)
                                        elif sk is None:
                                            fail = "item %d of '%s' is a string but the library sees a null pointer" % (k_, p.name)
                                        else:
                                            chars = it.obj.tag["text"]
                                            bad = [sk[0] != len(chars)] + [z3.Select(sk[1], sk[2] + c_) != ch for c_, ch in enumerate(chars)]
                                            if e.check(z3.Or(bad)) == "sat":
                                                fail = "item %d of '%s' does not reach the library with the item's text" % (k_, p.name)
                                    for q_, vq in zip(sig.params, vals):
                                        if not fail and q_.attrs.get("implied") and re.match(r"size\(\s*%s\s*\)" % re.escape(p.name), q_.attrs["implied"]) and vq[0] == "scalar":
                                            if e.check(wrapsym.sx(vq[1]) != len(elems)) == "sat":
                                                fail = "implied argument '%s' is not the number of items of '%s'" % (q_.name, p.name)
                                    if not fail:
                                        left = [o_ for o_ in ([ptr.obj] if isinstance(ptr, Ptr) and ptr.obj is not None else []) +
                                                [sk[3] for sk in seen if sk is not None] if o_.kind == "heap" and o_.live]
                                        if left:
                                            fail = "memory converted from the list argument '%s' is never released (%s)" % (p.name, left[0].name)
                            elif st[0] == "object" and v[0] == "vector_in":
                                info = st[1].obj.tag.get("as_list")
                                if not info or info == "no":
                                    fail = "vector argument '%s' reaches the library although the Python object is not a sequence" % p.name
                                else:
                                    elems = info[1]
                                    esz = wrapsym.VECTOR_ELEM.get(p.elem, 4)
                                    begin, end, arr0 = v[1], v[2], v[3]
                                    nbytes = 0
                                    if isinstance(begin, Ptr) and begin.obj is not None and isinstance(end, Ptr) and end.obj is begin.obj:
                                        nbytes = conc(z3.simplify(bv(end.off) - bv(begin.off)))
                                    if nbytes != len(elems) * esz:
                                        fail = "vector argument '%s' has %s bytes of elements, the list has %d items" % (p.name, nbytes, len(elems))
                                    else:
                                        for k_, it in enumerate(elems):
                                            got_ = z3.Concat(*[z3.Select(arr0, bv(begin.off) + k_ * esz + b_) for b_ in range(esz - 1, -1, -1)])
                                            if p.elem in ("double", "float"):
                                                want_ = it.obj.tag["fval"] if it.obj.tag["kind"] == 1 else \
                                                    self.ex.from_fp(z3.fpSignedToFP(z3.RNE(), it.obj.tag["ival"], z3.Float64()))
                                            else:
                                                want_ = z3.Extract(esz * 8 - 1, 0, it.obj.tag["ival"])
                                            if want_.size() == got_.size() and e.check(got_ != want_) == "sat":
                                                fail = "element %d of vector argument '%s' does not reach the library with the item's value" % (k_, p.name)
                                                break
                            elif st[0] == "bool":
                                a_ = v[1] if z3.is_bool(v[1]) else v[1] != 0
                                if e.check(a_ != st[1]) == "sat":
                                    fail = "bool argument '%s' does not reach the library with its truth value" % p.name
                            elif st[0] == "string" and v[0] == "string":
                                off = v[3] if len(v) > 3 else z3.BitVecVal(0, 64)
                                bad = z3.Or(v[1] != st[1], z3.And(z3.ULT(idx, st[1]), z3.Select(v[2], off + idx) != z3.Select(st[2], idx)))
                                if e.check(bad) == "sat":
                                    fail = "string argument '%s' does not reach the library unchanged" % p.name
                            j += 1
                        if not fail and self.entry.get("instance_of") and not self.entry.get("ctor"):
                            th = rinfo.get("this")
                            if not (isinstance(th, Ptr) and th.obj is self.inst and conc(th.off) == 0):
                                fail = "the method is not called on the C++ object the Python instance holds (this != self->obj)"
                        if not fail and self.entry.get("ctor"):
                            fail = self.check_constructed(e, rinfo, returned_null)
                            if not fail and set(self.entry.get("release_slots", {})) <= {"tp_del"}:
                                # CPython 3 calls tp_dealloc (and, for heap or GC types, tp_finalize) when an instance dies;
                                # tp_del is a legacy slot that nothing calls for a static type
                                fail = ("the instance owns the constructed object, but the function that releases it is registered in %s only: "
                                        "CPython 3 never calls it, the C++ object outlives every instance" % (sorted(self.entry["release_slots"]) or ["no slot"])[0])
                                known = "python-instance-never-released"
                        elif not fail:
                            fail = self.check_result(e, sig, rinfo, returned_null)
        if self.twin and not fail:
            fail = "reachability twin"
        if fail:
            wt = self.witness(e.model(), fail)
            wt["known"] = known
            return {"cls": cls, "violation": wt, "vkey": "%s:%s" % (self.pyname, known or re.sub(r"\d+", "N", fail)[:50])}
        return {"cls": cls + ("/called" if self.calls else "/rejected"), "sample": self.witness(e.model(), None)}

    def check_constructed(self, e, rinfo, returned_null):
        if returned_null:
            return "a valid constructor call fails (error %s)" % self.w.err
        th = rinfo.get("this")
        if not (isinstance(th, Ptr) and th.obj is not None and th.obj.kind == "heap" and th.obj.alloc == "new" and conc(th.off) == 0):
            return "the constructor does not run on fresh operator new storage"
        if not th.obj.live:
            return "the constructed object is released before the instance can use it"
        held = self.ex.load_ptr(Ptr(self.selfo, 16))
        if not (isinstance(held, Ptr) and held.obj is th.obj and conc(held.off) == 0):
            return "the instance does not hold the object its constructor created (self->obj)"
        idt = self.ex.load_int(Ptr(self.selfo, 24), 32)
        if e.check(idt == 0) == "sat":
            return "the instance owns the constructed object but its destructor index is 0: the object is never released"
        return None

    def check_result(self, e, sig, rinfo, returned_null):
        if returned_null:
            return "a valid call returns NULL (error %s)" % self.w.err
        r = self.ret
        tagv = r.obj.tag.get("py") if isinstance(r, Ptr) and r.obj is not None else None
        want = []
        if sig.result is not None:
            want.append(("result", sig.result, rinfo))
        handed_back = set(p.name for p in out_params(sig))
        for (nm, v) in rinfo["outs"]:
            if nm in handed_back:          # an intent(out)+hidden argument stays inside the wrapper
                want.append(("out", nm, v))
        if not want:
            if not (isinstance(r, Ptr) and r.obj is not None and r.obj.tag.get("symbol") == "_Py_NoneStruct"):
                return "a void function does not return None"
            return None
        items = [tagv] if tagv is None or tagv[0] != "tuple" or not isinstance(tagv[1], list) else [(k, v) for (k, v) in tagv[1]]
        # an object placed into the tuple with 'O' / 'N' is what it was built as
        items = [(v.obj.tag["py"] if (k == "object" and isinstance(v, Ptr) and v.obj is not None and v.obj.tag.get("py")) else (k, v))
                 for (k, v) in [it if it is not None else (None, None) for it in items]] if tagv is not None else items
        if tagv is None:
            return "the returned object was not built by the wrapper"
        if len(items) != len(want):
            return "the call returns %d values, expected the result followed by every output argument (%d)" % (len(items), len(want))
        idx = z3.BitVec("idx", 64)
        for (k, v), wnt in zip(items, want):
            if wnt[0] == "result":
                rp, ri = wnt[1], wnt[2]
                if rp.kind() == "scalar":
                    lv = ri["value"]
                    if rp.tname == "bool":
                        if k != "bool":
                            return "a bool result is returned as %s" % k
                        a_ = v if z3.is_bool(v) else v != 0
                        b_ = lv if z3.is_bool(lv) else lv != 0
                        if e.check(a_ != b_) == "sat":
                            return "the returned bool is not the library's result"
                    else:
                        if k not in ("int", "float", "uint"):
                            return "a numeric result is returned as %s" % k
                        unsigned = rp.tname in ("size_t", "unsigned int", "unsigned long", "unsigned", "uint64_t", "uint32_t")
                        if unsigned and k == "int" and v.size() == 64 and lv.size() == 64 and e.check(v < 0) == "sat":
                            return "an unsigned result (%s) is converted with a signed constructor: values >= 2**63 come out negative" % rp.tname
                        if not unsigned and k == "uint" and e.check(v < 0) == "sat":
                            return "a signed result (%s) is converted with an unsigned constructor" % rp.tname
                        a_, b_ = v, lv
                        if a_.size() != b_.size():
                            b_ = z3.SignExt(a_.size() - b_.size(), b_) if a_.size() > b_.size() else z3.Extract(a_.size() - 1, 0, b_)
                        if e.check(a_ != b_) == "sat":
                            return "the returned number is not the library's result"
                elif rp.kind() == "nativep":
                    dim = sig.node.ast.attrs["dimension"]
                    if k != "list" or not dim:
                        return "a pointer result is returned as %s" % k
                    cnt = dim_count(dim, ri["env"])
                    if not (isinstance(v["ptr"], Ptr) and v["ptr"].obj is ri["value"].obj):
                        return "the list is not built from the pointer the library returned"
                    if e.check(v["size"] != cnt, *dim_bounds(dim, ri["env"])) == "sat":
                        return "the list does not have dimension(%s) elements" % dim
                elif rp.kind() == "string":
                    if k != "str":
                        return "a string result is returned as %s" % k
                    n, arr, off = v
                    bad = z3.Or(n != ri["len"], z3.And(z3.ULT(idx, n), z3.Select(arr, off + idx) != z3.Select(ri["arr"], idx)))
                    if e.check(bad) == "sat":
                        return "the returned string is not the library's string"
            elif wnt[0] == "out" and isinstance(wnt[2], tuple) and wnt[2][0] == "array_inout":
                _, ptr, pname = wnt[2]
                if k != "list":
                    return "inout array argument '%s' is returned as %s" % (pname, k)
                if not (isinstance(v["ptr"], Ptr) and isinstance(ptr, Ptr) and v["ptr"].obj is ptr.obj):
                    return "the list returned for '%s' is not built from the buffer the library worked on" % pname
                ins_ = in_params(sig)
                jj = [j_ for j_, q_ in enumerate(ins_) if q_.name == pname]
                ob = getattr(self.w, "argobj", {}).get(jj[0]) if jj else None
                info = ob.obj.tag.get("as_list") if ob is not None else None
                if info and info != "no" and e.check(v["size"] != len(info[1])) == "sat":
                    return "the list returned for the inout array '%s' does not have as many items as the list that was passed" % pname
            elif wnt[0] == "out" and isinstance(wnt[2], tuple) and wnt[2][0] == "string":
                _, wl, warr = wnt[2]
                if k != "str":
                    return "string output argument '%s' is returned as %s" % (wnt[1], k)
                n, arr, off = v
                bad = z3.Or(n != wl, z3.And(z3.ULT(idx, n), z3.Select(arr, off + idx) != z3.Select(warr, idx)))
                if e.check(bad) == "sat":
                    return "the string returned for '%s' is not the text the library assigned (all of its size() characters)" % wnt[1]
            elif wnt[0] == "out" and isinstance(wnt[2], tuple) and wnt[2][0] == "array":
                _, ptr, dim = wnt[2]
                if k != "list":
                    return "array output argument '%s' is returned as %s" % (wnt[1], k)
                cnt = dim_count(dim, rinfo["env"])
                if not (isinstance(v["ptr"], Ptr) and isinstance(ptr, Ptr) and v["ptr"].obj is ptr.obj):
                    return "the list for '%s' is not built from the buffer the library filled" % wnt[1]
                bnd = dim_bounds(dim, rinfo["env"])
                if e.check(v["size"] != cnt, *bnd) == "sat":
                    return "the list for '%s' does not have dimension(%s) elements" % (wnt[1], dim)
                if ptr.obj is not None and ptr.obj.alloc == "malloc":
                    need = cnt * (v["bits"] // 8)
                    if e.check(bv(ptr.obj.size) != need, *bnd) == "sat":
                        return "the buffer for '%s' is not sizeof(element) * dimension(%s) bytes" % (wnt[1], dim)
                    if ptr.obj.live:
                        return "the temporary buffer for '%s' is not released" % wnt[1]
            else:
                lv = wnt[2]
                a_ = v
                if k not in ("int", "float") or (a_.size() != lv.size() and False):
                    return "output argument '%s' is returned as %s" % (wnt[1], k)
                b_ = lv
                if a_.size() != b_.size():
                    b_ = z3.SignExt(a_.size() - b_.size(), b_) if a_.size() > b_.size() else z3.Extract(a_.size() - 1, 0, b_)
                if e.check(a_ != b_) == "sat":
                    return "output argument '%s' is not returned with the value the library wrote" % wnt[1]
        return None


def eval_dim(text, env):
    """value (z3 BV64) of one dimension expression over the named arguments: + - * / parentheses, integers."""
    toks = re.findall(r"\d+|[A-Za-z_]\w*|[-+*/()]", text)
    pos = [0]

    def prim():
        t = toks[pos[0]]
        pos[0] += 1
        if t == "(":
            v = ex(0)
            pos[0] += 1
            return v
        if t == "-":
            return -prim()
        if t.isdigit():
            return z3.BitVecVal(int(t), 32)
        return env[t]
    prec = {"+": 1, "-": 1, "*": 2, "/": 2}

    def ex(mp):
        l = prim()
        while pos[0] < len(toks) and toks[pos[0]] in prec and prec[toks[pos[0]]] >= mp:
            op = toks[pos[0]]
            pos[0] += 1
            r = ex(prec[op] + 1)
            l = l + r if op == "+" else l - r if op == "-" else l * r if op == "*" else l / r
        return l
    return ex(0)


def dim_bounds(attr, env):
    """array extents are small non-negative numbers (int overflow of the extent product is outside the claim)"""
    names = set(re.findall(r"[A-Za-z_]\w*", attr))
    return [z3.And(env[n] >= 0, env[n] <= 1 << 12) for n in names if n in env]      # no int overflow of the product


def dim_count(attr, env):
    # the extents are C int expressions; their product is an int that is then widened (as the wrapper's C code does)
    parts = wrapsym.split_params(attr)
    total = None
    for p in parts:
        v = eval_dim(p, env)
        total = v if total is None else total * v
    return z3.SignExt(32, total)


def default_value(text):
    """integer meaning of a default-value spelling, None when it is not a plain literal"""
    if isinstance(text, bool):
        return int(text)
    if isinstance(text, int):
        return text
    t = str("" if text is None else text).strip()
    if t in ("true", "false"):
        return 1 if t == "true" else 0
    try:
        return int(t, 0)
    except ValueError:
        return None


def is_concrete(v):
    if z3.is_bool(v):
        s = z3.simplify(v)
        return z3.is_true(s) or z3.is_false(s)
    return conc(v) is not None


def make(**kw):
    return PyHarness(**kw)


def confirm_native(w):
    """Build the extension natively and perform the witnessed call shape from Python.
    Returns text if the real module misbehaves the same way, else None."""
    return native_call(w)


def native_call(w):
    import shutil
    import tempfile
    b = get_build()
    entry = py_functions(b)[w["function"]]
    inc = subprocess.check_output(["/venv/bin/python", "-c", "import sysconfig;print(sysconfig.get_paths()['include'])"], universal_newlines=True).strip()
    tmp = tempfile.mkdtemp(prefix="pyreplay_")
    try:
        for n, t in b.files.items():
            with open(os.path.join(tmp, n), "w") as f:
                f.write(t)
        with open(os.path.join(tmp, "pyl.hpp"), "w") as f:
            f.write(lc.lib_text("pyl.hpp"))
        # a recording library
        lib = ['#include "pyl.hpp"', '#include <cstdio>',
               'int add(int a, int b) { printf("LIB %d %d\\n", a, b); return 7; }',
               'double scale(double x, int times, bool neg) { printf("LIB %g %d %d\\n", x, times, (int) neg); return 2.5; }',
               'bool isPositive(long v) { printf("LIB %ld\\n", v); return true; }',
               'void noArgs() { printf("LIB\\n"); }',
               'const std::string getName() { printf("LIB\\n"); return "nm"; }',
               'void setName(const std::string &name) { printf("LIB %s\\n", name.c_str()); }',
               'int len(const char *s) { printf("LIB %s\\n", s); return 3; }',
               'void divmod(int a, int b, int *q, int *r) { printf("LIB %d %d\\n", a, b); *q = 11; *r = 13; }',
               'int pick(int a, int b, int c) { printf("LIB %d %d %d\\n", a, b, c); return 3; }',
               'int pick(double x) { printf("LIB %g\\n", x); return 1; }',
               'int vsum(const std::vector<int> &v) { printf("LIB"); for (size_t i = 0; i < v.size(); i++) printf(" %d", v[i]); printf(" | %d\\n", (int) v.size()); return 17; }',
               'long isum(const int *v, int n) { printf("LIB"); for (int i = 0; i < n; i++) printf(" %d", v[i]); printf(" | %d\\n", n); return 21; }',
               'int total(const int *v, int n) { printf("LIB"); for (int i = 0; i < n; i++) printf(" %d", v[i]); printf(" | %d\\n", n); return 31; }',
               'double total(const double *v, int n) { printf("LIB"); for (int i = 0; i < n; i++) printf(" %g", v[i]); printf(" | %d\\n", n); return 4.5; }',
               'int combo(int a, int b, int c, int d) { printf("LIB %d %d %d %d\\n", a, b, c, d); return 4; }',
               'int combo(double v, int k, int off) { printf("LIB %g %d %d\\n", v, k, off); return 8; }',
               'int stride(int num, int offset, int step) { printf("LIB %d %d %d\\n", num, offset, step); return 9; }',
               'int toggle(bool flag, int n, int m) { printf("LIB %d %d %d\\n", (int) flag, n, m); return 4; }',
               'int divide(int num, int *rem, int den, bool neg) { printf("LIB %d %d %d\\n", num, den, (int) neg); *rem = 13; return 6; }',
               'void fill2(int nrow, int ncol, double *out) { printf("LIB %d %d\\n", nrow, ncol); for (int i = 0; i < nrow * (ncol - 1); i++) out[i] = i; }',
               'int *getRow(int n) { static int row[4096]; printf("LIB %d\\n", n); return row; }',
               'int bump(int *v, int n) { printf("LIB"); for (int i = 0; i < n; i++) { printf(" %d", v[i]); v[i] += 1; } printf(" | %d\\n", n); return 6; }',
               'int sumdef(const int *x, int n, int scale) { printf("LIB"); for (int i = 0; i < n; i++) printf(" %d", x[i]); printf(" | %d %d\\n", n, scale); return 29; }',
               'size_t findPos(int k) { printf("LIB %d\\n", k); return (size_t) -1; }',
               'int clamp(int v, int *flag) { printf("LIB %d\\n", v); *flag = 1; return 10; }',
               'int Tally::total() { printf("LIB\\n"); return 41; }',
               'int Tally::scaled(int k) { printf("LIB %d\\n", k); return 42; }',
               'Tally::Tally(int start) { printf("LIB %d\\n", start); t = 77; }',
               'Tally::~Tally() { printf("DTOR\\n"); }',
               'int Tally::own() const { printf(t == 77 ? "LIB\\n" : "LIBBADTHIS\\n"); return 44; }',
               'int Tally::bumpBy(int k, int times) { printf(t == 77 ? "LIB %d %d\\n" : "LIBBADTHIS %d %d\\n", k, times); return 43; }',
               'void Tally::reset() { printf(t == 77 ? "LIB\\n" : "LIBBADTHIS\\n"); }',
               'double Tally::ratio(double d) const { printf(t == 77 ? "LIB %g\\n" : "LIBBADTHIS %g\\n", d); return 3.5; }',
               'int tag(int k, std::string &label) { printf("LIB %d\\n", k); label = std::string("ab\\0cd", 5); return 100; }',
               'int countNames(char **names, int n) { printf("LIB"); for (int i = 0; i < n; i++) printf(" %s", names[i] ? names[i] : "(null)"); printf(" | %d\\n", n); return 23; }']
        with open(os.path.join(tmp, "lib.cpp"), "w") as f:
            f.write("\n".join(lib) + "\n")
        so = os.path.join(tmp, "pyl.so")
        src = [os.path.join(tmp, n) for n in b.files if n.endswith(".cpp")] + [os.path.join(tmp, "lib.cpp")]
        p = subprocess.run(["g++", "-shared", "-fPIC", "-O0", "-w", "-ftrivial-auto-var-init=pattern", "-I", inc, "-I", tmp] + src + ["-o", so],
                           stdout=subprocess.PIPE, stderr=subprocess.STDOUT, universal_newlines=True)
        if p.returncode != 0:
            return None
        hole = w.get("skipped", -1)
        if hole is None:
            hole = -1
        sig = entry["sigs"][0]
        for s in entry["sigs"]:
            if len(in_params(s)) >= w["supplied"]:
                sig = s
                break
        for s in entry["sigs"]:
            # prefer the signature the argument count selects (required <= supplied <= all)
            ins_ = in_params(s)
            if len(ins_) - sum(1 for q in ins_ if q.init is not None) <= w["supplied"] <= len(ins_):
                sig = s
                break
        sample = {"int": "5", "long": "5", "double": "1.5", "bool": "True", "std::string": "'ab'", "char": "'ab'"}
        ins = in_params(sig)
        lists = w.get("lists", {})

        def sample_of(j, p):
            li = lists.get(str(j))
            if li is None and p.kind() == "charpp":
                return "['ab', 'c']"
            if li is None and (p.kind() == "vector" or (p.kind() == "nativep" and (p.attrs.get("rank") or p.attrs.get("dimension")))):
                return "[3, 3]"          # a list-mode array argument the symbolic run never looked into
            if li is None:
                return sample.get(p.tname, "1")
            if li == "not a sequence":
                return "5"
            lv = (w.get("list_values") or {}).get(str(j)) or [None] * len(li)
            return "[" + ", ".join(str(lv[i_]) if k == "int" and i_ < len(lv) and lv[i_] is not None else
                                   {"int": "3", "float": "2.5", "other": "object()", "str": "'ab'", "none": "None"}[k] for i_, k in enumerate(li)) + "]"
        posargs = [sample_of(j, p) for j, p in enumerate(ins[:w["positional"]])]
        kwargs = ["%s=%s" % (p.name, sample_of(w["positional"] + j, p)) for j, p in enumerate(ins[w["positional"]:w["supplied"]])]
        if hole >= 0:
            kwargs = ["%s=%s" % (p.name, sample_of(j, p)) for j, p in enumerate(ins[:w["supplied"] + 1]) if j >= w["positional"] and j != hole]
        extra = ["1"] * max(0, w["positional"] - len(ins))
        call = "pyl.%s(%s)" % (w["function"], ", ".join(posargs + extra + kwargs))
        pre = post = ""
        if entry.get("ctor"):
            # construct through the type; afterwards the instance is dropped and the library's destructor must run once
            call = "pyl.%s(%s)" % (entry["instance_of"], ", ".join(posargs + extra + kwargs))
            post = "    sys.stdout.flush(); print('---DROP'); r = None\n    import gc; gc.collect()\n"
        elif entry.get("instance_of"):
            # a method of an instance built by the class's constructor (the recording library marks the object it built)
            pre = "o = pyl.%s(9)\nprint('---CALL')\n" % entry["instance_of"]
            call = "o.%s(%s)" % (w["function"].split(".")[-1], ", ".join(posargs + extra + kwargs))
        prog = ("import sys; sys.path.insert(0, %r); import pyl\n%s"
                "try:\n    r = %s\n    print('RESULT', repr(r))\n%sexcept BaseException as ex:\n    print('EXC', type(ex).__name__, ex)\n" % (tmp, pre, call, post))
        p = subprocess.run(["/venv/bin/python", "-c", prog], stdout=subprocess.PIPE, stderr=subprocess.STDOUT, universal_newlines=True, timeout=60)
        out = p.stdout
        if "---CALL" in out:
            out = out.split("---CALL", 1)[1]
        dropped = None
        if "---DROP" in out:
            out, dropped = out.split("---DROP", 1)
        valid = any(len(in_params(s)) - sum(1 for q in in_params(s) if q.init is not None) <= w["supplied"] <= len(in_params(s))
                    for s in entry["sigs"]) and w["positional"] <= max(len(in_params(s)) for s in entry["sigs"])
        if hole >= 0:
            valid = w["supplied"] + 1 <= len(ins) and all(q.init is not None for j, q in enumerate(ins) if j == hole or j > w["supplied"])
        if lists:
            def sig_accepts(sg):
                for j_, p_ in enumerate(in_params(sg)[:w["supplied"]]):
                    li = lists.get(str(j_))
                    if li is None:
                        continue
                    if li == "not a sequence":
                        return False
                    if p_.kind() == "charpp":
                        okk = ("str", "none")
                    else:
                        okk = ("int",) if (p_.elem if p_.kind() == "vector" else p_.tname) in ("int", "long", "short") else ("int", "float")
                    if any(k_ not in okk for k_ in li):
                        return False
                return True
            cands = [s_ for s_ in entry["sigs"] if len(in_params(s_)) - sum(1 for q in in_params(s_) if q.init is not None) <= w["supplied"] <= len(in_params(s_))]
            valid = valid and any(sig_accepts(s_) for s_ in cands)
        if "SystemError" in out:
            return "%s raises SystemError natively: %s" % (call, out.strip().splitlines()[-1][:160])
        if p.returncode < 0:
            return "%s crashes natively (signal %d)" % (call, -p.returncode)
        if valid and "EXC" in out:
            return "%s is a valid call but fails natively: %s" % (call, out.strip().splitlines()[-1][:160])
        if not valid and "RESULT" in out:
            return "%s matches no signature but returns natively: %s" % (call, out.strip().splitlines()[-1][:160])
        if valid:
            # the recording library prints what it received: the supplied arguments must arrive with the sample values
            libline = [l for l in out.splitlines() if l.startswith("LIB")]
            shown = {"int": "5", "long": "5", "double": "1.5", "bool": "1", "std::string": "ab", "char": "ab"}
            if any(l.startswith("LIBBADTHIS") for l in libline):
                return "%s: the method ran natively on an object other than the one the instance was constructed with" % call
            if len(libline) != 1:
                return "%s: the library was called %d times natively" % (call, len(libline))
            if dropped is not None and w.get("known") == "python-instance-never-released" and dropped.count("DTOR") != 1:
                return "%s: after the instance is dropped the library's destructor ran %d times natively" % (call, dropped.count("DTOR"))
            if dropped is not None and "destructor index is 0" in (w.get("what") or ""):
                # natively unobservable while the type never runs its release function (the known finding above): the symbolic result stands
                return "%s: (re-execution only) %s" % (call, w["what"])
            got = libline[0].split()[1:]
            want = [shown.get(p_.tname, "1") for p_ in ins[:w["supplied"]]]
            if hole >= 0:
                # the skipped parameter arrives with its declared default, the others with the sample values
                want = [(str(default_value(p_.init)) if j_ == hole and default_value(p_.init) is not None else shown.get(p_.tname, "1"))
                        for j_, p_ in enumerate(ins[:w["supplied"] + 1])]
            if lists:
                jk = [k_ for k_, v_ in lists.items() if v_ != "not a sequence"][0]
                li = lists[jk]
                lv = (w.get("list_values") or {}).get(jk) or [None] * len(li)
                want = [(str(lv[i_]) if k_ == "int" and i_ < len(lv) and lv[i_] is not None else {"int": "3", "float": "2.5"}.get(k_, "?"))
                        for i_, k_ in enumerate(li)] + ["|", str(len(li))]
            elif any(p_.kind() == "vector" or (p_.kind() == "nativep" and (p_.attrs.get("rank") or p_.attrs.get("dimension"))) for p_ in ins[:w["supplied"]]):
                want = ["3", "3", "|", "2"]
            if got[:len(want)] != want:
                return "%s: the library received %r natively, the call supplies %r" % (call, got, want)
            res = [l for l in out.splitlines() if l.startswith("RESULT")]
            expect = {"Tally.own": "44", "Tally.bumpBy": "43", "Tally.reset": "None", "Tally.ratio": "3.5", "bump": "(6, [4, 4])", "findPos": "18446744073709551615", "Tally.total": "41", "Tally.scaled": "42", "tag": "(100, 'ab\\x00cd')", "countNames": "23", "add": "7", "scale": "2.5", "isPositive": "True", "noArgs": "None", "getName": "'nm'", "setName": "None", "len": "3",
                      "divmod": "(11, 13)", "divide": "(6, 13)", "clamp": "10", "stride": "9", "toggle": "4", "pick": "3" if w["supplied"] == 3 else "1"}
            if w["function"] == "bump" and lists:
                li_ = [v_ for v_ in lists.values() if v_ != "not a sequence"][0]
                lv_ = [v_ for k_, v_ in (w.get("list_values") or {}).items() if lists.get(k_) == li_]
                lv_ = lv_[0] if lv_ else [None] * len(li_)
                expect["bump"] = "(6, [%s])" % ", ".join(str((lv_[i_] if i_ < len(lv_) and lv_[i_] is not None else 3) + 1) for i_ in range(len(li_)))
            if w["function"] in expect and res and res[0].split(" ", 1)[1] != expect[w["function"]]:
                return "%s returns %s natively, the library's result is %s" % (call, res[0].split(" ", 1)[1], expect[w["function"]])
            if w["function"] == "fill2" and res:
                n = len(eval(res[0].split(" ", 1)[1]))
                if n != 5 * 4:
                    return "%s returns a list of %d elements natively, dimension(nrow, ncol-1) is 20" % (call, n)
            if w["function"] == "getRow" and res:
                n = len(eval(res[0].split(" ", 1)[1]))
                if n != 6:
                    return "%s returns a list of %d elements natively, dimension(n+1) is 6" % (call, n)
        return None
    finally:
        shutil.rmtree(tmp, ignore_errors=True)


def main():
    tier, seed, rp = checklib.tier_and_seed()
    if rp:
        with open(rp) as f:
            w = json.load(f)
        v = confirm_native(w)
        print("case:", json.dumps({k: w[k] for k in w if k != "what"})[:900])
        print("verdict:", v or "property holds on this call shape (native run)")
        if v:
            print("VIOLATION property=%s replay=%s" % (PID, rp))
        return 1 if v else 0
    rep = checklib.Report(PID)
    try:
        b = get_build()
    except Exception as ex:
        rep.inconc("cannot build the Python extension IR: %s" % str(ex)[:400])
        checklib.write_evidence(PID, tier, seed, "translation_validation", {"evaluations": 1, "distinct_nontrivial": 0, "samples": []}, [], rep.wall(), 0)
        return rep.finish()
    funcs = py_functions(b)
    specs = [("harness.C03", "make", dict(pyname=n)) for n in sorted(funcs)]
    accs = driver.explore_many(specs, split_depth=5, time_budget_s=900, max_decisions=50000)
    total = driver.Acc()
    runs = []
    for (mod, fac, kw), a in zip(specs, accs):
        total.merge(a)
        runs.append({"function": kw["pyname"], "paths": a.stats.paths, "queries": a.stats.queries, "violations": a.nviol, "classes": dict(a.counts)})
        for msg in a.inconclusive:
            rep.inconc("%s: %s" % (kw["pyname"], msg))
    tw = driver.explore(("harness.C03", "make", dict(pyname="add", twin=True)), nworkers=1)
    twin_ok = tw.stats.paths > 0 and tw.nviol == tw.stats.paths and not tw.inconclusive
    if not twin_ok:
        rep.inconc("reachability twin failed: %r" % (tw.inconclusive[:1],))
    known = {k["key"]: k for k in checklib.load_known(PID) if k.get("status") == "known"}
    seen, confirmed, printed = set(), 0, set()
    for i, v in enumerate(total.violations):
        key = v.get("_vkey")
        if key in seen:
            continue
        seen.add(key)
        native = confirm_native(v)
        if native is None:
            rep.inconc("counterexample did not reproduce natively: %s" % json.dumps(v)[:400])
            continue
        confirmed += 1
        kf = v.get("known")
        if kf and kf in known:
            if kf not in printed:
                printed.add(kf)
                rep.known_finding("%s (%s)" % (known[kf]["what_fails"], native[:160]))
            continue
        path = checklib.write_replay(PID, "cex%03d" % i, v)
        rep.violation(path, "%s | native: %s | function=%s supplied=%d positional=%d keyword=%d [%d paths]" % (
            v["what"], native[:200], v["function"], v["supplied"], v["positional"], v["keyword"], total.vcount.get(key, 1)))
    samples = []
    for cls, lst in sorted(total.samples.items()):
        s0 = lst[0]
        samples.append({k: s0[k] for k in ("function", "supplied", "positional", "keyword", "called", "error_set")})
    cov = {
        "programs": len(specs),
        "disagreements_checked": confirmed,
        "samples": samples[:12],
        "functions_encoded": ["%s (%s)" % (funcs[n]["cfunc"], n) for n in sorted(funcs)],
        "bounds": {"supplied_arguments": "0 .. #parameters+1, every split into positional / keyword; the keywords name the trailing supplied parameters or, for single-signature functions, skip one parameter (required: must be rejected; defaulted: the library must receive its declared default)",
                   "values": "full-width symbolic converted values, strings <= 3 chars"},
        "solver": {"name": "z3 " + z3.get_version_string(), "queries": total.stats.queries, "solver_s": round(total.stats.solver_s, 2)},
        "paths": total.stats.paths,
        "reachability_twin_ok": twin_ok,
        "outcome_classes": dict(total.counts),
        "runs": runs,
    }
    assumptions = [
        "the CPython API is a contract model: PyArg_ParseTupleAndKeywords (constant format string decoded from the IR), PyTuple_Size, PyDict_Size, PyLong_FromLong, PyFloat_FromDouble, PyBool_FromLong, PyUnicode_FromString[AndSize], Py_BuildValue, PyObject_IsTrue, PyErr_*; calling a size function on the wrong kind of object follows the documented behaviour (-1, SystemError) and is reported",
        "keyword arguments skip at most one parameter, and only on functions with a single signature (for overloads the keywords name a suffix of the supplied parameters)",
        "extension types / classes, reference-count balance, NumPy, list/vector helpers, struct arguments are outside",
        "counterexamples are confirmed natively: the generated module is compiled with g++ against CPython 3.12 and the call shape is performed from /venv/bin/python with a recording library",
    ]
    checklib.write_evidence(PID, tier, seed, "translation_validation", cov, assumptions, rep.wall(), len(rep.violations))
    return rep.finish()


if __name__ == "__main__":
    sys.exit(main())
