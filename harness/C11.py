"""C11 - enumeration constants keep their C++ values in C and Fortran.

The real parse (declast) -> ast.EnumNode.__init__ -> Wrapc.wrap_enum / Wrapf.wrap_enum run with
every integer literal a z3 integer (SymLit bound through the module-global name `int` of
shroud.ast at harness time).  Three meanings are built as z3 terms (truncating division) and
z3 decides whether any literal values make them differ.
"""
import builtins
import itertools
import json
import os
import re
import sys
import time

import z3

sys.path.insert(0, os.path.dirname(os.path.dirname(os.path.abspath(__file__))))
from engines.shadowsym.core import Engine, Unsupported  # noqa: E402
from engines.shadowsym import driver  # noqa: E402
from gen import refdecl  # noqa: E402
from lib import checklib  # noqa: E402

PID = "C11"
PLACE_BASE = 7000000          # placeholder numerals 7000001, 7000002, ... stand for L1, L2, ...
RANGE = 2 ** 20
MARK = "§"


# ---------------------------------------------------------------------------- SymLit
class SymLit(object):
    """Integer whose value is a z3 term; formats as a marker that maps back to the term."""
    __slots__ = ("e", "z", "reg")

    def __init__(self, e, z, reg):
        self.e, self.z, self.reg = e, z, reg

    def _o(self, o):
        if isinstance(o, SymLit):
            return o.z
        if isinstance(o, bool) or not isinstance(o, int):
            raise Unsupported("SymLit op with %r" % type(o))
        return o

    def __add__(self, o):
        return SymLit(self.e, self.z + self._o(o), self.reg)

    __radd__ = __add__

    def __sub__(self, o):
        return SymLit(self.e, self.z - self._o(o), self.reg)

    def __rsub__(self, o):
        return SymLit(self.e, self._o(o) - self.z, self.reg)

    def __mul__(self, o):
        return SymLit(self.e, self.z * self._o(o), self.reg)

    __rmul__ = __mul__

    def __neg__(self):
        return SymLit(self.e, -self.z, self.reg)

    def __pos__(self):
        return self

    def _floordiv(self, a, b):
        # Python's // rounds towards minus infinity; z3's integer division is Euclidean (floor for a positive divisor)
        zb = b if not isinstance(b, int) else z3.IntVal(b)
        if self.e.branch(zb == 0):
            raise ZeroDivisionError("integer division or modulo by zero")
        za = a if not isinstance(a, int) else z3.IntVal(a)
        return SymLit(self.e, z3.If(zb > 0, za / zb, (-za) / (-zb)), self.reg)

    def __floordiv__(self, o):
        return self._floordiv(self.z, self._o(o))

    def __rfloordiv__(self, o):
        return self._floordiv(self._o(o), self.z)

    def __truediv__(self, o):
        raise Unsupported("true division of enumerator literals (a float)")

    def __bool__(self):
        return self.e.branch(self.z != 0)

    def __eq__(self, o):
        if o is None or isinstance(o, str):
            return False
        return self.e.branch(self.z == self._o(o))

    def __ne__(self, o):
        return not self.__eq__(o)

    def __lt__(self, o):
        return self.e.branch(self.z < self._o(o))

    def __le__(self, o):
        return self.e.branch(self.z <= self._o(o))

    def __gt__(self, o):
        return self.e.branch(self.z > self._o(o))

    def __ge__(self, o):
        return self.e.branch(self.z >= self._o(o))

    def __hash__(self):
        raise Unsupported("hash(SymLit)")

    def _marker(self):
        self.reg.append(self.z)
        return "%s%d%s" % (MARK, len(self.reg) - 1, MARK)

    def __str__(self):
        return self._marker()

    __repr__ = __str__

    def __format__(self, spec):
        return self._marker()

    def __index__(self):
        raise Unsupported("index(SymLit)")

    def __int__(self):
        return self


# ---------------------------------------------------------------------------- shapes
OPS = ["+", "-", "*", "/"]


def member_forms(nprev, depth):
    """Value forms for a member with nprev earlier members.  'L' = fresh literal, 'E<i>' = earlier
    member i.  Returns list of token lists."""
    forms = [None, ["L"], ["-", "L"], ["+", "L"]]
    atoms = [["L"]] + [["E%d" % i] for i in range(nprev)]
    if depth >= 1:
        for i in range(nprev):
            forms.append(["E%d" % i])
            forms.append(["-", "E%d" % i])
            for op in OPS:
                forms.append(["E%d" % i, op, "L"])
            forms.append(["L", "-", "E%d" % i])
            forms.append(["(", "E%d" % i, "+", "L", ")", "*", "L"])
        if nprev >= 2:
            forms.append(["E0", "+", "E1"])
            forms.append(["E1", "-", "E0"])
            forms.append(["E0", "*", "E1"])
        forms.append(["L", "+", "L"])
        forms.append(["(", "L", ")"])
        # expressions of literals only (a value Shroud may fold by itself)
        forms.append(["L", "-", "L"])
        forms.append(["L", "*", "L"])
        forms.append(["L", "/", "L"])
        forms.append(["-", "L", "/", "L"])
        forms.append(["(", "L", "-", "L", ")", "/", "L"])
        # a literal spelled with a leading zero is octal in C++ (and C); Fortran reads the same digits as decimal
        forms.append(["O"])
        forms.append(["O", "*", "L"])
        forms.append(["-", "O"])
        for i in range(nprev):
            forms.append(["E%d" % i, "+", "O"])
    if depth >= 2:
        for i in range(nprev):
            forms.append(["L", "*", "(", "E%d" % i, "-", "L", ")"])
            forms.append(["(", "E%d" % i, "+", "L", ")", "/", "L"])
            forms.append(["-", "(", "E%d" % i, "*", "L", ")"])
            forms.append(["E%d" % i, "+", "L", "*", "L"])
            forms.append(["E%d" % i, "/", "L", "/", "L"])
            forms.append(["E%d" % i, "-", "L", "-", "L"])
            forms.append(["+", "E%d" % i])
            # a bracketed product / quotient on the right of / and *, and a signed operand after * and /
            forms.append(["L", "/", "(", "E%d" % i, "*", "L", ")"])
            forms.append(["L", "*", "(", "E%d" % i, "/", "L", ")"])
            forms.append(["L", "/", "(", "L", "/", "E%d" % i, ")"])
            forms.append(["E%d" % i, "*", "-", "L"])
            forms.append(["L", "/", "-", "E%d" % i])
            forms.append(["E%d" % i, "-", "-", "L"])
            # doubled parentheses, and a unary sign in front of a parenthesised sum / difference
            forms.append(["(", "(", "E%d" % i, "+", "L", ")", ")", "*", "L"])
            forms.append(["L", "-", "(", "(", "E%d" % i, "-", "L", ")", ")"])
            forms.append(["-", "(", "E%d" % i, "+", "L", ")"])
            forms.append(["L", "*", "-", "(", "E%d" % i, "-", "L", ")"])
            forms.append(["+", "(", "E%d" % i, "-", "L", ")", "*", "L"])
            # a group whose content begins and ends with parentheses that do not pair with each other
            forms.append(["L", "/", "(", "(", "E%d" % i, "+", "L", ")", "*", "(", "E%d" % i, "-", "L", ")", ")"])
            forms.append(["L", "-", "(", "(", "E%d" % i, ")", "+", "(", "L", ")", ")"])
        if nprev >= 2:
            forms.append(["(", "E0", "+", "E1", ")", "*", "L"])
            forms.append(["E0", "-", "(", "E1", "-", "L", ")"])
    return forms


NAMES = ["RED", "Blue", "WHITE", "x4", "Yy"]
OCTAL = ["010", "017", "0123"]          # spellings of octal literals (concrete: the value is tied to the digits)


def shape_text(shape, scoped):
    """shape: tuple of forms -> (declaration text, number of literals)"""
    nl = 0
    parts = []
    for i, f in enumerate(shape):
        if f is None:
            parts.append(NAMES[i])
            continue
        toks = []
        for t in f:
            if t == "L":
                nl += 1
                toks.append(str(PLACE_BASE + nl))
            elif t == "O":
                toks.append(OCTAL[(i + len(toks)) % len(OCTAL)])
            elif t.startswith("E"):
                toks.append(NAMES[int(t[1:])])
            else:
                toks.append(t)
        parts.append("%s = %s" % (NAMES[i], " ".join(toks)))
    kw = {None: "enum", "class": "enum class", "struct": "enum struct"}[scoped]
    return "%s Color { %s }" % (kw, ", ".join(parts)), nl


def all_shapes(tier):
    if tier == "quick":
        nmem, depth = 3, 2
    else:
        nmem, depth = 4, 2
    out = []
    for n in range(1, nmem + 1):
        per = [member_forms(i, depth) for i in range(n)]
        if tier == "thorough" and n == 4:
            # four members: first three at depth 1, the fourth at depth 2
            per = [member_forms(i, 1) for i in range(3)] + [member_forms(3, 2)]
        for combo in itertools.product(*per):
            out.append(combo)
    return out


# ---------------------------------------------------------------------------- evaluation of emitted text
def lit_value(text, lang):
    """Value of an integer literal as the language reads it: a leading 0 makes it octal in C and C++, Fortran reads
    every digit string as decimal."""
    if lang != "fortran" and len(text) > 1 and text[0] == "0":
        return int(text, 8)
    return int(text)


def tdiv(a, b):
    """C / C++ / Fortran integer division: truncation toward zero (z3 '/' on Int is Euclidean)."""
    return z3.If(b > 0,
                 z3.If(a >= 0, a / b, -((-a) / b)),
                 z3.If(a >= 0, -(a / (-b)), (-a) / (-b)))


TOK = re.compile(r"\s*(%s\d+%s|\d+|[A-Za-z_][A-Za-z0-9_]*|\+\+|--|[-+*/()])" % (MARK, MARK))


def eval_text(text, names, reg, divisors, lits=(), lang="c"):
    """Parse an emitted value expression (ints, markers, identifiers, + - * / parens, unary sign)
    into a z3 Int term.  names: identifier -> z3 term.  Raises KeyError for unknown identifiers."""
    toks = []
    pos = 0
    text = text.strip()
    while pos < len(text):
        m = TOK.match(text, pos)
        if not m:
            raise ValueError("cannot tokenise emitted value %r" % text)
        if m.group(1) in ("++", "--"):
            # maximal munch: C and C++ read two adjacent signs as the increment / decrement operator, which no
            # constant expression may contain (gcc: "lvalue required as decrement operand"); gfortran reads them as
            # a sign after an operator (an extension it warns about), so the Fortran text keeps its value
            if lang != "fortran":
                raise ValueError("%r holds the operator %s: not a constant expression in C" % (text, m.group(1)))
            toks.extend(m.group(1))
        else:
            toks.append(m.group(1))
        pos = m.end()
    i = [0]

    def peek():
        return toks[i[0]] if i[0] < len(toks) else None

    def adv():
        i[0] += 1
        return toks[i[0] - 1]

    def primary():
        t = peek()
        if t is None:
            raise ValueError("unexpected end in %r" % text)
        if t in "+-" and len(t) == 1:
            adv()
            v = primary()
            return -v if t == "-" else v
        if t == "(":
            adv()
            v = expr(0)
            if adv() != ")":
                raise ValueError("missing ) in %r" % text)
            return v
        adv()
        if t.startswith(MARK):
            return reg[int(t.strip(MARK))]
        if t.isdigit():
            n = int(t)
            if t[0] != "0" and PLACE_BASE < n <= PLACE_BASE + len(lits):
                return lits[n - PLACE_BASE - 1]     # a literal printed back from the expression text
            return z3.IntVal(lit_value(t, lang))
        return names[t]

    prec = {"+": 1, "-": 1, "*": 2, "/": 2}

    def expr(minp):
        lhs = primary()
        while peek() in prec and prec[peek()] >= minp:
            op = adv()
            rhs = expr(prec[op] + 1)
            if op == "+":
                lhs = lhs + rhs
            elif op == "-":
                lhs = lhs - rhs
            elif op == "*":
                lhs = lhs * rhs
            else:
                divisors.append(rhs)
                lhs = tdiv(lhs, rhs)
        return lhs

    v = expr(0)
    if i[0] != len(toks):
        raise ValueError("trailing text in emitted value %r" % text)
    return v


def eval_ref(e, env, lits, divisors):
    k = e[0]
    if k == "const":
        n = int(e[1])
        if str(e[1])[0] != "0" and n > PLACE_BASE:
            return lits[n - PLACE_BASE - 1]
        return z3.IntVal(lit_value(str(e[1]), "c++"))
    if k == "id":
        return env[e[1]]
    if k == "paren":
        return eval_ref(e[1], env, lits, divisors)
    if k == "unary":
        v = eval_ref(e[2], env, lits, divisors)
        return -v if e[1] == "-" else v
    if k == "bin":
        a = eval_ref(e[2], env, lits, divisors)
        b = eval_ref(e[3], env, lits, divisors)
        if e[1] == "+":
            return a + b
        if e[1] == "-":
            return a - b
        if e[1] == "*":
            return a * b
        divisors.append(b)
        return tdiv(a, b)
    raise ValueError("unsupported expression %r" % (e,))


# ---------------------------------------------------------------------------- context
_CTX = {}


class _Log(object):
    def write(self, s):
        pass


class _Config(object):
    def __init__(self):
        self.log = _Log()
        self.fc_shared_helpers = {}
        self.cfiles = []
        self.ffiles = []


class _FileInfo(object):
    def __init__(self):
        self.enum_impl = []
        self.module_use = {}


def module_info(lib):
    """the real per-module record of the Fortran emitter (a stand-in would miss attributes a changed tree adds)"""
    from shroud import wrapf
    try:
        wrapf.ModuleInfo.newlibrary = lib
        return wrapf.ModuleInfo(lib)
    except Exception:
        return _FileInfo()


def fresh_library():
    from shroud import ast, typemap
    typemap.initialize()
    lib = ast.LibraryNode(library="lib")
    ns = lib.add_namespace("outer")
    cls = lib.add_declaration("class Class1")
    return lib, ns, cls


def add_decoy(parent):
    """An earlier scoped enumeration in the same scope with the SAME member names and other values (legal C++:
    its enumerators do not leak).  The enumeration under test must keep referring to its own members."""
    names = ", ".join("%s = %s" % (n, (100 + 7 * i) if i != 1 else "%s + 5" % NAMES[0]) for i, n in enumerate(NAMES))
    return parent.add_enum("enum class Decoy { %s }" % names)


class EnumHarness(object):
    def __init__(self, shapes, scope, scoped, twin=False):
        self.shapes = shapes          # list of shapes handled by this harness (one exploration each)
        self.scope = scope            # 'lib' | 'ns' | 'class'
        self.scoped = scoped          # None | 'class' | 'struct'
        self.twin = twin
        self.idx = 0

    def set_shape(self, shape):
        self.shape = shape
        self.text, self.nlit = shape_text(shape, self.scoped)

    def run(self, e):
        import shroud.ast as A
        from shroud import wrapc, wrapf, declast
        self.reg = []
        self.lits = [z3.Int("L%d" % (i + 1)) for i in range(self.nlit)]
        for L in self.lits:
            e.assume(z3.And(L >= -RANGE, L <= RANGE))
        reg = self.reg
        lits = self.lits

        def sym_int(x=0, *a):
            if isinstance(x, str) and not a:
                s = x.strip()
                m = re.match(r"^([+-]?)(\d+)$", s)
                if m and int(m.group(2)) > PLACE_BASE and int(m.group(2)) <= PLACE_BASE + len(lits):
                    v = SymLit(e, lits[int(m.group(2)) - PLACE_BASE - 1], reg)
                    return -v if m.group(1) == "-" else v
            if isinstance(x, SymLit):
                return x
            return builtins.int(x, *a)

        lib, ns, cls = fresh_library()
        parent = {"lib": lib, "ns": ns, "class": cls}[self.scope]
        import shroud.todict as TD
        A.int = sym_int
        TD.int = sym_int          # (value expressions may also be read where they are printed / evaluated)
        try:
            decoy = add_decoy(parent)
            node = parent.add_enum(self.text)
            cfg = _Config()
            wc = wrapc.Wrapc(lib, cfg, {})
            wc._begin_output_file()
            wc.wrap_enum(cls if self.scope == "class" else None, decoy)
            del wc.enum_impl[:]
            wc.wrap_enum(cls if self.scope == "class" else None, node)
            wf = wrapf.Wrapf(lib, cfg, {})
            fi = module_info(lib)
            wf.wrap_enum(cls if self.scope == "class" else None, decoy, fi)
            del fi.enum_impl[:]
            wf.wrap_enum(cls if self.scope == "class" else None, node, fi)
        finally:
            del A.int
            del TD.int
        return node, list(wc.enum_impl), list(fi.enum_impl)

    def witness(self, m, what):
        vals = [m.eval(L, model_completion=True).as_long() for L in self.lits]
        text = self.text
        for i, v in enumerate(vals):
            text = text.replace(str(PLACE_BASE + i + 1), str(v))
        # a negative literal after unary minus etc. stays textually valid: "- -3" is rejected by the
        # tokenizer-free grammar, so render negatives in parentheses-free form only when legal
        return {"decl": text, "template": self.text, "literals": vals, "scope": self.scope,
                "scoped": self.scoped, "what": what}

    def judge(self, e, kind, value):
        cls = "%s/%s" % (self.scope, self.scoped or "plain")
        self.ctr = {}
        if kind == "exc":
            w = self.witness(e.model(), "exception %s: %s" % (type(value).__name__, str(value)[:150]))
            return {"cls": cls + "/exception", "violation": w, "vkey": "exception:" + type(value).__name__}
        node, clines, flines = value
        self.ctr = {"obligations": 0, "closed_by_z3_rewriter": 0, "closed_by_z3_solver": 0}
        try:
            fail = self.compare(e, node, clines, flines)
        except (KeyError, ValueError) as ex:
            fail = ("emitted value cannot be evaluated: %s: %s" % (type(ex).__name__, ex), e.model())
        if self.twin and not fail:
            fail = ("reachability twin", e.model())
        ctr = dict(self.ctr)
        if fail:
            what, m = fail
            return {"cls": cls, "violation": self.witness(m, what), "vkey": re.sub(r"\d+", "N", what)[:80], "counters": ctr}
        return {"cls": cls, "sample": {"decl": self.text, "c": clines[2:-1], "fortran": flines[2:]}, "counters": ctr}

    def compare(self, e, node, clines, flines):
        toks = [(t.typ, t.value) for t in __import__("shroud.declast", fromlist=["tokenize"]).tokenize(self.text)]
        ref = refdecl.read(toks)
        members = ref.extra["members"]
        divisors = []
        # 1. C++ meaning
        env = {}
        cxx = []
        prev = None
        for (name, val) in members:
            if val is None:
                v = z3.IntVal(0) if prev is None else prev + 1
            else:
                v = eval_ref(val, env, self.lits, divisors)
            env[name] = v
            cxx.append(v)
            prev = v
        # 2. emitted C enum
        body = [ln.strip() for ln in clines if ln.strip() and not ln.strip().startswith("//")]
        if not body or not body[0].startswith("enum ") or not body[-1].startswith("-}"):
            return ("C enum block malformed: %r" % (clines,), e.model())
        cl = body[1:-1]
        if len(cl) != len(members):
            return ("C enum has %d members, expected %d" % (len(cl), len(members)), e.model())
        cenv = {}
        cvals = []
        prev = None
        for ln, (name, _) in zip(cl, members):
            ln = ln.rstrip(",")
            if "=" in ln:
                cname, vtxt = [s.strip() for s in ln.split("=", 1)]
                v = eval_text(vtxt, cenv, self.reg, divisors, self.lits)
            else:
                cname = ln.strip()
                v = z3.IntVal(0) if prev is None else prev + 1
            if not cname.endswith(name) or cname in cenv:
                return ("C enumerator %r does not correspond to member %r" % (cname, name), e.model())
            cenv[cname] = v
            cvals.append(v)
            prev = v
        # 3. emitted Fortran parameters
        fl = [ln.strip() for ln in flines if ln.strip() and not ln.strip().startswith("!")]
        if len(fl) != len(members):
            return ("Fortran has %d parameters, expected %d" % (len(fl), len(members)), e.model())
        fenv = {}
        fvals = []
        for ln, (name, _) in zip(fl, members):
            m = re.match(r"^integer\(C_INT\), parameter :: (\w+) = (.*)$", ln)
            if not m:
                return ("Fortran parameter line malformed: %r" % ln, e.model())
            fname, vtxt = m.group(1), m.group(2)
            if not fname.endswith(name.lower()) or fname in fenv:
                return ("Fortran parameter %r does not correspond to member %r" % (fname, name), e.model())
            v = eval_text(vtxt, fenv, self.reg, divisors, self.lits, lang="fortran")
            fenv[fname] = v
            fvals.append(v)
        nz = [d != 0 for d in divisors]
        for i, (name, _) in enumerate(members):
            for lang, vals in (("C", cvals), ("Fortran", fvals)):
                self.ctr["obligations"] += 1
                q = z3.simplify(vals[i] != cxx[i])
                if z3.is_false(q):
                    self.ctr["closed_by_z3_rewriter"] += 1
                    continue
                r = e.check(q, *nz)
                if r != "sat":
                    self.ctr["closed_by_z3_solver"] += 1
                if r == "sat":
                    m = e.model(q, *nz)
                    return ("%s value of %s differs from the C++ value (%s vs %s)" % (
                        lang, name, m.eval(vals[i], model_completion=True), m.eval(cxx[i], model_completion=True)), m)
        return None


class Multi(object):
    """Explores a chunk of shapes inside one worker task (amortises process overhead)."""

    def __init__(self, chunk, scope, scoped, twin=False):
        self.h = EnumHarness(chunk, scope, scoped, twin)
        self.chunk = chunk

    def explore(self, engine, cb):
        for shape in self.chunk:
            self.h.set_shape(shape)
            engine.explore(self.h.run, cb)


def run_chunk(args):
    chunk, scope, scoped, twin = args
    from engines.shadowsym.core import Inconclusive
    import traceback
    acc = driver.Acc()
    h = EnumHarness(chunk, scope, scoped, twin)
    e = Engine()

    def cb(eng, kind, value):
        acc.record(h.judge(eng, kind, value))

    for shape in chunk:
        h.set_shape(shape)
        try:
            e.explore(h.run, cb)
        except Inconclusive as ex:
            acc.inconclusive.append("%s on %r: %s" % (type(ex).__name__, h.text, ex))
        except Exception:
            acc.inconclusive.append("harness error on %r: %s" % (h.text, traceback.format_exc()[-600:]))
    acc.stats.add(e.stats)
    return acc


# ---------------------------------------------------------------------------- replay
def concrete_values(w):
    """Real pipeline on the concrete declaration (no proxies): returns (cxx, c, fortran) int lists
    computed by evaluating the original declaration with Python ints and the emitted texts."""
    import shroud.ast as A
    from shroud import wrapc, wrapf, declast
    lib, ns, cls = fresh_library()
    parent = {"lib": lib, "ns": ns, "class": cls}[w["scope"]]
    decoy = add_decoy(parent)
    node = parent.add_enum(w["decl"])
    cfg = _Config()
    wc = wrapc.Wrapc(lib, cfg, {})
    wc._begin_output_file()
    wc.wrap_enum(cls if w["scope"] == "class" else None, decoy)
    del wc.enum_impl[:]
    wc.wrap_enum(cls if w["scope"] == "class" else None, node)
    wf = wrapf.Wrapf(lib, cfg, {})
    fi = module_info(lib)
    wf.wrap_enum(cls if w["scope"] == "class" else None, decoy, fi)
    del fi.enum_impl[:]
    wf.wrap_enum(cls if w["scope"] == "class" else None, node, fi)

    def pyeval(text, env, lang="c"):
        def trunc_div(a, b):
            q = abs(a) // abs(b)
            return q if (a >= 0) == (b >= 0) else -q
        # tiny evaluator with truncating division
        toks = re.findall(r"\d+|[A-Za-z_]\w*|\+\+|--|[-+*/()]", text)
        if lang != "fortran" and ("++" in toks or "--" in toks):
            raise ValueError("%r holds an increment / decrement operator: not a constant expression in C" % text)
        toks = [c for t in toks for c in (t if t in ("++", "--") else [t])]
        pos = [0]

        def prim():
            t = toks[pos[0]]
            pos[0] += 1
            if t == "-":
                return -prim()
            if t == "+":
                return prim()
            if t == "(":
                v = ex(0)
                pos[0] += 1
                return v
            if t.isdigit():
                return lit_value(t, lang)
            return env[t]
        prec = {"+": 1, "-": 1, "*": 2, "/": 2}

        def ex(mp):
            l = prim()
            while pos[0] < len(toks) and toks[pos[0]] in prec and prec[toks[pos[0]]] >= mp:
                op = toks[pos[0]]
                pos[0] += 1
                r = ex(prec[op] + 1)
                l = l + r if op == "+" else l - r if op == "-" else l * r if op == "*" else trunc_div(l, r)
            return l
        return ex(0)

    toks = [(t.typ, t.value) for t in declast.tokenize(w["decl"])]
    ref = refdecl.read(toks)
    env, cxx, prev = {}, [], None
    for (name, val) in ref.extra["members"]:
        v = (0 if prev is None else prev + 1) if val is None else pyeval(refdecl.expr_text(val), env)
        env[name] = v
        cxx.append(v)
        prev = v
    cenv, cv, prev = {}, [], None
    for ln in [l.strip().rstrip(",") for l in wc.enum_impl if l.strip() and not l.strip().startswith("//")][1:-1]:
        if "=" in ln:
            nm, tx = [s.strip() for s in ln.split("=", 1)]
            v = pyeval(tx, cenv)
        else:
            nm, v = ln.strip(), (0 if prev is None else prev + 1)
        cenv[nm] = v
        cv.append(v)
        prev = v
    fenv, fv = {}, []
    for ln in [l.strip() for l in fi.enum_impl if l.strip() and not l.strip().startswith("!")]:
        m = re.match(r"^integer\(C_INT\), parameter :: (\w+) = (.*)$", ln)
        v = pyeval(m.group(2), fenv, "fortran")
        fenv[m.group(1)] = v
        fv.append(v)
    return cxx, cv, fv, wc.enum_impl, fi.enum_impl


def confirm(w):
    try:
        cxx, cv, fv, cl, fl = concrete_values(w)
    except Exception as ex:
        return "exception %s: %s" % (type(ex).__name__, ex), None
    if cxx != cv or cxx != fv:
        return "values differ: C++ %r, C %r, Fortran %r" % (cxx, cv, fv), (cl, fl)
    return None, (cl, fl)


def legal_decl(w):
    """Negative literal values substituted after a unary minus give '- -3', which the grammar does
    not admit; such witnesses are re-rendered with the literal in parentheses."""
    text = w["template"]
    for i, v in enumerate(w["literals"]):
        s = str(v) if v >= 0 else "(%d)" % v
        text = text.replace(str(PLACE_BASE + i + 1), s)
    return text


# ---------------------------------------------------------------------------- pipeline level: every enumerator is exported
PRES_SCOPES = ["lib", "ns", "nested", "class", "nsclass", "twoclass"]
PRES_KINDS = ["enum", "enum class", "enum struct"]
PRES_MEMBERS = [("LOW", 3), ("MID", 4), ("HIGH", 6)]          # enum ... { LOW = 3, MID, HIGH = LOW * 2 }


def presence_library(scope, kind, with_function):
    en = {"decl": "%s Level { LOW = 3, MID, HIGH = LOW * 2 }" % kind}
    fn = [{"decl": "int probe(int n)"}] if with_function else []
    if scope == "lib":
        decls = [en] + fn
    elif scope == "ns":
        decls = [{"decl": "namespace outer", "declarations": [en] + fn}]
    elif scope == "nested":
        decls = [{"decl": "namespace outer", "declarations": [{"decl": "namespace inner", "declarations": [en] + fn}]}]
    elif scope == "class":
        decls = [{"decl": "class Cls", "declarations": [{"decl": "Cls()"}, en]}] + fn
    elif scope == "twoclass":
        # two classes of one module each declare an enumeration of the same (unqualified) name
        decls = [{"decl": "class Cls", "declarations": [{"decl": "Cls()"}, dict(en)]},
                 {"decl": "class Other", "declarations": [{"decl": "Other()"}, dict(en)]}] + fn
    else:
        decls = [{"decl": "namespace outer", "declarations": [{"decl": "class Cls", "declarations": [{"decl": "Cls()"}, en]}] + fn}]
    return {"library": "pres", "cxx_header": "pres.hpp", "options": {"wrap_python": False, "wrap_lua": False}, "declarations": decls}


def presence_expected(scope, kind):
    """Names per the documented templates: C  {C_prefix}{C_name_scope}{enum_member_name}, Fortran
    {F_name_scope}{enum_member_lower}; C_name_scope joins every enclosing namespace / class (and the enumeration's own name
    when it is scoped) with '_'; F_name_scope does the same without namespaces (each namespace is a module of its own)."""
    out = []
    for cscope, fscope in ([("Cls_", "cls_"), ("Other_", "other_")] if scope == "twoclass" else
                           [({"lib": "", "ns": "outer_", "nested": "outer_inner_", "class": "Cls_", "nsclass": "outer_Cls_"}[scope],
                             "cls_" if scope in ("class", "nsclass") else "")]):
        if kind != "enum":
            cscope += "Level_"
            fscope += "level_"
        out += [("PRE_" + cscope + n, fscope + n.lower(), v) for (n, v) in PRES_MEMBERS]
    return out


def presence_verdict(scope, kind, with_function):
    from gen import pipeline
    from harness import cfg_common as cc
    try:
        r = pipeline.run(presence_library(scope, kind, with_function))
    except Exception as ex:
        return "generation fails: %s: %s" % (type(ex).__name__, str(ex)[:150])
    texts = cc.file_texts(r)
    ctext = "\n".join(t for f, t in texts.items() if f.endswith(".h"))
    ftext = "\n".join(t for f, t in texts.items() if f.endswith(".f"))
    for cname, fname, val in presence_expected(scope, kind):
        if len(re.findall(r"(?m)^\s*%s\b" % re.escape(cname), ctext)) != 1:
            return "the C header does not define the enumerator %s exactly once" % cname
        m = re.findall(r"(?im)^\s*integer\(C_INT\), parameter :: %s = (.*)$" % re.escape(fname), ftext)
        if len(m) != 1:
            return "the Fortran module does not define the parameter %s exactly once (%d definitions)" % (fname, len(m))
    return None


class PresenceHarness(object):
    """Engine-chosen structure: scope kind x plain/scoped x with or without a function beside the enumeration."""

    def __init__(self, twin=False):
        self.twin = twin

    def run(self, e):
        zs, zk, zf = z3.Int("pres_scope"), z3.Int("pres_kind"), z3.Bool("pres_function")
        e.assume(z3.And(zs >= 0, zs < len(PRES_SCOPES), zk >= 0, zk < len(PRES_KINDS)))
        self.scope = PRES_SCOPES[e.choose(zs)]
        self.kind = PRES_KINDS[e.choose(zk)]
        self.fn = bool(e.branch(zf))
        return presence_verdict(self.scope, self.kind, self.fn)

    def witness(self, what):
        return {"kernel": "presence", "scope": self.scope, "kind": self.kind, "with_function": self.fn, "what": what,
                "decl": "%s Level { LOW = 3, MID, HIGH = LOW * 2 }" % self.kind}

    def judge(self, e, kind, value):
        if kind == "exc":
            return {"cls": "presence", "violation": self.witness("exception %s: %s" % (type(value).__name__, str(value)[:150])), "vkey": "presence:exc"}
        what = value
        if self.twin and not what:
            what = "reachability twin"
        if what:
            return {"cls": "presence", "violation": self.witness(what), "vkey": "presence:" + re.sub(r"\w*(low|mid|high)\w*", "N", what, flags=re.I)[:60]}
        return {"cls": "presence/ok", "sample": self.witness(None)}


def make_presence(**kw):
    return PresenceHarness(**kw)


def main():
    tier, seed, rp = checklib.tier_and_seed()
    if rp:
        with open(rp) as f:
            w = json.load(f)
        if w.get("kernel") == "presence":
            verdict, out = presence_verdict(w["scope"], w["kind"], w["with_function"]), None
        else:
            verdict, out = confirm(w)
        print("declaration:", w["decl"], "scope:", w["scope"])
        print("emitted:", out)
        print("verdict:", verdict or "property holds on this input")
        if verdict:
            print("VIOLATION property=%s replay=%s" % (PID, rp))
        return 1 if verdict else 0
    rep = checklib.Report(PID)
    shapes = all_shapes(tier)
    combos = [("lib", None), ("ns", None), ("class", None), ("lib", "class"), ("class", "class"), ("ns", "struct")]
    if tier == "quick":
        # all shapes at library scope, every 3rd (offset by seed) elsewhere
        plan = []
        for (scope, scoped) in combos:
            sel = shapes if (scope, scoped) in (("lib", None), ("class", "class")) else shapes[(seed % 3)::3]
            plan.append((scope, scoped, sel))
    else:
        plan = [(scope, scoped, shapes) for (scope, scoped) in combos]
    tasks = []
    CH = 24
    for scope, scoped, sel in plan:
        for i in range(0, len(sel), CH):
            tasks.append((sel[i:i + CH], scope, scoped, False))
    import multiprocessing
    total = driver.Acc()
    with multiprocessing.get_context("fork").Pool(min(16, os.cpu_count() or 1)) as pool:
        for a in pool.imap_unordered(run_chunk, tasks, chunksize=1):
            total.merge(a)
    pres = driver.explore(("harness.C11", "make_presence", {}), nworkers=1)
    total.merge(pres)
    ptw = driver.explore(("harness.C11", "make_presence", dict(twin=True)), nworkers=1)
    if not (ptw.stats.paths > 0 and ptw.nviol == ptw.stats.paths):
        rep.inconc("presence kernel reachability twin failed")
    twin = run_chunk(([(["L"], None, ["E0", "+", "L"])], "lib", None, True))
    twin_ok = twin.stats.paths > 0 and twin.nviol == twin.stats.paths and not twin.inconclusive
    if not twin_ok:
        rep.inconc("reachability twin did not fail on every path: %r" % (twin.inconclusive[:1],))
    for msg in total.inconclusive:
        rep.inconc(msg)
    seen = set()
    confirmed = 0
    for i, v in enumerate(total.violations):
        v = dict(v)
        if v.get("kernel") == "presence":
            verdict = presence_verdict(v["scope"], v["kind"], v["with_function"])
        else:
            v["decl"] = legal_decl(v)
            verdict, _ = confirm(v)
        if verdict is None:
            rep.inconc("counterexample did not reproduce concretely: %r" % (v,))
            continue
        confirmed += 1
        key = v.get("_vkey")
        if key in seen:
            continue
        seen.add(key)
        path = checklib.write_replay(PID, "cex%03d" % i, v)
        rep.violation(path, "%s  decl=%r scope=%s  [%d paths]" % (v["what"], v["decl"], v["scope"], total.vcount.get(key, 1)))
    samples = []
    for cls, lst in sorted(total.samples.items()):
        samples.extend(lst[:1])
    nshapes = sum(len(sel) for _, _, sel in plan)
    cov = {
        "states": total.stats.paths,
        "transitions": max(total.stats.decisions, 1),
        "traces_validated_against_impl": confirmed,
        "samples": samples[:6],
        "exhaustive": False,
        "functions_encoded": ["shroud.declast.Parser.enum_statement / ExprParser.expression", "shroud.ast.EnumNode.__init__",
                              "shroud.todict.print_node / print_node_identifier", "shroud.wrapc.Wrapc.wrap_enum",
                              "shroud.wrapf.Wrapf.wrap_enum"],
        "bounds": {"enum_shapes": nshapes, "distinct_shapes": len(shapes),
                   "members_max": 3 if tier == "quick" else 4, "expression_depth_max": 2,
                   "literal_range": [-RANGE, RANGE], "scopes": ["%s/%s" % (s, c or "plain") for s, c, _ in plan],
                   "divisors": "assumed non-zero"},
        "solver": {"name": "z3 " + z3.get_version_string(), "queries": total.stats.queries,
                   "solver_s": round(total.stats.solver_s, 2)},
        "paths_reaching_assertion": total.reached,
        "reachability_twin_ok": twin_ok,
        "classes": dict(total.counts),
        "equalities": dict(total.counters),
    }
    assumptions = [
        "symbolic integer literals are decimal and lie in [-2^20, 2^20]; octal spellings are the three concrete literals 010, 017, 0123; int overflow is outside the claim",
        "division is truncating in C++, C and Fortran; divisors are non-zero",
        "enumerators referenced across enums, non-integer literals and octal/hex spellings are outside the claim",
        "the C++ meaning of the declaration is computed by gen/refdecl.py's independent expression reader",
        "literals are injected by binding the module-global name 'int' of shroud.ast at harness time (no source change)",
    ]
    checklib.write_evidence(PID, tier, seed, "model_checking", cov, assumptions, rep.wall(), len(rep.violations))
    return rep.finish()


if __name__ == "__main__":
    sys.exit(main())
