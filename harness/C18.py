"""C18 - the generated Lua binding is call-equivalent to the wrapped library (bounded).

Every l_* function Shroud writes for gen/libs/lual.yaml is compiled (against a stub lua.h /
lauxlib.h that only declares the API) to LLVM IR and executed symbolically with the Lua C API
modelled over an explicit symbolic stack: depth n in [0, D], each slot's type tag (all nine LUA_T*)
and integer / number / boolean / string / userdata value symbolic.  The wrapped library is a
nondeterministic stub.  Oracle (DESIGN.md appendix A.3): the C++ callee selected by the number and
Lua types of the user arguments receives the values held in the corresponding slots, the library's
result is pushed and the returned count equals the number pushed; any other stack raises a Lua error
and calls nothing.
"""
import json
import os
import re
import sys

import z3

sys.path.insert(0, os.path.dirname(os.path.dirname(os.path.abspath(__file__))))
from engines.shadowsym.core import Engine, Unsupported, Inconclusive, Infeasible  # noqa: E402
from engines.shadowsym import driver  # noqa: E402
from engines.llsym import ir, models  # noqa: E402
from engines.llsym.exec import Executor, Ptr, NULL, MemViolation, PathAbort, conc, bv  # noqa: E402
from harness import ll_common as lc  # noqa: E402
from harness import wrapsym  # noqa: E402
from lib import checklib  # noqa: E402

PID = "C18"
BUILD = ("lual.yaml", "lual.hpp")
LUA_T = {"nil": 0, "boolean": 1, "lightuserdata": 2, "number": 3, "string": 4, "table": 5, "function": 6, "userdata": 7, "thread": 8}
TNAME = {v: k for k, v in LUA_T.items()}


def lua_kind(p):
    if p.kind() == "string" or p.kind() == "charp":
        return "string"
    if p.kind() == "class":
        return "userdata"
    if p.kind() == "scalar":
        if p.tname == "bool":
            return "boolean"
        return "number"
    return None


class Sig(object):
    def __init__(self, node, cls):
        self.node, self.cls = node, cls
        a = node.ast
        self.name = a.name
        self.params = [wrapsym.CxxParam(x) for x in (a.params or [])]
        self.is_ctor, self.is_dtor = bool(a.is_ctor()), bool(a.is_dtor())
        self.result = None
        if not self.is_ctor and not self.is_dtor and not (a.typemap.name == "void" and not a.is_pointer()):
            self.result = wrapsym.CxxParam(a)
        self.ndefault = sum(1 for p in self.params if p.init is not None)
        self.func_const = bool(a.func_const)

    def arities(self):
        n = len(self.params)
        return list(range(n - self.ndefault, n + 1))


def lua_functions(build):
    """l_name -> dict(sigs=[Sig], cls=ClassNode|None, method=bool)"""
    out = {}
    groups = {}

    def walk(n, cls=None):
        for f in getattr(n, "functions", []):
            if f._generated or not f.wrap.lua:
                continue
            groups.setdefault((cls.name if cls else None, f.ast.name if not f.ast.is_ctor() else "ctor" if True else None,
                               bool(f.ast.is_dtor())), []).append((f, cls))
        for c in getattr(n, "classes", []):
            walk(c, c)
        for s in getattr(n, "namespaces", []):
            walk(s, None)
    walk(build.library)
    for key, lst in groups.items():
        lname = None
        for f, cls in lst:
            if f.fmtdict.inlocal("LUA_name_impl"):
                lname = f.fmtdict.LUA_name_impl
        if lname is None:
            continue
        out[lname] = {"sigs": [Sig(f, cls) for f, cls in lst], "cls": lst[0][1]}
    return out


class LuaState(object):
    """symbolic argument stack + record of what the binding pushed"""

    def __init__(self, e, ex, n, D):
        self.e, self.ex, self.n = e, ex, n
        self.tag = [z3.BitVec("tag%d" % (i + 1), 32) for i in range(D)]
        self.ival = [z3.BitVec("ival%d" % (i + 1), 64) for i in range(D)]
        self.nval = [z3.BitVec("nval%d" % (i + 1), 64) for i in range(D)]
        self.bval = [z3.Bool("bval%d" % (i + 1)) for i in range(D)]
        # Lua 5.3 number subtype: an integer slot reads as (double)ival through lua_tonumber; a float slot
        # reads as nval, and its lua_tointeger reading is Lua's float->integer coercion (left unconstrained)
        self.isint = [z3.Bool("isint%d" % (i + 1)) for i in range(D)]
        self.f2i = [z3.BitVec("float2int%d" % (i + 1), 64) for i in range(D)]
        for t in self.tag:
            e.assume(z3.And(t >= 0, t <= 8))
        self.strs = {}
        self.udata = {}
        self.pushed = []
        self.meta_top = None

    def number_reading(self, i):
        """what lua_tonumber returns for number slot i (IEEE double bit pattern)"""
        asd = z3.fpToIEEEBV(z3.fpSignedToFP(z3.RNE(), self.ival[i - 1], z3.Float64()))
        return z3.If(self.isint[i - 1], asd, self.nval[i - 1])

    def slot(self, idx):
        i = conc(idx)
        if i is None:
            raise Unsupported("Lua API called with a symbolic stack index")
        if i >= 1 << 31:
            i -= 1 << 32
        return i

    def string_obj(self, i):
        if i not in self.strs:
            o, L = wrapsym.Stub(None).fresh_cstring(self.ex, "luastr%d" % i)
            self.strs[i] = (o, L)
        return self.strs[i]

    def udata_obj(self, i, size=16):
        if i not in self.udata:
            box = self.ex.new_obj("userdata%d" % i, size, "extern")
            inst = self.ex.new_obj("instance%d" % i, 64, "heap", "new")
            box.cells[0] = (8, Ptr(inst, 0))
            self.meta = getattr(self, "meta", {})
            self.udata[i] = (box, inst, z3.Bool("udata%d_has_expected_metatable" % i))
        return self.udata[i]


def install_lua(ex, st):
    S = ex.stubs

    def gettop(ex_, name, a, at, rt):
        return z3.BitVecVal(st.n, 32)

    def ltype(ex_, name, a, at, rt):
        i = st.slot(a[1])
        if 1 <= i <= st.n:
            return st.tag[i - 1]
        return z3.BitVecVal(-1, 32)

    def tointeger(ex_, name, a, at, rt):
        i = st.slot(a[1])
        if not (1 <= i <= st.n):
            return z3.BitVecVal(0, 64)
        t = st.tag[i - 1]
        return z3.If(t == LUA_T["number"], z3.If(st.isint[i - 1], st.ival[i - 1], st.f2i[i - 1]),
                     z3.If(t == LUA_T["string"], ex_.fresh("str2int", 64), z3.BitVecVal(0, 64)))

    def tonumber(ex_, name, a, at, rt):
        i = st.slot(a[1])
        if not (1 <= i <= st.n):
            return z3.BitVecVal(0, 64)
        t = st.tag[i - 1]
        return z3.If(t == LUA_T["number"], st.number_reading(i),
                     z3.If(t == LUA_T["string"], ex_.fresh("str2num", 64), z3.BitVecVal(0, 64)))

    def toboolean(ex_, name, a, at, rt):
        i = st.slot(a[1])
        if not (1 <= i <= st.n):
            return z3.BitVecVal(0, 32)
        t = st.tag[i - 1]
        b = z3.If(t == LUA_T["boolean"], st.bval[i - 1], t != LUA_T["nil"])
        return z3.If(b, z3.BitVecVal(1, 32), z3.BitVecVal(0, 32))

    def tostring(ex_, name, a, at, rt):
        i = st.slot(a[1])
        if not (1 <= i <= st.n):
            return NULL
        t = st.tag[i - 1]
        if ex_.e.branch(t == LUA_T["string"]):
            return Ptr(st.string_obj(i)[0], 0)
        if ex_.e.branch(t == LUA_T["number"]):
            o, L = wrapsym.Stub(None).fresh_cstring(ex_, "num2str%d" % i)
            return Ptr(o, 0)
        return NULL

    def push(kind):
        def f(ex_, name, a, at, rt):
            v = a[1]
            if kind == "string":
                if isinstance(v, Ptr) and v.obj is None:
                    st.pushed.append(("nil", None))
                    return NULL
                L = models.strlen_term(ex_, v, "lua_pushstring")
                ex_.flush(v.obj)
                st.pushed.append(("string", (L, v.obj.arr, bv(v.off))))
                return v
            st.pushed.append((kind, v))
            return None
        return f

    def newuserdata(ex_, name, a, at, rt):
        sz = conc(a[1])
        if sz is None:
            raise Unsupported("lua_newuserdata with symbolic size")
        o = ex_.new_obj("newuserdata", sz, "extern")
        st.pushed.append(("userdata", {"obj": o, "meta": None}))
        return Ptr(o, 0)

    def getmetatable(ex_, name, a, at, rt):
        mt = ex_.cstring_at(a[1])
        st.pushed.append(("metatable", mt.decode() if mt is not None else None))
        return z3.BitVecVal(1, 32)

    def setmetatable(ex_, name, a, at, rt):
        i = st.slot(a[1])
        if not st.pushed or st.pushed[-1][0] != "metatable":
            raise Unsupported("lua_setmetatable without a metatable on top")
        mt = st.pushed.pop()[1]
        tgt = st.pushed[i + 1] if i < 0 else None      # index -2 before the pop == last element after it
        if i == -2 and st.pushed and st.pushed[-1][0] == "userdata":
            st.pushed[-1][1]["meta"] = mt
        else:
            raise Unsupported("lua_setmetatable on index %d" % i)
        return z3.BitVecVal(1, 32)

    def checkudata(ex_, name, a, at, rt):
        i = st.slot(a[1])
        want = ex_.cstring_at(a[2])
        if not (1 <= i <= st.n):
            raise PathAbort("lua_error", "luaL_checkudata: no value at index %d" % i)
        t = st.tag[i - 1]
        if not ex_.e.branch(t == LUA_T["userdata"]):
            raise PathAbort("lua_error", "luaL_checkudata: not a userdata")
        box, inst, okmeta = st.udata_obj(i)
        if not ex_.e.branch(okmeta):
            raise PathAbort("lua_error", "luaL_checkudata: wrong metatable")
        st.checked = getattr(st, "checked", {})
        st.checked[i] = want.decode() if want else None
        return Ptr(box, 0)

    def lerror(ex_, name, a, at, rt):
        raise PathAbort("lua_error", ex_.cstring_at(a[1]))

    S["lua_gettop"] = gettop
    S["lua_type"] = ltype
    S["lua_tointeger"] = tointeger
    S["lua_tonumber"] = tonumber
    S["lua_toboolean"] = toboolean
    S["lua_tostring"] = tostring
    S["lua_pushinteger"] = push("integer")
    S["lua_pushnumber"] = push("number")
    S["lua_pushboolean"] = push("boolean")
    S["lua_pushstring"] = push("string")
    S["lua_newuserdata"] = newuserdata
    S["luaL_getmetatable"] = getmetatable
    S["lua_setmetatable"] = setmetatable
    S["luaL_checkudata"] = checkudata
    S["luaL_error"] = lerror


class LuaHarness(object):
    def __init__(self, lname, depth, twin=False):
        self.lname, self.D, self.twin = lname, depth, twin

    def run(self, e):
        b = lc.get_build(BUILD)
        self.funcs = lua_functions(b)
        self.entry = self.funcs[self.lname]
        m = [mod for mod in b.modules.values()][0]
        fn = [n for n, f in m.functions.items() if f.defined and re.match(r"^_ZL\d+%sP9lua_State$" % re.escape(self.lname), n)]
        if not fn:
            raise Unsupported("no IR function for %s" % self.lname)
        ex = Executor(e, m, cap=3)
        self.ex = ex
        nv = z3.Int("depth")
        e.assume(z3.And(nv >= 0, nv <= self.D))
        n = e.choose(nv)
        st = LuaState(e, ex, n, self.D)
        self.st = st
        # the oracle is stated per type-tag vector: every slot's tag is chosen by the engine (9 values each)
        for i in range(n):
            e.choose(z3.BV2Int(st.tag[i]))
        install_lua(ex, st)
        self.calls = []
        h = self

        def lib(ex_, name, argv, argt, rt):
            dem = wrapsym.demangle(name)
            if "::~" in dem:
                h.calls.append(("dtor", dem, argv, None))
                return None
            mm = re.match(r"^(.*?)\((.*)\)( const)?$", dem)
            qn = re.sub(r"\[abi:\w+\]", "", mm.group(1))
            ptxt = [] if mm.group(2) in ("", "void") else wrapsym.split_params(mm.group(2))
            fnobj = ex_.m.functions.get(name)
            sret = None
            k = 0
            if fnobj is not None and fnobj.params and any(a.startswith("sret") for a in fnobj.params[0][2]):
                sret = argv[0]
                k = 1
            # find the declared signature
            cands = [s for s in h.entry["sigs"] if (s.name == qn.split("::")[-1] or (s.is_ctor and qn.split("::")[-1] == qn.split("::")[0]))
                     and len(s.params) == len(ptxt)]
            best = None
            for s in cands:
                ok = True
                for p, got in zip(s.params, ptxt):
                    g = got.replace(" const", "").replace("const ", "").strip()
                    if p.kind() == "scalar" and p.cxx_type in wrapsym.NATIVE_TEXT and g != p.cxx_type:
                        ok = False
                    if p.kind() == "string" and "basic_string" not in g:
                        ok = False
                if ok:
                    best = s
                    break
            this = None
            if best is not None and (best.cls is not None):
                this = argv[k]
                k += 1
            vals = []
            if best is not None:
                for p, v in zip(best.params, argv[k:]):
                    if p.kind() == "string":
                        s_ = models.sget(ex_, v, "library reading '%s'" % p.name)
                        vals.append(("string", s_.len, s_.buf.arr))
                    else:
                        vals.append(("scalar", v))
            res = None
            rinfo = {}
            if best is not None and best.result is not None:
                rp = best.result
                if rp.kind() == "scalar":
                    bits = ir.resolve(rt).bits
                    res = ex_.fresh_bool("lib_result") if bits == 1 else ex_.fresh("lib_result", bits)
                    rinfo["value"] = res
                elif rp.kind() == "string":
                    s_ = wrapsym.Stub(None).fresh_string(ex_, "lib_result")
                    rinfo.update(len=s_.len, arr=s_.buf.arr)
                    if sret is not None:
                        models.construct(ex_, sret, s_)
                    else:
                        o = ex_.new_obj("lib_string", 32, "extern")
                        ex_.strings[(o.id, 0)] = s_
                        res = Ptr(o, 0)
                else:
                    raise Unsupported("library result kind %s" % rp.kind())
            h.calls.append(("call", dem, vals, (best, this, rinfo, len(ptxt))))
            return res
        ex.stubs["*"] = lib
        Ls = ex.new_obj("lua_State", 8, "extern")
        self.ret = ex.call_function(fn[0], [Ptr(Ls, 0)])
        return ex

    # ------------------------------------------------------------------ oracle
    def matching(self, e):
        """signatures admitted by the stack on this path: list of (sig, arity); tags decided by z3 validity"""
        st = self.st
        method = self.entry["cls"] is not None and not any(s.is_ctor for s in self.entry["sigs"])
        nuser = st.n - (1 if method else 0)
        out = []
        undecided = False
        for s in self.entry["sigs"]:
            for ar in s.arities():
                if ar != nuser:
                    continue
                conds = []
                for j in range(ar):
                    slot = j + (2 if method else 1)
                    conds.append(st.tag[slot - 1] == LUA_T[lua_kind(s.params[j])])
                if method:
                    conds.append(st.tag[0] == LUA_T["userdata"])
                c = z3.And(conds) if conds else z3.BoolVal(True)
                can = e.check(c) == "sat"
                must = e.check(z3.Not(c)) == "unsat"
                if can and must:
                    out.append((s, ar))
                elif can:
                    undecided = True
        return out, undecided, method, nuser

    def witness(self, m, what):
        st = self.st
        slots = []
        for i in range(st.n):
            t = lc.mval(m, st.tag[i])
            slots.append({"type": TNAME.get(t, t), "integer": lc.mval(m, st.ival[i], 64), "boolean": lc.mval(m, st.bval[i]),
                          "number_subtype": "integer" if lc.mval(m, st.isint[i]) else "float"})
        return {"kernel": "lua", "function": self.lname, "depth": st.n, "stack": slots, "what": what,
                "called": [c[1] for c in self.calls]}

    def judge(self, e, kind, value):
        cls = "lua/%s" % self.lname
        st = self.st
        matches, undecided, method, nuser = self.matching(e)
        single = len(self.entry["sigs"]) == 1 and self.entry["sigs"][0].ndefault == 0
        fail = None
        if kind == "exc" and isinstance(value, MemViolation):
            fail = "memory safety: %s" % value
            w = self.witness(value.model or e.model(), fail)
            if single and "null char pointer" in str(value) and not matches:
                w["known"] = "null-string-arg"
            return {"cls": cls, "violation": w, "vkey": "%s:mem:%s" % (self.lname, value.kind)}
        if kind == "exc" and not isinstance(value, PathAbort):
            return {"cls": cls, "violation": self.witness(e.model(), "unexpected %s: %s" % (type(value).__name__, str(value)[:160])),
                    "vkey": "%s:exc" % self.lname}
        if undecided:
            return {"cls": cls + "/outside-domain", "sample": self.witness(e.model(), None)}
        errored = kind == "exc"
        libcalls = [c for c in self.calls if c[0] == "call"]
        if len(matches) > 1:
            # several signatures match the number and Lua types: the property does not say which of them is selected, but the
            # one that is called must be one of them and is then judged like an unambiguous call
            pick = [m_ for m_ in matches if len(libcalls) == 1 and libcalls[0][3][0] is m_[0]]
            if pick:
                matches = pick[:1]
            elif not errored and len(libcalls) == 1:
                return {"cls": cls, "violation": self.witness(e.model(), "the binding calls %s, which is none of the %d signatures the stack matches" % (
                    libcalls[0][1], len(matches))), "vkey": "%s:ambiguous-none" % self.lname}
            else:
                matches = matches[:1]
        if not matches:
            kfkey = None
            if not errored:
                fail = "a stack that matches no signature (%d user arguments) does not raise a Lua error" % nuser
                kfkey = "no-error-undispatched" if single else None
            elif libcalls:
                fail = "the library was called before the Lua error for a non-matching stack"
            if fail:
                return {"cls": cls, "violation": dict(self.witness(e.model(), fail), known=kfkey), "vkey": "%s:%s" % (self.lname, kfkey or fail[:40])}
            return {"cls": cls + "/rejected", "sample": self.witness(e.model(), None)}
        sig, ar = matches[0]
        kf = "method-args-slot" if (method and ar > 0) else None
        if errored:
            if method and value.detail and "metatable" in str(value.detail) or (method and "not a userdata" in str(value.detail)):
                return {"cls": cls + "/rejected-self", "sample": self.witness(e.model(), None)}
            fail = "a stack matching %s with %d arguments raises a Lua error" % (sig.name, ar)
        elif sig.is_dtor:
            d = [c for c in self.calls if c[0] == "dtor"]
            box, inst, ok = st.udata_obj(1)
            if len(d) != 1 or not (isinstance(d[0][2][0], Ptr) and d[0][2][0].obj is inst):
                fail = "__gc does not destroy the object held by the userdata"
            elif inst.live:
                fail = "__gc does not release the object held by the userdata"
        elif len(libcalls) != 1:
            fail = "the library is called %d times for a matching stack, expected once" % len(libcalls)
        else:
            _, dem, vals, (best, this, rinfo, nparams) = libcalls[0]
            if best is None or best is not sig:
                fail = "the binding calls %s, the stack selects %s with %d arguments" % (dem, sig.name, ar)
            else:
                if method:
                    box, inst, ok = st.udata_obj(1)
                    if not (isinstance(this, Ptr) and this.obj is inst):
                        fail = "'this' is not the object held by the userdata in slot 1"
                i = z3.BitVec("idx", 64)
                for j in range(min(ar, len(vals))):
                    if fail:
                        break
                    slot = j + (2 if method else 1)
                    p = sig.params[j]
                    v = vals[j]
                    if v[0] == "scalar":
                        got = v[1]
                        lk = lua_kind(p)
                        if lk == "boolean":
                            want = st.bval[slot - 1]
                            g = got if z3.is_bool(got) else got != 0
                            bad = g != want
                        elif p.tname in ("double", "float"):
                            want = st.number_reading(slot)
                            bad = got != want if got.size() == 64 else None
                        else:
                            # an integer parameter: the claim is about integer-subtype slots (a float slot goes
                            # through Lua's own float->integer coercion, which is not Shroud's to get right)
                            want = z3.Extract(got.size() - 1, 0, st.ival[slot - 1])
                            bad = z3.And(st.isint[slot - 1], got != want)
                        if bad is not None and e.check(bad) == "sat":
                            fail = "argument '%s' is not the value held in stack slot %d" % (p.name, slot)
                            self._m = e.model(bad)
                    else:
                        o, L = st.string_obj(slot)
                        bad = z3.Or(v[1] != L, z3.And(z3.ULT(i, L), z3.Select(v[2], i) != z3.Select(o.arr, i)))
                        if e.check(bad) == "sat":
                            fail = "argument '%s' is not the string held in stack slot %d" % (p.name, slot)
                            self._m = e.model(bad)
                # result
                if not fail and not sig.is_ctor:
                    pushed = [x for x in st.pushed if x[0] != "metatable"]
                    want_n = 0 if sig.result is None else 1
                    if len(pushed) != want_n:
                        fail = "%d values pushed, the library returned %d" % (len(pushed), want_n)
                    elif conc(self.ret) != want_n:
                        if e.check(self.ret != want_n) == "sat":
                            fail = "the binding reports %s results, %d were pushed" % (self.ret, want_n)
                    elif want_n:
                        kind_, pv = pushed[0]
                        rp = sig.result
                        if rp.kind() == "scalar":
                            rv = rinfo["value"]
                            if rp.tname == "bool":
                                g = pv != 0
                                w = rv if z3.is_bool(rv) else rv != 0
                                bad = g != w
                                okk = kind_ == "boolean"
                            elif rp.tname in ("double", "float"):
                                bad = pv != rv if pv.size() == rv.size() else None
                                okk = kind_ == "number"
                            else:
                                bad = pv != z3.SignExt(pv.size() - rv.size(), rv) if pv.size() > rv.size() else pv != rv
                                okk = kind_ == "integer"
                            if not okk:
                                fail = "the result is pushed as a Lua %s" % kind_
                            elif bad is not None and e.check(bad) == "sat":
                                fail = "the pushed result is not the library's result"
                        elif rp.kind() == "string":
                            if kind_ != "string":
                                fail = "a string result is pushed as %s" % kind_
                            else:
                                L, arr, off = pv
                                bad = z3.Or(L != rinfo["len"], z3.And(z3.ULT(i, L), z3.Select(arr, off + i) != z3.Select(rinfo["arr"], i)))
                                if e.check(bad) == "sat":
                                    fail = "the pushed string is not the library's string"
        if sig.is_ctor and not fail and not errored:
            pushed = [x for x in st.pushed if x[0] != "metatable"]
            news = [c for c in self.calls if c[0] == "call"]
            if len(pushed) != 1 or pushed[0][0] != "userdata" or pushed[0][1]["meta"] is None:
                fail = "the constructor does not push one userdata with its metatable"
            elif conc(self.ret) != 1:
                fail = "the constructor reports %s results" % self.ret
        if self.twin and not fail:
            fail, kf = "reachability twin", None
        if fail:
            m = getattr(self, "_m", None) or e.model()
            w = self.witness(m, fail)
            w["known"] = kf
            return {"cls": cls, "violation": w, "vkey": "%s:%s" % (self.lname, kf or fail[:50])}
        # which metatable does this binding give to / demand from its object?  (compared across classes in main)
        extra = None
        if self.entry["cls"] is not None:
            ud = [x for x in st.pushed if x[0] == "userdata"]
            extra = {"class": getattr(self.entry["cls"], "name", str(self.entry["cls"])), "function": self.lname,
                     "set": ud[0][1]["meta"] if (sig.is_ctor and ud) else None,
                     "checked": getattr(st, "checked", {}).get(1) if not sig.is_ctor else None}
        return {"cls": cls + "/called", "sample": self.witness(e.model(), None), "extra": extra}


def duplicate_entries(text):
    """A name listed twice in one luaL_Reg table: luaL_setfuncs stores the entries in order, so the later one replaces the
    earlier one and that binding (the overloads gathered under it) cannot be reached from Lua."""
    for m in re.finditer(r"(?s)static const (?:struct )?luaL_Reg (\w+)\s*\[\]\s*=\s*\{(.*?)\};", text):
        names = [n for n, f in re.findall(r'\{\s*"(\w+)",\s*(\w+)\s*\}', m.group(2))]
        for n in names:
            if names.count(n) > 1:
                return "the name %r is registered %d times in %s: only the last entry can be reached from Lua" % (n, names.count(n), m.group(1))
    return None


def duplicate_cases(text):
    """The dispatch of an overloaded binding is one `switch (SH_nargs)` with one arm per stack depth; a depth that labels two
    arms splits its signatures (C does not even accept the second label, and read as written the second arm is never
    reached after the first arm's `else luaL_error`)."""
    for m in re.finditer(r"(?s)static int (l_\w+)\s*\(lua_State[^)]*\)\s*\{(.*?)\n\}", text):
        body = m.group(2)
        for sw in body.split("switch (SH_nargs)")[1:]:
            labels = re.findall(r"(?m)^\s*case (\d+):", sw)
            for lab in labels:
                if labels.count(lab) > 1:
                    return "binding %s: stack depth %s labels %d arms of the dispatch switch: its signatures are split and the later arm cannot be reached" % (
                        m.group(1), lab, labels.count(lab))
    return None


def generated_lua_text():
    """The Lua module as the generator writes it (no compilation)."""
    from gen import pipeline
    res = pipeline.run(pipeline.load_yaml(lc.lib_text(BUILD[0])))
    for name, pieces in res.files.items():
        b = os.path.basename(name)
        if b.startswith("lua") and b.endswith((".cpp", ".c")):
            return "".join(pieces)
    return ""


def registration_verdict(build):
    """Every binding is reachable from Lua under the name the declaration gives it: a free function and a constructor in the
    module table (the C++ name / the class name), a method in its class's table under the C++ name, the destructor as __gc."""
    text = [t for n, t in build.files.items() if n.startswith("lua") and n.endswith((".cpp", ".c"))][0]
    tables = {m.group(1): dict(re.findall(r'\{\s*"(\w+)",\s*(\w+)\s*\}', m.group(2)))
              for m in re.finditer(r"(?s)static const (?:struct )?luaL_Reg (\w+)\s*\[\]\s*=\s*\{(.*?)\};", text)}
    funcs = lua_functions(build)
    for lname, ent in sorted(funcs.items()):
        sig = ent["sigs"][0]
        cls = ent["cls"]
        if cls is None or sig.is_ctor:
            want_table = [t for t in tables if t not in ["l_%s_Reg" % c.name for c in [e_["cls"] for e_ in funcs.values() if e_["cls"] is not None]]]
            want_name = cls.name if cls is not None else sig.name
        else:
            want_table = ["l_%s_Reg" % cls.name]
            want_name = "__gc" if sig.is_dtor else sig.name
        got = [(t, n) for t in tables for n, f in tables[t].items() if f == lname]
        if len(got) != 1:
            return "binding %s is registered %d times %r" % (lname, len(got), got)
        t, n = got[0]
        if t not in want_table or n != want_name:
            return "binding %s is registered as %s[%r], the declaration makes it %s[%r]" % (lname, t, n, "/".join(want_table), want_name)
    # the other direction, from the declarations: every function wrapped for Lua has an entry under its C++ name (a free
    # function in a module table, a method in its class's table), whether or not the generator made a binding for it
    class_tables = set("l_%s_Reg" % c.name for c in [e_["cls"] for e_ in funcs.values() if e_["cls"] is not None])

    def walk(n, cls=None):
        for f in getattr(n, "functions", []):
            if f._generated or not f.wrap.lua or f.ast.is_ctor() or f.ast.is_dtor():
                continue
            where = ["l_%s_Reg" % cls.name] if cls is not None else [t_ for t_ in tables if t_ not in class_tables]
            if not any(f.ast.name in tables.get(t_, {}) for t_ in where):
                return "%s%s is wrapped for Lua but no entry %r exists in %s" % (
                    (cls.name + "::") if cls is not None else "", f.ast.name, f.ast.name, "/".join(where) or "any table")
        for c in getattr(n, "classes", []):
            r = walk(c, c)
            if r:
                return r
        for s in getattr(n, "namespaces", []):
            r = walk(s, None)
            if r:
                return r
        return None
    return walk(build.library)


def metatable_verdict(extras):
    """Every class has one metatable name, used by its constructor and demanded by its methods, and no two classes
    share a name (luaL_checkudata tells classes apart by that name only)."""
    per = {}
    for x in extras:
        if not x:
            continue
        for k in ("set", "checked"):
            if x[k] is not None:
                per.setdefault(x["class"], set()).add(x[k])
    for c, names in sorted(per.items()):
        if len(names) > 1:
            return "class %s uses the metatable names %r" % (c, sorted(names)), per
    owners = {}
    for c, names in sorted(per.items()):
        for n in names:
            if n in owners and owners[n] != c:
                return "classes %s and %s share the metatable name %r: an object of one passes the other's luaL_checkudata" % (owners[n], c, n), per
            owners[n] = c
    return None, per


def make(**kw):
    return LuaHarness(**kw)


def confirm(w):
    """Re-execute the harness pinned to the witness stack (the Lua runtime is not installed, so there
    is no native Lua to replay against); returns the violation text if it shows again."""
    if w.get("kernel") == "registration-text":
        return duplicate_entries(generated_lua_text()) or duplicate_cases(generated_lua_text())
    if w.get("kernel") == "registration":
        return registration_verdict(lc.get_build(BUILD))
    if w.get("kernel") == "metatables":
        b = lc.get_build(BUILD)
        extras = []
        for n, ent in sorted(lua_functions(b).items()):
            if ent["cls"] is not None:
                extras += driver.explore(("harness.C18", "make", dict(lname=n, depth=1)), nworkers=1).extras
        return metatable_verdict(extras)[0]
    a = driver.explore(("harness.C18", "make", dict(lname=w["function"], depth=max(w["depth"], 1))), nworkers=1)
    for v in a.violations:
        if v["depth"] == w["depth"] and [s["type"] for s in v["stack"]] == [s["type"] for s in w["stack"]]:
            return v["what"]
    for v in a.violations:
        if v["what"] == w["what"]:
            return v["what"]
    return None


def main():
    tier, seed, rp = checklib.tier_and_seed()
    if rp:
        with open(rp) as f:
            w = json.load(f)
        v = confirm(w)
        print("case:", json.dumps({k: w[k] for k in w if k != "what"})[:900])
        print("verdict:", v or "property holds on this stack")
        if v:
            print("VIOLATION property=%s replay=%s" % (PID, rp))
        return 1 if v else 0
    rep = checklib.Report(PID)
    D = 3 if tier == "quick" else 4
    try:
        b = lc.get_build(BUILD)
    except Exception as ex:
        # the module does not compile (C05's domain) - but a name registered twice is a C18 violation that can be read from
        # the generated text alone
        dup = None
        try:
            dup = duplicate_entries(generated_lua_text()) or duplicate_cases(generated_lua_text())
        except Exception:
            pass
        if dup:
            path = checklib.write_replay(PID, "registration", {"kernel": "registration-text", "what": dup})
            rep.violation(path, dup + " (read from the generated text; the module does not compile)")
        rep.inconc("cannot build the Lua module: %s" % str(ex)[:400])
        checklib.write_evidence(PID, tier, seed, "translation_validation", {"evaluations": 1, "distinct_nontrivial": 0, "samples": []}, [], rep.wall(), 0)
        return rep.finish()
    funcs = lua_functions(b)
    def depth_for(entry):
        # deep enough to present every parameter of the longest signature (plus self), at least D
        need = max(len(sg.params) for sg in entry["sigs"]) + (1 if entry["cls"] is not None else 0)
        return max(D, min(need, D + 1))
    specs = [("harness.C18", "make", dict(lname=n, depth=depth_for(funcs[n]))) for n in sorted(funcs)]
    accs = driver.explore_many(specs, split_depth=5, time_budget_s=900 if tier == "quick" else 4000, max_decisions=50000)
    total = driver.Acc()
    runs = []
    for (mod, fac, kw), a in zip(specs, accs):
        total.merge(a)
        runs.append({"function": kw["lname"], "paths": a.stats.paths, "queries": a.stats.queries, "violations": a.nviol, "classes": dict(a.counts)})
        for msg in a.inconclusive:
            rep.inconc("%s: %s" % (kw["lname"], msg))
    tw = driver.explore(("harness.C18", "make", dict(lname="l_scale", depth=1, twin=True)), nworkers=1)
    twin_ok = tw.stats.paths > 0 and tw.nviol > 0 and not tw.inconclusive
    if not twin_ok:
        rep.inconc("reachability twin failed: %r" % (tw.inconclusive[:1],))
    reg_fail = duplicate_entries([t for n, t in b.files.items() if n.startswith("lua") and n.endswith((".cpp", ".c"))][0]) or registration_verdict(b)
    if reg_fail:
        path = checklib.write_replay(PID, "registration", {"kernel": "registration", "what": reg_fail})
        rep.violation(path, reg_fail)
    mt_fail, mt_names = metatable_verdict(total.extras)
    if mt_fail:
        path = checklib.write_replay(PID, "metatables", {"kernel": "metatables", "what": mt_fail, "names": {c: sorted(n) for c, n in mt_names.items()}})
        rep.violation(path, "%s | names=%r" % (mt_fail, {c: sorted(n) for c, n in mt_names.items()}))
    elif len(mt_names) < 2:
        rep.inconc("the metatable clause needs two wrapped classes, found %r" % sorted(mt_names))
    known = {k["key"]: k for k in checklib.load_known(PID) if k.get("status") == "known"}
    seen, confirmed, printed = set(), 0, set()
    for i, v in enumerate(total.violations):
        key = v.get("_vkey")
        if key in seen:
            continue
        seen.add(key)
        verdict = confirm(v)
        if verdict is None:
            rep.inconc("counterexample did not reproduce on re-execution: %s" % json.dumps(v)[:300])
            continue
        confirmed += 1
        kf = v.get("known")
        if kf and kf in known:
            if kf not in printed:
                printed.add(kf)
                rep.known_finding("%s (e.g. %s: %s)" % (known[kf]["what_fails"], v["function"], v["what"]))
            continue
        path = checklib.write_replay(PID, "cex%03d" % i, v)
        rep.violation(path, "%s | function=%s depth=%d stack=%s called=%s [%d paths]" % (
            v["what"], v["function"], v["depth"], [s["type"] for s in v["stack"]], v["called"], total.vcount.get(key, 1)))
    samples = []
    for cls, lst in sorted(total.samples.items()):
        s0 = lst[0]
        samples.append({"function": s0["function"], "depth": s0["depth"], "stack": [s["type"] for s in s0["stack"]], "called": s0["called"]})
    cov = {
        "programs": len(specs),
        "disagreements_checked": confirmed,
        "samples": samples[:10],
        "functions_encoded": [kw["lname"] for (_, _, kw) in specs],
        "bounds": {"stack_depth_max": {n: depth_for(funcs[n]) for n in sorted(funcs)}, "type_tags": sorted(LUA_T), "values": "integer / number bit patterns full width, booleans, strings <= 3 chars"},
        "solver": {"name": "z3 " + z3.get_version_string(), "queries": total.stats.queries, "solver_s": round(total.stats.solver_s, 2)},
        "paths": total.stats.paths,
        "reachability_twin_ok": twin_ok,
        "outcome_classes": dict(total.counts),
        "runs": runs,
    }
    assumptions = [
        "the Lua C API is a contract model over an explicit symbolic stack (lua_gettop, lua_type, lua_to*, lua_push*, lua_newuserdata, luaL_getmetatable, lua_setmetatable, luaL_checkudata, luaL_error); Lua itself is not installed, so counterexamples are confirmed by re-executing the harness, not natively",
        "a number slot has a Lua 5.3 subtype: an integer slot reads as ival through lua_tointeger and as (double)ival (IEEE, decided in z3's FP theory) through lua_tonumber; a float slot reads as an arbitrary double through lua_tonumber and as an unconstrained integer through lua_tointeger (Lua's own coercion); strings that Lua would coerce to numbers give unconstrained values",
        "integer parameters are compared with the slot's integer value for integer-subtype slots only",
        "method calls use the obj:method(args) layout: slot 1 is the object, user arguments start at slot 2",
        "overload sets that Lua cannot distinguish (same count, same Lua types) are outside the domain",
        "module registration (luaopen_*) is not executed",
    ]
    checklib.write_evidence(PID, tier, seed, "translation_validation", cov, assumptions, rep.wall(), len(rep.violations))
    return rep.finish()


if __name__ == "__main__":
    sys.exit(main())
