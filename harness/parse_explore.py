"""Shared exploration of the real declast.Parser for C09 (meaning) and C17 (rejection)."""
import json
import os
import sys
import traceback

import z3

from engines.shadowsym import driver
from gen import refdecl
from harness import parse_common as pc

TYPE_WORDS = set(pc.TYPE_SPEC_ALL)
OK_EXC = (RuntimeError,)   # NotImplementedError is a RuntimeError


# ---------------------------------------------------------------------------- Shroud record -> type
def shroud_base(d):
    tm = d.typemap
    cv = set()
    if d.const:
        cv.add("const")
    if d.volatile:
        cv.add("volatile")
    if d.specifier and all(w in TYPE_WORDS for w in d.specifier):
        # what Shroud will emit for this base type
        words = tm.cxx_type
        if words.startswith("std::complex<") and words.endswith(">"):
            # the typemap table pairs C99 'T complex' (c_type) with std::complex<T> (cxx_type): same meaning
            words = words[len("std::complex<"):-1] + " complex"
        name = refdecl.canon_specifier(words.split())
    elif tm.base == "template":
        name = "tparam:" + tm.name          # recorded as a parameter of the enclosing template
    else:
        name = tm.name
    targs = tuple(shroud_base(t) for t in d.template_arguments)
    return ("base", name, frozenset(cv), targs)


def apply_ptrs(t, ptrs):
    for p in ptrs:
        cv = set()
        if p.const:
            cv.add("const")
        if p.volatile:
            cv.add("volatile")
        if p.ptr == "*":
            t = ("ptr", t, frozenset(cv))
        elif p.ptr == "&":
            t = ("ref", t) if not cv else ("ref-cv", t, frozenset(cv))
        else:
            t = ("?" + str(p.ptr), t)
    return t


def shroud_tree(node):
    """Shroud's expression nodes in the reference's tuple form"""
    from shroud import declast
    if isinstance(node, declast.BinaryOp):
        return ("bin", node.op, shroud_tree(node.left), shroud_tree(node.right))
    if isinstance(node, declast.UnaryOp):
        return ("unary", node.op, shroud_tree(node.node))
    if isinstance(node, declast.ParenExpr):
        return ("paren", shroud_tree(node.node))
    if isinstance(node, declast.Identifier):
        if node.args is not None:
            return ("call", node.name, tuple(shroud_tree(a) for a in node.args))
        return ("id", node.name)
    if isinstance(node, declast.Constant):
        return ("const", node.value)
    from shroud import todict
    return ("const", todict.print_node(node))


def print_expr(node):
    """the recorded expression with its tree made visible (so a different grouping of the same tokens shows)"""
    return refdecl.expr_struct(shroud_tree(node))


def shroud_summary(d):
    """What Shroud recorded for a Declaration, as a refdecl-style summary."""
    t = shroud_base(d)
    name = None
    if d.declarator is not None:
        t = apply_ptrs(t, d.declarator.pointer)
        name = d.declarator.name
    params = None
    if d.params is not None:
        params = [shroud_summary(p) for p in d.params]
        t = ("func", t, tuple(p["type"] for p in params), bool(d.func_const))
    for dim in reversed(d.array):
        t = ("array", t, print_expr(dim))
    if d.declarator is not None and d.declarator.func is not None:
        f = d.declarator.func
        while f is not None:
            t = apply_ptrs(t, f.pointer)
            if f.name is not None:
                name = f.name
            f = f.func
    if d.attrs["_destructor"]:
        name = "~" + d.attrs["_destructor"]
    attrs = {k: v for k, v in d.attrs.items() if v is not None and not k.startswith("_")}
    return {"kind": "declaration", "name": name, "type": t, "params": params,
            "storage": list(d.storage), "attrs": attrs, "init": d.init}


def ref_summary(r):
    s = r.summary()
    s["type"] = norm_type(s["type"])
    if s["params"] is not None:
        s["params"] = [ref_summary_dict(p) for p in s["params"]]
    return s


def ref_summary_dict(p):
    p = dict(p)
    p["type"] = norm_type(p["type"])
    if p["params"] is not None:
        p["params"] = [ref_summary_dict(q) for q in p["params"]]
    return p


def norm_type(t):
    """array bounds as canonical text."""
    k = t[0]
    if k == "base":
        return ("base", t[1], t[2], tuple(norm_type(a) for a in t[3]))
    if k == "ptr":
        return ("ptr", norm_type(t[1]), t[2])
    if k == "ref":
        return ("ref", norm_type(t[1]))
    if k == "array":
        return ("array", norm_type(t[1]), refdecl.expr_struct(t[2]) if isinstance(t[2], tuple) else t[2])
    if k == "func":
        return ("func", norm_type(t[1]), tuple(norm_type(a) for a in t[2]), t[3])
    return t


def as_c_type(t, c_base):
    """Documented C counterpart: references become pointers; base name per typemap."""
    k = t[0]
    if k == "base":
        return ("base", c_base(t[1]), t[2], ())
    if k == "ptr":
        return ("ptr", as_c_type(t[1], c_base), t[2])
    if k == "ref":
        return ("ptr", as_c_type(t[1], c_base), frozenset())
    if k == "array":
        return ("array", as_c_type(t[1], c_base), t[2])
    if k == "func":
        return ("func", as_c_type(t[1], c_base), tuple(as_c_type(a, c_base) for a in t[2]), t[3])
    return t


def attr_scalar_retyped(a, b):
    """True iff the two summaries differ only in attribute values that are a number on one
    side and the text of that number on the other (+name=2 re-rendered as +name(2))."""
    def norm(s):
        s = dict(s)
        s["attrs"] = {k: (str(v) if isinstance(v, (int, float)) and v is not True else v) for k, v in s["attrs"].items()}
        if s["params"] is not None:
            s["params"] = [norm(p) for p in s["params"]]
        return s
    return diff_summary(norm(a), norm(b)) is None


def jsonable(x):
    if isinstance(x, (frozenset, set)):
        return sorted(x)
    if isinstance(x, tuple):
        return [jsonable(a) for a in x]
    if isinstance(x, list):
        return [jsonable(a) for a in x]
    if isinstance(x, dict):
        return {str(k): jsonable(v) for k, v in x.items()}
    return x


def diff_summary(a, b, path=""):
    """First difference between two summaries (dict/tuple trees) or None."""
    if type(a) != type(b) and not (isinstance(a, (list, tuple)) and isinstance(b, (list, tuple))):
        return "%s: %r != %r" % (path or ".", jsonable(a), jsonable(b))
    if isinstance(a, dict):
        for k in sorted(set(a) | set(b)):
            if k not in a or k not in b:
                return "%s.%s: %r != %r" % (path, k, jsonable(a.get(k)), jsonable(b.get(k)))
            r = diff_summary(a[k], b[k], path + "." + k)
            if r:
                return r
        return None
    if isinstance(a, (list, tuple)):
        if len(a) != len(b):
            return "%s: %r != %r" % (path or ".", jsonable(a), jsonable(b))
        for i, (x, y) in enumerate(zip(a, b)):
            r = diff_summary(x, y, "%s[%d]" % (path, i))
            if r:
                return r
        return None
    if a != b:
        return "%s: %r != %r" % (path or ".", jsonable(a), jsonable(b))
    return None


# ---------------------------------------------------------------------------- oracles on one accepted declaration
def real_tokens(text):
    from shroud import declast
    return [(t.typ, t.value) for t in declast.tokenize(text)]


def rendering_tokens(text):
    """Tokens of a rendering Shroud produced for generated code.  The C++ rendering of C99 'T complex' is the typemap's
    std::complex<T> (same meaning, see shroud_base); 'complex' is a type-specifier word for the tokenizer, so the
    reference reader gets the C99 spelling."""
    import re
    text = re.sub(r"std\s*::\s*complex\s*<\s*(float|double|long double)\s*>", r"\1 complex", text)
    return real_tokens(text)


def exc_site(ex):
    """innermost frame inside shroud/: (function, source line text)"""
    tb = traceback.extract_tb(ex.__traceback__)
    site = None
    for fr in tb:
        if "/shroud/" in fr.filename:
            site = (os.path.basename(fr.filename), fr.name, (fr.line or "").strip())
    return site


def check_accept(pairs, node, ctxname, concrete_reparse=True):
    """Oracles for one accepted token list.  Returns dict with
       c17: None | (category,text)   c09: None | text   ref: 'ok'|category."""
    from shroud import declast, todict
    out = {"c17": None, "c09": None, "ref": "ok"}
    sym = refdecl.default_sym(class_name="Class1" if ctxname == "class" else None)
    try:
        ref = refdecl.read(pairs, sym)
    except refdecl.RefReject as rj:
        out["ref"] = rj.category
        if rj.category.startswith("syntax:") and rj.category != "syntax:other":
            out["c17"] = (rj.category, "accepted although %s" % rj)
        if rj.category == "semantic:member" and "'size_t' is not a member of 'std'" not in str(rj):
            # (std::size_t exists in C++; the reference's table of std members is Shroud's: string and vector)
            # a qualified name whose last component is not declared in the scope it names: no C++ compiler derives a type
            out["c09"] = "(a) accepted although %s (qualified lookup does not search enclosing scopes)" % rj
        return out
    except RecursionError:
        out["ref"] = "ref-recursion"
        return out
    # (a) recorded structure == reference reading
    decl = node
    refd = ref
    if ref.kind == "template":
        if not isinstance(node, declast.Template):
            out["c09"] = "a template statement was recorded as %s" % type(node).__name__
            return out
        if [p.name for p in node.parameters] != ref.extra["parameters"]:
            out["c09"] = "template parameters recorded as %r" % ([p.name for p in node.parameters],)
            return out
        decl = node.decl
        refd = ref.extra["decl"]
    kinds = {"class": "CXXClass", "enum": "Enum", "struct": "Struct", "namespace": "Namespace",
             "declaration": "Declaration"}
    want = kinds.get(refd.kind)
    if type(decl).__name__ != want:
        out["c09"] = "a %s statement was recorded as %s" % (refd.kind, type(decl).__name__)
        return out
    if refd.kind != "declaration":
        if decl.name != refd.name:
            out["c09"] = "%s name recorded as %r, expected %r" % (refd.kind, decl.name, refd.name)
        elif refd.kind == "enum":
            got = [(m.name, None if m.value is None else print_expr(m.value)) for m in decl.members]
            exp = [(n, None if v is None else refdecl.expr_struct(v)) for (n, v) in refd.extra["members"]]
            if got != exp or decl.scope != refd.extra["scope"]:
                out["c09"] = "enum members recorded as %r (scope %r), expected %r (scope %r)" % (
                    got, decl.scope, exp, refd.extra["scope"])
        elif refd.kind == "struct":
            if len(decl.members) != len(refd.extra["members"]):
                out["c09"] = "struct members lost"
            else:
                for m, rm in zip(decl.members, refd.extra["members"]):
                    d = diff_summary(shroud_summary(m), ref_summary(rm))
                    if d:
                        out["c09"] = "struct member recorded differently: " + d
                        break
        elif refd.kind == "class":
            got = [(a, n) for (a, n, _) in decl.baseclass]
            exp = [refd.extra["base"]] if "base" in refd.extra else []
            if got != exp:
                out["c09"] = "base class recorded as %r, expected %r" % (got, exp)
        return out
    rs = ref_summary(refd)
    try:
        ss = shroud_summary(decl)
    except refdecl.RefReject as rj:
        out["c09"] = "recorded base type has no C++ meaning: %s" % rj
        return out
    d = diff_summary(ss, rs)
    if d:
        out["c09"] = "(a) recorded declaration differs from the C++ reading: " + d
        return out
    # (b) renderings denote the same type
    has_init = decl.init is not None or any(p.init is not None for p in (decl.params or []))
    ns = pc.context(ctxname)
    if ref.kind == "template":
        return out   # renderings of template declarations need the template scope; round trip below not defined
    try:
        text = decl.gen_decl()
        if not has_init:
            rtoks = real_tokens(text)
            r2 = refdecl.read_declaration(rtoks, sym)
            d = diff_summary(ref_summary(r2), rs)
            if d:
                out["c09"] = "(b) gen_decl() rendering %r denotes a different declaration: %s" % (text, d)
                if attr_scalar_retyped(ref_summary(r2), rs):
                    out["c09cat"] = "attr-scalar-retyped"
                return out
        if not refd.is_ctor and not refd.is_dtor:
            # result / variable rendering without parameters
            rt = rs["type"]
            ret = rt[1] if rt[0] == "func" else rt
            nm = "SHC_rv"
            unwrap = decl.declarator is not None and decl.declarator.func is None
            if unwrap and not decl.array:
                text2 = decl.gen_arg_as_cxx(name=nm, params=None, with_template_args=True)
                r3 = refdecl.read_declaration(rendering_tokens(text2), sym)
                if norm_type(r3.type) != ret or r3.name != nm:
                    out["c09"] = "(b) gen_arg_as_cxx(params=None) rendering %r denotes %r, expected %r" % (
                        text2, jsonable(norm_type(r3.type)), jsonable(ret))
                    return out
        for p, rp in zip(decl.params or [], rs["params"] or []):
            if p.declarator is None or p.init is not None:
                continue
            tx = p.gen_arg_as_cxx(with_template_args=True)
            r4 = refdecl.read_declaration(rendering_tokens(tx), sym)
            if norm_type(r4.type) != rp["type"] or r4.name != rp["name"]:
                out["c09"] = "(b) gen_arg_as_cxx() rendering %r of parameter denotes %r, expected %r" % (
                    tx, jsonable(norm_type(r4.type)), jsonable(rp["type"]))
                return out
            # the same parameter under a replacement name (how wrappers declare their local copies)
            tn = p.gen_arg_as_cxx(name="SHnew", with_template_args=True)
            r6 = refdecl.read_declaration(rendering_tokens(tn), sym)
            if norm_type(r6.type) != rp["type"] or r6.name != "SHnew":
                out["c09"] = "(b) gen_arg_as_cxx(name='SHnew') rendering %r of parameter denotes %r named %r, expected %r" % (
                    tn, jsonable(norm_type(r6.type)), r6.name, jsonable(rp["type"]))
                return out
            tm = p.template_arguments[0].typemap if p.template_arguments else p.typemap
            nested_native = all(q.typemap.c_type == q.typemap.cxx_type and not q.template_arguments
                                for q in (p.params or []))
            if tm.c_type and tm.c_type == tm.cxx_type and not p.template_arguments and nested_native:
                tc = p.gen_arg_as_c()
                r5 = refdecl.read_declaration(rendering_tokens(tc), sym)
                exp = as_c_type(rp["type"], lambda n: n)
                if norm_type(r5.type) != exp or r5.name != rp["name"]:
                    out["c09"] = "(b) gen_arg_as_c() rendering %r of parameter denotes %r, expected %r" % (
                        tc, jsonable(norm_type(r5.type)), jsonable(exp))
                    return out
                tcn = p.gen_arg_as_c(name="SHnew")
                r7 = refdecl.read_declaration(rendering_tokens(tcn), sym)
                if norm_type(r7.type) != exp or r7.name != "SHnew":
                    out["c09"] = "(b) gen_arg_as_c(name='SHnew') rendering %r of parameter denotes %r named %r, expected %r" % (
                        tcn, jsonable(norm_type(r7.type)), r7.name, jsonable(exp))
                    return out
    except refdecl.RefReject as rj:
        out["c09"] = "(b) a rendering of the accepted declaration is not a declaration: %s" % rj
        return out
    # (c) round trip through the real parser
    if not has_init and concrete_reparse:
        try:
            node2 = declast.Parser(text, ns).decl_statement()
            d1 = todict.to_dict(decl)
            d2 = todict.to_dict(node2)
            if d1 != d2:
                out["c09"] = "(c) parse(gen_decl(parse(d))) != parse(d): rendering %r: %s" % (text, diff_summary(d1, d2))
        except Exception as ex:
            out["c09"] = "(c) Shroud cannot re-read its own rendering %r: %s: %s" % (text, type(ex).__name__, str(ex).replace("\n", " | ")[:200])
    return out


def safe_to_dict(node):
    from shroud import todict
    try:
        return todict.to_dict(node)
    except Exception as ex:     # Shroud's own dumper cannot describe what the parser accepted
        return ("todict-error", type(ex).__name__)


# ---------------------------------------------------------------------------- harness
class ParseHarness(object):
    def __init__(self, tier, n, prefix=(), ctx="lib", twin=False, suffix=()):
        self.alpha = pc.Alphabet(pc.alphabet(tier))
        self.n = n
        self.prefix = [tuple(p) for p in prefix]
        self.suffix = [tuple(p) for p in suffix]
        self.ctx = ctx
        self.twin = twin

    def run(self, e):
        node, syms = pc.run_parser(e, self.alpha, self.prefix, self.n, self.ctx, suffix_pairs=self.suffix)
        for s in syms:
            s.realize()
        return node

    def judge(self, e, kind, value):
        m = e.model()
        pairs = pc.witness_pairs(e, self.alpha, self.prefix, self.n, m, self.suffix)
        text = pc.render(pairs)
        w = {"tokens": [list(p) for p in pairs], "text": text, "ctx": self.ctx}
        if kind == "exc":
            if isinstance(value, OK_EXC):
                if not str(value).strip():
                    w.update({"property": "C17", "what": "rejected without any message", "category": "empty-diagnostic"})
                    return {"cls": "rejected/empty-message", "violation": w}
                return {"cls": "rejected", "sample": w}
            site = exc_site(value)
            w.update({"property": "C17", "what": "internal %s: %s" % (type(value).__name__, str(value)[:120]),
                      "exc": type(value).__name__, "site": list(site) if site else None})
            return {"cls": "internal:" + type(value).__name__, "violation": w, "vkey": violation_key(w)}
        try:
            res = check_accept(pairs, value, self.ctx)
            # translator validation: the real tokenizer + parser on the rendered text must give the same AST
            from shroud import declast, todict
            if real_tokens(text) != [tuple(p) for p in pairs]:
                raise AssertionError("rendered text tokenises differently")
            node2 = declast.Parser(text, pc.context(self.ctx)).decl_statement()
            if safe_to_dict(node2) != safe_to_dict(value):
                raise AssertionError("token-stub parse and real front-end parse differ")
        except Exception as ex:
            w.update({"property": "HARNESS", "what": "oracle error %s: %s" % (type(ex).__name__, ex),
                      "trace": traceback.format_exc()[-800:]})
            return {"cls": "oracle-error", "violation": w}
        if self.twin:
            w.update({"property": "TWIN", "what": "reachability twin"})
            return {"cls": "twin", "violation": w}
        if res["c17"]:
            w.update({"property": "C17", "what": "silently accepted: " + res["c17"][1], "category": res["c17"][0]})
            return {"cls": "accepted/" + res["c17"][0], "violation": w, "vkey": violation_key(w)}
        if res["c09"]:
            w.update({"property": "C09", "what": res["c09"]})
            if res.get("c09cat"):
                w["category"] = res["c09cat"]
            return {"cls": "accepted/misread", "violation": w, "vkey": violation_key(w)}
        if res["ref"] != "ok":
            return {"cls": "accepted/outside-reference:" + res["ref"], "sample": w}
        return {"cls": "accepted/agree", "sample": w}


def make(**kw):
    return ParseHarness(**kw)


def T(*words):
    """Concrete prefix tokens from text via the real tokenizer."""
    return real_tokens(" ".join(words))


SEEDS = [
    ("lib", "void foo ( int arg1 , double arg2 )"),
    ("lib", "const std :: string & getName ( ) const"),
    ("lib", "int ( * func ) ( int )"),
    ("lib", "int * ( * func ) ( int * arg )"),
    ("lib", "int callback1 ( int type , void ( * incr ) ( int ) )"),
    ("lib", "int register_cb ( void ( * cb ) ( int ) )"),
    ("lib", "const int * const * const var1"),
    ("lib", "int * const volatile p"),
    ("lib", "volatile unsigned long int x"),
    ("lib", "char var2 [ 20 ] [ 10 ]"),
    ("lib", "char * var1 +len ( 30 ) +intent ( out )"),
    ("lib", "int * var1 +dimension ( n + 1 , m )"),
    ("lib", "void f ( int a = 1 , bool b = true , double c = 1.5 )"),
    ("lib", "std :: vector < int > & v +intent ( in )"),
    ("lib", "void g ( const std :: vector < std :: string > & names )"),
    ("lib", "Class1 * make ( ) +owner ( caller )"),
    ("lib", "static extern int counter"),
    ("lib", "typedef int TypeID2 ;"),
    ("lib", "enum class Color2 { RED = 1 , BLUE , WHITE = RED + 2 * ( 3 - 1 ) , }"),
    ("lib", "struct struct1 { int i ; double d [ 3 ] ; } ;"),
    ("lib", "class Class2 : public Class1"),
    ("lib", "namespace ns1"),
    ("lib", "template < typename T , class U > void decl11 ( T arg , U * out )"),
    ("lib", "template < typename T > class vector2"),
    ("lib", "size_t strlen2 ( const char * s ) ;"),
    ("lib", "void * foo ( ) const"),
    ("lib", "long long var2"),
    ("lib", "unsigned short int us ( unsigned long long int a , signed char b )"),
    ("lib", "long double ld ( short int s , unsigned long int ul , long int li )"),
    ("lib", "int grid [ 20 - 8 - 4 ] [ 100 / 10 / 5 ]"),
    ("lib", "enum Level { LOW = 9 - 4 - 1 , MID = LOW * 4 / 2 * 3 , TOP = 2 - LOW + MID }"),
    ("lib", "int & * var1"),
    ("lib", "void mask ( int bits = 017 )"),
    ("lib", "enum Perm { RW = 06 * 010 }"),
    ("lib", "template < typename Class1 > Class1 twice ( Class1 value )"),
    ("lib", "template < typename size_t > void grow ( size_t * n )"),
    ("class", "Class1 ( int flag ) +name ( new )"),
    ("class", "~ Class1 ( void )"),
    ("class", "const Class1 & self ( ) const"),
    ("class", "int m_ivar +readonly +name ( ivar )"),
]


def plan(tier):
    """List of (label, kwargs) explorations."""
    jobs = []
    nmax = 3 if tier == "quick" else 4
    for n in range(0, nmax + 1):
        jobs.append(("start/%d" % n, dict(tier=tier, n=n, prefix=[], ctx="lib")))
    jobs.append(("class-start/%d" % (nmax - 1), dict(tier=tier, n=nmax - 1, prefix=[], ctx="class")))
    # window mutations of seed declarations: tokens [i, i+j) replaced by k symbolic tokens
    kmax = 1 if tier == "quick" else 2
    jmax = 2
    seen = set()
    for ctx, text in SEEDS:
        toks = T(text)
        L = len(toks)
        for i in range(0, L + 1):
            for j in range(0, jmax + 1):
                if i + j > L:
                    continue
                for k in range(1, kmax + 1):
                    key = (ctx, tuple(toks[:i]), k, tuple(toks[i + j:]))
                    if key in seen:
                        continue
                    seen.add(key)
                    jobs.append(("seed %r [%d:%d]->%d sym" % (text, i, i + j, k),
                                 dict(tier=tier, n=k, prefix=toks[:i], suffix=toks[i + j:], ctx=ctx)))
        # every proper prefix followed by a symbolic tail
        tail = 2 if tier == "quick" else 3
        for i in range(1, L):
            key = (ctx, tuple(toks[:i]), tail, ())
            if key in seen:
                continue
            seen.add(key)
            jobs.append(("prefix %r[:%d] + %d sym" % (text, i, tail),
                         dict(tier=tier, n=tail, prefix=toks[:i], suffix=[], ctx=ctx)))
    return jobs


def explore_all(tier, budget_s):
    jobs = plan(tier)
    specs = [("harness.parse_explore", "make", kw) for (_, kw) in jobs]
    accs = driver.explore_many(specs, split_depth=10, time_budget_s=budget_s, max_decisions=20000)
    twin = driver.explore(("harness.parse_explore", "make", dict(tier="quick", n=1, prefix=T("int"), ctx="lib", twin=True)),
                          nworkers=1)
    return jobs, accs, twin


# ---------------------------------------------------------------------------- concrete replay
def replay_tokens(w):
    """Run the real front end (regex tokenizer + Parser) on the witness text: no proxy involved.
    Returns dict(outcome=..., c17=..., c09=...)."""
    from shroud import declast
    text = w["text"]
    ctx = w.get("ctx", "lib")
    ns = pc.context(ctx)
    res = {"text": text}
    try:
        toks = real_tokens(text)
    except RuntimeError as ex:
        res["outcome"] = "rejected"
        return res
    res["tokens_match"] = [list(t) for t in toks] == [list(t) for t in w["tokens"]]
    try:
        node = declast.Parser(text, ns).decl_statement()
    except OK_EXC as ex:
        res["outcome"] = "rejected"
        res["message"] = str(ex)
        return res
    except Exception as ex:
        res["outcome"] = "internal"
        res["exc"] = type(ex).__name__
        res["message"] = str(ex)[:200]
        site = exc_site(ex)
        res["site"] = list(site) if site else None
        return res
    res["outcome"] = "accepted"
    chk = check_accept(toks, node, ctx)
    res["c17"] = chk["c17"]
    res["c09"] = chk["c09"]
    res["c09cat"] = chk.get("c09cat")
    res["ref"] = chk["ref"]
    return res


# ---------------------------------------------------------------------------- shared main for C09 / C17
def skeleton(text):
    import re
    return re.sub(r"'[^']*'|\"[^\"]*\"|\[[^\]]*\]", "Q", text)[:110]


def violation_key(v):
    if v.get("exc"):
        site = v.get("site") or [None, None, None]
        return "internal/%s@%s:%s" % (v["exc"], site[1], site[2])
    if v.get("property") == "C09":
        if v.get("category"):
            return "misread/" + v["category"]
        return "misread/" + skeleton(v["what"])
    if v.get("category"):
        return "accept/%s/%s" % (v["category"], skeleton(v["what"]))
    return "other/" + skeleton(v["what"])


def confirm(pid, v):
    """Replay on the real front end.  Returns (reproduced: bool, detail)."""
    r = replay_tokens(v)
    if pid == "C17":
        if v.get("exc"):
            return (r.get("outcome") == "internal" and r.get("exc") == v["exc"]), r
        if v.get("category") == "empty-diagnostic":
            return (r.get("outcome") == "rejected" and not (r.get("message") or "").strip()), r
        return (r.get("outcome") == "accepted" and r.get("c17") is not None), r
    return (r.get("outcome") == "accepted" and r.get("c09") is not None), r


def run_check(pid, tier, seed, rep, extra_cov=None):
    """Explores, confirms, reports.  Returns coverage dict."""
    import time
    from lib import checklib
    budget = 600 if tier == "quick" else 12000
    t0 = time.time()
    jobs, accs, twin = explore_all(tier, budget)
    total = driver.Acc()
    runs = []
    for (label, kw), a in zip(jobs, accs):
        total.merge(a)
        if len(runs) < 60 or a.nviol:
            runs.append({"exploration": label, "paths": a.stats.paths, "queries": a.stats.queries,
                         "solver_s": round(a.stats.solver_s, 2), "classes": dict(a.counts)})
        for msg in a.inconclusive:
            rep.inconc("%s: %s" % (label, msg))
    twin_ok = twin.stats.paths > 0 and not twin.inconclusive and \
        twin.counts.get("twin", 0) == sum(v for k, v in twin.counts.items() if k.startswith("accepted") or k == "twin")
    if not twin_ok or twin.counts.get("twin", 0) == 0:
        rep.inconc("reachability twin failed: %r %r" % (dict(twin.counts), twin.inconclusive[:1]))
    known = checklib.load_known(pid)
    groups = {}
    for v in total.violations:
        if v.get("property") == "HARNESS":
            rep.inconc("oracle/translator error on %r: %s" % (v["text"], v["what"]))
            continue
        if v.get("property") != pid:
            continue
        groups.setdefault(violation_key(v), []).append(v)
    confirmed = 0
    for key, vs in sorted(groups.items()):
        v = vs[0]
        ok, detail = confirm(pid, v)
        if not ok:
            rep.inconc("counterexample %r (%s) did not reproduce on the real front end: %r" % (v["text"], key, detail))
            continue
        confirmed += 1
        kf = [k for k in known if k.get("key") == key]
        if kf and kf[0].get("status") == "known":
            rep.known_finding("%s (e.g. %r; %d paths)" % (kf[0].get("what_fails", key), v["text"], total.vcount.get(key, len(vs))))
            continue
        path = checklib.write_replay(pid, "cex_%03d" % confirmed, v)
        rep.violation(path, "%s  input=%r  [%d paths in this class; key=%s]" % (v["what"], v["text"], total.vcount.get(key, len(vs)), key))
    samples = []
    for cls, lst in sorted(total.samples.items()):
        samples.append({"class": cls, "input": lst[0]["text"], "ctx": lst[0]["ctx"]})
    other = "C17" if pid == "C09" else "C09"
    cov = {
        "states": total.stats.paths,
        "transitions": total.stats.decisions,
        "traces_validated_against_impl": sum(v for k, v in total.counts.items() if k.startswith("accepted")) + confirmed,
        "samples": samples[:12],
        "exhaustive": False,
        "functions_encoded": ["shroud.declast.Parser.decl_statement and everything it calls (declaration, declaration_specifier, "
                              "declarator, pointer, parameter_list, attribute, initializer, nested_namespace, parse_template_arguments, "
                              "class/enum/struct/namespace/template statements, ExprParser.expression/primary)",
                              "shroud.declast.Declaration.gen_decl / gen_arg_as_cxx / gen_arg_as_c, Declarator/Ptr.gen_decl_work",
                              "shroud.todict.to_dict, print_node"],
        "bounds": {"alphabet_size": len(pc.alphabet(tier)), "alphabet": [v for (_, v) in pc.alphabet(tier)],
                   "explorations": len(jobs), "seed_declarations": [t for (_, t) in SEEDS],
                   "shapes": "all sequences of <= N symbolic tokens from the start symbol; every window [i,i+j) (j<=2) of every seed "
                             "declaration replaced by k symbolic tokens; every proper prefix of every seed followed by a symbolic tail",
                   "meaning": "every token sequence of exactly k symbolic tokens over the alphabet after each listed concrete prefix"},
        "solver": {"name": "z3 " + z3.get_version_string(), "queries": total.stats.queries, "solver_s": round(total.stats.solver_s, 2)},
        "outcome_classes": dict(total.counts),
        "paths_reaching_assertion": total.reached,
        "reachability_twin_ok": bool(twin_ok),
        "violation_classes_confirmed_on_real_front_end": confirmed,
        "note": "violations of %s found by the shared exploration are reported by that property's check" % other,
        "runs": runs,
    }
    if extra_cov:
        cov.update(extra_cov)
    return cov
