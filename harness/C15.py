"""C15 - wrapper selection is honoured and the file lists match what was written.

Kernel 1: ast.promote_wrap over a library/namespace/class/function tree whose wrap options are
          symbolic booleans: after promotion a container's flag is true iff its own option or a
          descendant's is (z3 validity query per container and language).
Kernel 2: the whole real pipeline with wrap_python / wrap_lua symbolic at library level and at one
          declaration at a time (wrap_c / wrap_fortran are compared with `is False` inside Shroud and
          are therefore enumerated, not symbolic): C and Fortran files byte-identical to the run with
          Python and Lua off; --cfiles/--ffiles lists equal the files written; every file inside the
          directory designated for its kind; a language that is off produces no files; a declaration
          whose wrapper is off for a language is absent from that language's output.
"""
import json
import os
import re
import sys

import z3

sys.path.insert(0, os.path.dirname(os.path.dirname(os.path.abspath(__file__))))
from engines.shadowsym.core import Engine  # noqa: E402
from engines.shadowsym.proxies import SymBool  # noqa: E402
from engines.shadowsym import driver  # noqa: E402
from gen import pipeline  # noqa: E402
from harness import cfg_common as cc  # noqa: E402
from harness.C16 import decl_nodes  # noqa: E402
from lib import checklib  # noqa: E402

PID = "C15"
DIRS = {"out": "/O", "c_fortran": "/CF", "python": "/PY", "lua": "/LUA", "yaml": "/Y"}
LANGS = ["c", "fortran", "python", "lua"]


def kind_of(path):
    b = os.path.basename(path)
    if b.endswith(".f"):
        return "fortran"
    if b.startswith("lua"):
        return "lua"
    if b == "setup.py":
        return "setup"      # written next to the build, in --outdir; its sources carry their directories
    if b.startswith("py"):
        return "python"
    if b.endswith((".h", ".hpp", ".c", ".cpp")):
        return "c"
    if b.endswith(".yaml"):
        return "yaml"
    if b.endswith(".json"):
        return "json"
    return "other"


# ---------------------------------------------------------------------------- kernel 1: promotion
TREES = {
    # (kind, name, children); kinds: lib ns cls fn enum var.  Typedef declarations are left out: add_typedef
    # does not hand per-declaration options to the node and typedefs produce no output in any language,
    # so there is nothing of the property to observe on them.
    "A": ("lib", "lib", [("fn", "fn0", []), ("ns", "ns", [("fn", "fn1", []), ("cls", "cls", [("fn", "fn2", [])])])]),
    "B": ("lib", "lib", [("ns", "ns", [("ns", "ns2", [("fn", "fn1", []), ("cls", "cls", [("fn", "fn2", [])])]),
                                       ("enum", "en", [])]),
                         ("var", "var", [])]),
    "C": ("lib", "lib", [("cls", "cls", [("cls", "cls2", [("fn", "fn1", [])]), ("enum", "en", []), ("var", "var", [])]),
                         ("ns", "ns", [("ns", "ns2", [("ns", "ns3", [("fn", "fn2", [])])])])]),
}


def tree_nodes(t, acc=None):
    acc = [] if acc is None else acc
    acc.append(t)
    for c in t[2]:
        tree_nodes(c, acc)
    return acc


def build_tree(t, opts, parent=None):
    """Build the real AST for a TREES entry; returns {name: node}."""
    from shroud import ast
    kind, name, kids = t
    if kind == "lib":
        node = ast.LibraryNode(library="lib", options=opts(name))
    elif kind == "ns":
        node = parent.add_namespace(name, options=opts(name))
    elif kind == "cls":
        node = parent.add_class(name.capitalize(), options=opts(name))
    elif kind == "fn":
        node = parent.add_function("void %s()" % name, options=opts(name))
    elif kind == "enum":
        node = parent.add_enum("enum %s { %s_A }" % (name.capitalize(), name), options=opts(name))
    elif kind == "var":
        node = parent.add_variable("int %s" % name, options=opts(name))
    elif kind == "typedef":
        node = parent.add_typedef("typedef int %s" % name, options=opts(name))
    out = {name: node}
    for c in kids:
        out.update(build_tree(c, opts, node))
    return out


class PromoteHarness(object):
    """A library tree (TREES) with wrap_c/f/python/lua symbolic on every node."""

    def __init__(self, lang=None, twin=False, tree="A"):
        self.twin = twin
        self.lang = lang     # the language whose flags are symbolic (the four languages do not interact)
        self.tree = tree
        self.spec = TREES[tree]
        self.containers = [t for t in tree_nodes(self.spec) if t[0] in ("lib", "ns", "cls")]

    def run(self, e):
        from shroud import ast, typemap
        typemap.initialize()
        self.v = {}

        def opts(name):
            o = {}
            for lang in LANGS:
                if self.lang in (None, lang):
                    z = z3.Bool("%s_%s" % (name, lang))
                    o["wrap_" + lang] = SymBool(e, z)
                else:
                    z = z3.BoolVal(False)
                    o["wrap_" + lang] = False
                self.v[(name, lang)] = z
            return o
        nodes = build_tree(self.spec, opts)
        ast.promote_wrap(nodes["lib"])
        return {n: node.wrap for n, node in nodes.items()}

    def judge(self, e, kind, value):
        m = e.model()
        cfg = {"%s.%s" % k: bool(z3.is_true(m.eval(z, model_completion=True))) for k, z in self.v.items()}
        cls = "promote/" + self.tree
        if kind == "exc":
            return {"cls": cls, "violation": {"kernel": "promote", "tree": self.tree, "options": cfg,
                                              "what": "exception %s: %s" % (type(value).__name__, value)}}
        fail = None
        for t in self.containers:
            n = t[1]
            for lang in LANGS:
                got = getattr(value[n], lang)
                want = z3.Or([self.v[(d[1], lang)] for d in tree_nodes(t)])
                gz = got.z if isinstance(got, SymBool) else bool(got)
                claim = gz == want
                if e.check(z3.Not(claim)) == "sat":
                    mm = e.model(z3.Not(claim))
                    cfg = {"%s.%s" % k: bool(z3.is_true(mm.eval(z, model_completion=True))) for k, z in self.v.items()}
                    fail = "after promotion %s.wrap.%s is not the OR of the options of its subtree" % (n, lang)
                    break
            if fail:
                break
        if self.twin and not fail:
            fail = "reachability twin"
        if fail:
            return {"cls": cls, "violation": {"kernel": "promote", "tree": self.tree, "options": cfg, "what": fail}, "vkey": fail[:60]}
        return {"cls": cls, "sample": {"kernel": "promote", "tree": self.tree, "options": cfg}}


def confirm_promote(w):
    from shroud import typemap
    typemap.initialize()
    spec = TREES[w.get("tree", "A")]
    nodes = build_tree(spec, lambda n: {"wrap_" + l: w["options"]["%s.%s" % (n, l)] for l in LANGS})
    from shroud import ast
    ast.promote_wrap(nodes["lib"])
    for t in tree_nodes(spec):
        if t[0] not in ("lib", "ns", "cls"):
            continue
        for l in LANGS:
            want = any(w["options"]["%s.%s" % (d[1], l)] for d in tree_nodes(t))
            got = bool(getattr(nodes[t[1]].wrap, l))
            if got != want:
                return "after promotion %s.wrap.%s is %r, expected %r" % (t[1], l, got, want)
    return None


# ---------------------------------------------------------------------------- kernel 2: pipeline
def build_input(libname, wrap_c, wrap_f, lib_py, lib_lua, decl_index, decl_flags):
    d = pipeline.load_yaml(cc.LIBS[libname])
    o = d.setdefault("options", {})
    o["wrap_c"] = wrap_c
    o["wrap_fortran"] = wrap_f
    o["wrap_python"] = lib_py
    o["wrap_lua"] = lib_lua
    name = None
    if decl_index is not None:
        node = decl_nodes(d)[decl_index]
        name = node["decl"]
        node.setdefault("options", {}).update(decl_flags)
    return d, name


_BASE = {}


def run_plain(libname, wrap_c, wrap_f, lib_py, lib_lua, decl_index, decl_flags):
    d, _ = build_input(libname, wrap_c, wrap_f, lib_py, lib_lua, decl_index, decl_flags)
    return pipeline.run(d, outdirs=DIRS, deep=False)


def baseline(libname, wrap_c, wrap_f, decl_index, decl_cf):
    """Python and Lua off everywhere, same C/Fortran selection."""
    key = (libname, wrap_c, wrap_f, decl_index, tuple(sorted(decl_cf.items())))
    if key not in _BASE:
        flags = dict(decl_cf)
        if decl_index is not None:
            flags.update({"wrap_python": False, "wrap_lua": False})
        r = run_plain(libname, wrap_c, wrap_f, False, False, decl_index, flags)
        _BASE[key] = {f: "".join(p) for f, p in r.files.items() if kind_of(f) in ("c", "fortran")}
    return _BASE[key]


def names_of(libname, decl_index):
    """Emitted names of one declaration when everything is wrapped (for presence/absence tests).
    One all-on run per library, cached."""
    key = ("names", libname)
    if key not in _BASE:
        d, _ = build_input(libname, True, True, True, True, None, {})
        r = pipeline.run(d, outdirs=DIRS, deep=False)
        decls = [n["decl"] for n in decl_nodes(pipeline.load_yaml(cc.LIBS[libname]))]
        table = [dict() for _ in decls]
        cxxnames = {}

        def visit(node, containers=()):
            for fn in getattr(node, "functions", []):
                if fn.decl in decls:
                    i = decls.index(fn.decl)
                    fmt = fn.fmtdict
                    cxxnames.setdefault(fn.ast.name, set()).add(i)
                    for lang, field in (("c", "C_name"), ("fortran", "F_name_impl"), ("python", "PY_name_impl"), ("lua", "LUA_name_impl")):
                        if fmt.inlocal(field):
                            table[i].setdefault(lang, set()).add(getattr(fmt, field))
                            if lang == "c":
                                for ci in containers:
                                    table[ci].setdefault("c-inside", set()).add(getattr(fmt, field))
                            if lang == "fortran":
                                for ci in containers:
                                    table[ci].setdefault("f-inside", set()).add(getattr(fmt, field))
                    if fmt.inlocal("F_C_name"):
                        for ci in containers:
                            table[ci].setdefault("f-iface", set()).add(fmt.F_C_name)
            for en in getattr(node, "enums", []):
                eidx = [i_ for i_, dt in enumerate(decls) if re.match(r"^enum\s+(?:class\s+|struct\s+)?%s\b" % re.escape(en.name), dt)]
                if len(eidx) == 1:
                    # the enumeration's own switches: its enumerators in the C header / Fortran module
                    for mname, mfmt in getattr(en, "_fmtmembers", {}).items():
                        table[eidx[0]].setdefault("c-enumerator", set()).add(mfmt.C_enum_member)
                        table[eidx[0]].setdefault("f-enumerator", set()).add(mfmt.F_enum_member)
                for mname, mfmt in getattr(en, "_fmtmembers", {}).items():
                    for ci in containers:
                        table[ci].setdefault("c-inside", set()).add(mfmt.C_enum_member)
                        table[ci].setdefault("f-param", set()).add(mfmt.F_enum_member)
            for sub in list(getattr(node, "classes", [])) + list(getattr(node, "namespaces", [])):
                kind = "class" if sub in getattr(node, "classes", []) else "namespace"
                text = "%s %s" % (kind, sub.name)
                inner = containers + ((decls.index(text),) if text in decls else ())
                if kind == "class" and text in decls and sub.fmtdict.inlocal("F_derived_name"):
                    table[decls.index(text)].setdefault("f-type", set()).add(sub.fmtdict.F_derived_name)
                if kind == "class":
                    sidx = [i_ for i_, dt in enumerate(decls) if re.match(r"^struct\s+%s\b" % re.escape(sub.name), dt)]
                    if sidx and sub.fmtdict.inlocal("C_type_name"):
                        table[sidx[0]].setdefault("c-type", set()).add(sub.fmtdict.C_type_name)
                visit(sub, inner)
        visit(r.library)
        overloaded = set()
        for nm, idx in cxxnames.items():
            if len(idx) > 1:
                overloaded |= idx
        _BASE[key] = ([{k: sorted(v) for k, v in t.items()} for t in table], overloaded)
    table, overloaded = _BASE[key]
    if decl_index in overloaded:
        return {}          # an overload set shares its Python/Lua names: presence is not attributable to one declaration
    return table[decl_index]


class PipeHarness(object):
    def __init__(self, libname, wrap_c, wrap_f, decl_index=None, decl_cf=None, twin=False):
        self.libname, self.wrap_c, self.wrap_f = libname, wrap_c, wrap_f
        self.decl_index, self.decl_cf, self.twin = decl_index, dict(decl_cf or {}), twin

    def run(self, e):
        self.v = {}
        zp, zl = z3.Bool("lib_python"), z3.Bool("lib_lua")
        self.v["lib.wrap_python"], self.v["lib.wrap_lua"] = zp, zl
        flags = dict(self.decl_cf)
        if self.decl_index is not None:
            dp, dl = z3.Bool("decl_python"), z3.Bool("decl_lua")
            self.v["decl.wrap_python"], self.v["decl.wrap_lua"] = dp, dl
            flags["wrap_python"] = SymBool(e, dp)
            flags["wrap_lua"] = SymBool(e, dl)
        d, self.decl_text = build_input(self.libname, self.wrap_c, self.wrap_f, SymBool(e, zp), SymBool(e, zl),
                                        self.decl_index, flags)
        return pipeline.run(d, outdirs=DIRS, deep=False)

    def cfg(self, m):
        c = {k: bool(z3.is_true(m.eval(z, model_completion=True))) for k, z in self.v.items()}
        return c

    def witness(self, m, what):
        return {"kernel": "pipeline", "library": self.libname, "wrap_c": self.wrap_c, "wrap_fortran": self.wrap_f,
                "decl_index": self.decl_index, "decl": getattr(self, "decl_text", None), "decl_cf": self.decl_cf,
                "options": self.cfg(m), "what": what}

    def judge(self, e, kind, value):
        cls = "pipeline/%s/c=%s,f=%s/%s" % (self.libname, self.wrap_c, self.wrap_f,
                                            "lib" if self.decl_index is None else "decl%d" % self.decl_index)
        m = e.model()
        if kind == "exc":
            return {"cls": cls, "violation": self.witness(m, "exception %s: %s" % (type(value).__name__, str(value)[:200])),
                    "vkey": "exception:" + type(value).__name__}
        what = check_run(self.libname, self.wrap_c, self.wrap_f, self.decl_index, self.decl_cf, self.cfg(m), value)
        if self.twin and not what:
            what = "reachability twin"
        if what:
            return {"cls": cls, "violation": self.witness(m, what), "vkey": what[:70]}
        return {"cls": cls, "sample": self.witness(m, None)}


def check_run(libname, wrap_c, wrap_f, decl_index, decl_cf, cfg, res):
    files = {}
    for f, p in res.files.items():
        if any(not isinstance(x, str) for x in p):
            return "a proxy value was written into %s" % f
        files[f] = "".join(p)
    # (a) C / Fortran bytes do not depend on the Python / Lua switches
    base = baseline(libname, wrap_c, wrap_f, decl_index, decl_cf)
    got = {f: t for f, t in files.items() if kind_of(f) in ("c", "fortran")}
    if set(got) != set(base):
        return "C/Fortran file set changes with the Python/Lua switches: missing %r, extra %r" % (
            sorted(set(base) - set(got)), sorted(set(got) - set(base)))
    for f in sorted(base):
        if base[f] != got[f]:
            k = next(i for i, (x, y) in enumerate(zip(base[f] + "\0", got[f] + "\0")) if x != y)
            return "%s changes with the Python/Lua switches near %r" % (os.path.basename(f), got[f][max(0, k - 40):k + 40])
    # (b) file lists
    cw = sorted(f for f in files if kind_of(f) == "c")
    fw = sorted(f for f in files if kind_of(f) == "fortran")
    if sorted(res.config.cfiles) != cw:
        return "--cfiles lists %r but the C/C++ files written are %r" % (sorted(res.config.cfiles), cw)
    if sorted(res.config.ffiles) != fw:
        return "--ffiles lists %r but the Fortran files written are %r" % (sorted(res.config.ffiles), fw)
    # (c) directories
    want_dir = {"c": DIRS["c_fortran"], "fortran": DIRS["c_fortran"], "python": DIRS["python"], "lua": DIRS["lua"],
                "yaml": DIRS["yaml"]}
    for f in sorted(files):
        k = kind_of(f)
        if k in want_dir and os.path.dirname(f) != want_dir[k]:
            return "%s file %s is written to %s, not to the %s output directory %s" % (k, os.path.basename(f), os.path.dirname(f), k, want_dir[k])
    # (d) a language that is off for the whole library produces no files
    on = {"c": wrap_c, "fortran": wrap_f, "python": cfg["lib.wrap_python"], "lua": cfg["lib.wrap_lua"]}
    if decl_index is not None:
        for lang, key in (("c", "wrap_c"), ("fortran", "wrap_fortran")):
            if decl_cf.get(key):
                on[lang] = True
        if cfg.get("decl.wrap_python"):
            on["python"] = True
        if cfg.get("decl.wrap_lua"):
            on["lua"] = True
    if on["fortran"]:
        on["c"] = on["c"] or True   # the Fortran wrapper needs the C wrapper (property's domain)
    for lang in LANGS:
        if not on[lang]:
            extra = sorted(os.path.basename(f) for f in files if kind_of(f) == lang)
            if extra:
                return "wrap_%s is off for the whole library but %r were written" % (lang, extra)
    # (e) the chosen declaration appears exactly in the languages whose wrapper is on for it
    if decl_index is not None:
        import re
        nd = len(decl_nodes(pipeline.load_yaml(cc.LIBS[libname])))
        mine = names_of(libname, decl_index)
        dtext = decl_nodes(pipeline.load_yaml(cc.LIBS[libname]))[decl_index]["decl"]
        dflag = {"c": decl_cf.get("wrap_c", wrap_c), "fortran": decl_cf.get("wrap_fortran", wrap_f),
                 "python": cfg["decl.wrap_python"], "lua": cfg["decl.wrap_lua"]}
        if not dflag["c"]:
            # a struct whose C wrapper is off (its Fortran derived type does not need the C copy)
            ctext0 = "\n".join(t for f, t in files.items() if kind_of(f) == "c")
            for nm in mine.get("c-type", []):
                if re.search(r"\b%s\b" % re.escape(nm), ctext0):
                    return "declaration %r has wrap_c off but its C type %s appears in the C output" % (dtext, nm)
        if not dflag["c"] and not dflag["fortran"]:
            # an enumeration whose C wrapper is off: its enumerators are not defined in the C header
            ctext1 = "\n".join(t for f, t in files.items() if kind_of(f) == "c")
            for nm in mine.get("c-enumerator", []):
                if re.search(r"\b%s\b" % re.escape(nm), ctext1):
                    return "enumeration %r has wrap_c off but its enumerator %s is defined in the C output" % (dtext, nm)
        if not dflag["fortran"]:
            ftext1 = "\n".join(t for f, t in files.items() if kind_of(f) == "fortran")
            for nm in mine.get("f-enumerator", []):
                if re.search(r"(?im)^\s*integer\(C_INT\), parameter :: %s\b" % re.escape(nm), ftext1):
                    return "enumeration %r has wrap_fortran off but its enumerator %s is a parameter of the Fortran module" % (dtext, nm)
        if not dflag["c"] and not dflag["fortran"]:
            # a container (namespace / class) whose C wrapper is off: nothing declared inside it may reach the C output
            ctext = "\n".join(t for f, t in files.items() if kind_of(f) == "c")
            for nm in mine.get("c-inside", []):
                if re.search(r"\b%s\b" % re.escape(nm), ctext):
                    return "declaration %r has wrap_c off but %s (declared inside it) appears in the C output" % (dtext, nm)
        if not dflag["fortran"]:
            # a container whose Fortran wrapper is off: neither its derived type nor a procedure declared inside it
            ftext = "\n".join(t for f, t in files.items() if kind_of(f) == "fortran")
            foutside = re.sub(r"(?ims)^\s*interface\b.*?^\s*end interface\b[^\n]*", "", ftext)
            for nm in mine.get("f-type", []):
                if re.search(r"(?im)^\s*type\s*(?:,[^:\n]*)?(?:::)?\s*%s\s*$" % re.escape(nm), ftext):
                    return "declaration %r has wrap_fortran off but the derived type %s is defined in the Fortran module" % (dtext, nm)
            for nm in mine.get("f-inside", []):
                if re.search(r"(?im)^\s*(?:[a-z_()0-9 ]*\s)?(subroutine|function)\s+%s\s*\(" % re.escape(nm), foutside):
                    return "declaration %r has wrap_fortran off but the Fortran wrapper %s (declared inside it) is emitted" % (dtext, nm)
            for nm in mine.get("f-param", []):
                if re.search(r"(?im)^\s*integer\(C_INT\), parameter :: %s\b" % re.escape(nm), ftext):
                    return "declaration %r has wrap_fortran off but the enumerator %s (declared inside it) is a parameter of the Fortran module" % (dtext, nm)
            for nm in mine.get("f-iface", []):
                if re.search(r"(?im)^\s*(?:[a-z_()0-9 ]*\s)?(subroutine|function)\s+%s\s*\(" % re.escape(nm), ftext):
                    return "declaration %r has wrap_fortran off but the bind(C) interface %s (declared inside it) is in the Fortran module" % (dtext, nm)
            if mine.get("f-iface"):
                # the same by the C name bound to (the interface's Fortran name depends on whether a wrapper exists)
                for nm in mine.get("c-inside", []):
                    if re.search(r'bind\(C, name="%s"\)' % re.escape(nm), ftext):
                        return "declaration %r has wrap_fortran off but a bind(C) interface to %s (declared inside it) is in the Fortran module" % (dtext, nm)
        for lang in ("python", "lua", "fortran"):
            others = set()
            for j in range(nd):
                if j != decl_index:
                    others.update(names_of(libname, j).get(lang, []))
            text = "\n".join(t for f, t in files.items() if kind_of(f) == lang)
            outside = re.sub(r"(?ims)^\s*interface\b.*?^\s*end interface\b[^\n]*", "", text) if lang == "fortran" else text
            for nm in mine.get(lang, []):
                if nm in others:
                    continue        # an overload set shares this name
                if lang == "fortran":
                    defined = re.search(r"(?im)^\s*(?:[a-z_()0-9 ]*\s)?(subroutine|function)\s+%s\s*\(" % re.escape(nm), outside) is not None
                    present = re.search(r"(?i)\b%s\b" % re.escape(nm), text) is not None
                    if defined and not dflag[lang]:
                        return "declaration %r has wrap_fortran off but the Fortran wrapper %s is emitted" % (dtext, nm)
                    if not present and dflag[lang] and (dflag["c"] or wrap_c):
                        return "declaration %r has wrap_fortran on but %s does not appear in the Fortran output" % (dtext, nm)
                else:
                    present = re.search(r"\b%s\s*\(" % re.escape(nm), text) is not None
                    if present and not dflag[lang]:
                        return "declaration %r has wrap_%s off but %s is defined in the %s output" % (dtext, lang, nm, lang)
                    if not present and dflag[lang]:
                        return "declaration %r has wrap_%s on but %s is not defined in the %s output" % (dtext, lang, nm, lang)
    return None


# ---------------------------------------------------------------------------- kernel 3: the five directory options
DIR_OPTS = ["outdir", "outdir_c_fortran", "outdir_python", "outdir_lua", "outdir_yaml"]


def run_main_dirs(libname, given):
    """real main_with_args; `given` says which of the five directory options are on the command line"""
    import argparse
    import shutil
    import tempfile
    from shroud import main as smain, wrapc, wrapp
    import shroud.util as U
    import yaml
    tmp = tempfile.mkdtemp(prefix="c15_")
    cwd = os.getcwd()
    files = {}
    try:
        os.chdir(tmp)
        d = pipeline.load_yaml(cc.LIBS[libname])
        d.setdefault("options", {}).update({"wrap_python": True, "wrap_lua": True})
        with open("lib.yaml", "w") as f:
            f.write(yaml.safe_dump(d))
        dirs = {}
        for o in DIR_OPTS:
            dirs[o] = os.path.join(tmp, "D_" + o) if given[o] else ""
            if dirs[o]:
                os.mkdir(dirs[o])

        def mem_open(path, mode="r", *a, **k):
            if "w" in mode:
                return pipeline.MemFile(files, path)
            return open(path, mode, *a, **k)
        U.open = mem_open
        U.print = lambda *a, **k: None
        pipeline._restore_tables()
        wrapc.Wrapc.capsule_code, wrapc.Wrapc.capsule_order, wrapc.Wrapc.capsule_include = {}, [], {}
        wrapp.Wrapp.capsule_code, wrapp.Wrapp.capsule_order = {}, []
        try:
            args = argparse.Namespace(cmake="", cfiles="", ffiles="", filename=["lib.yaml"], logdir="", outdir=dirs["outdir"],
                                      outdir_c_fortran=dirs["outdir_c_fortran"], outdir_lua=dirs["outdir_lua"],
                                      outdir_python=dirs["outdir_python"], outdir_yaml=dirs["outdir_yaml"], path=[],
                                      write_helpers="", write_statements="", yaml_types="", write_version=False,
                                      option=[], language=None)
            smain.main_with_args(args)
        finally:
            del U.open
            del U.print
    finally:
        os.chdir(cwd)
        shutil.rmtree(tmp, ignore_errors=True)
    return {(os.path.relpath(f, tmp) if os.path.isabs(f) else f): "".join(p) for f, p in files.items()}, \
        {o: (os.path.relpath(v, tmp) if v else "") for o, v in dirs.items()}


def dirs_verdict(files, dirs):
    want = {"c": dirs["outdir_c_fortran"] or dirs["outdir"], "fortran": dirs["outdir_c_fortran"] or dirs["outdir"],
            "python": dirs["outdir_python"] or dirs["outdir"], "lua": dirs["outdir_lua"] or dirs["outdir"],
            "yaml": dirs["outdir_yaml"] or dirs["outdir"]}
    for f in sorted(files):
        k = kind_of(f)
        if k in want:
            got = os.path.dirname(f)
            if got != want[k]:
                return "%s file %s is written to %r, the command line designates %r for it" % (k, os.path.basename(f), got or ".", want[k] or ".")
    for k in ("c", "fortran", "python", "lua"):
        if not any(kind_of(f) == k for f in files):
            return "no %s file was written" % k
    return None


class DirsHarness(object):
    """--outdir / --outdir-c-fortran / --outdir-python / --outdir-lua / --outdir-yaml through the real command-line
    entry point: which of the five are given is symbolic (32 combinations); every file must land in the directory
    the command line designates for its kind."""

    def __init__(self, libname="clib", twin=False):
        self.libname, self.twin = libname, twin

    def run(self, e):
        self.given = {o: bool(e.branch(z3.Bool("given_" + o))) for o in DIR_OPTS}
        return run_main_dirs(self.libname, self.given)

    def witness(self, what):
        return {"kernel": "dirs", "library": self.libname, "given": self.given, "what": what}

    def judge(self, e, kind, value):
        if kind == "exc":
            return {"cls": "dirs", "violation": self.witness("exception %s: %s" % (type(value).__name__, str(value)[:200])), "vkey": "dirs:exc"}
        fail = dirs_verdict(*value)
        if self.twin and not fail:
            fail = "reachability twin"
        if fail:
            import re as _re
            return {"cls": "dirs", "violation": self.witness(fail), "vkey": "dirs:" + _re.sub(r"D_\w+", "D", fail)[:60]}
        return {"cls": "dirs", "sample": self.witness(None)}


def make_dirs(**kw):
    return DirsHarness(**kw)


# ---------------------------------------------------------------------------- K4 class template instantiations
INST_LIB = """
library: tmpl
cxx_header: tmpl.hpp
options:
  wrap_python: false
  wrap_lua: false
declarations:
- decl: template<typename T> class Holder
  cxx_template:
  - instantiation: <int>
  - instantiation: <double>
  declarations:
  - decl: Holder()
  - decl: T get() const
  - decl: void poke()
"""
INST_CHOICES = [None, True, False]        # the option is absent / on / off at that place


def inst_verdict(lang, cls_opt, i0, i1, meth=None):
    d = pipeline.load_yaml(INST_LIB)
    node = d["declarations"][0]
    if meth is not None:
        # the method void poke() (which does not mention T) carries a setting of its own
        for key in (["wrap_fortran"] if lang == "fortran" else ["wrap_c", "wrap_fortran"]):
            node["declarations"][2].setdefault("options", {})[key] = meth
    # (the Fortran wrapper calls the C wrapper: the C switch is moved together with the Fortran one)
    keys = ["wrap_fortran"] if lang == "fortran" else ["wrap_c", "wrap_fortran"]
    if cls_opt is not None:
        for key in keys:
            node.setdefault("options", {})[key] = cls_opt
    for ent, v in zip(node["cxx_template"], (i0, i1)):
        if v is not None:
            for key in keys:
                ent.setdefault("options", {})[key] = v
    try:
        r = pipeline.run(d, outdirs=DIRS, deep=False)
    except Exception as ex:
        return "exception %s: %s" % (type(ex).__name__, str(ex)[:150])
    import re
    files = {f: "".join(p) for f, p in r.files.items()}
    for name, v in (("Holder_int", i0), ("Holder_double", i1)):
        want = v if v is not None else (cls_opt if cls_opt is not None else True)
        if lang == "fortran":
            ftext = "\n".join(t for f, t in files.items() if kind_of(f) == "fortran")
            have = re.search(r"(?im)^\s*type\s*(?:,[^:\n]*)?(?:::)?\s*%s\s*$" % name.lower(), ftext) is not None
            what = "the derived type %s" % name.lower()
        else:
            have = any(os.path.basename(f) == "wrap%s.h" % name for f in files)
            what = "the header wrap%s.h" % name
        if meth is True and not want:
            continue        # a member switched on inside a container that is off: promotion decides the container, not judged here
        if have != bool(want):
            return "instantiation %s has wrap_%s %s (its own option %r, the class's %r) but %s is %s" % (
                name, lang, "on" if want else "off", v, cls_opt, what, "written" if have else "missing")
        if want:
            # the member function: its own setting if it has one, else its container's
            want_m = meth if meth is not None else True
            if lang == "fortran":
                have_m = re.search(r"(?im)^\s*procedure\s*::\s*poke\s*=>\s*%s_poke\s*$" % name.lower(), ftext) is not None
                what_m = "the type-bound procedure poke of %s" % name.lower()
            else:
                htext = "\n".join(t_ for f, t_ in files.items() if os.path.basename(f) == "wrap%s.h" % name)
                have_m = re.search(r"\bTMP_%s_poke\b" % name, htext) is not None
                what_m = "the C function TMP_%s_poke" % name
            if have_m != bool(want_m):
                return "method poke of %s has wrap_%s %s (its own option %r) but %s is %s" % (
                    name, lang, "on" if want_m else "off", meth, what_m, "written" if have_m else "missing")
    return None


class InstHarness(object):
    """wrap_c / wrap_fortran given on the class template and / or on each of its two instantiations, every combination
    of absent / on / off chosen by the engine: an instantiation is wrapped iff its nearest setting says so."""

    def __init__(self, lang, twin=False):
        self.lang, self.twin = lang, twin

    def run(self, e):
        pick = []
        for nm in ("cls", "inst0", "inst1", "meth"):
            z = z3.Int("inst_" + nm)
            e.assume(z3.And(z >= 0, z < len(INST_CHOICES)))
            pick.append(INST_CHOICES[e.choose(z)])
        self.pick = pick
        return inst_verdict(self.lang, *pick)

    def witness(self, what):
        return {"kernel": "instantiations", "lang": self.lang, "class_option": self.pick[0], "instantiation_options": self.pick[1:3], "method_option": self.pick[3], "what": what}

    def judge(self, e, kind, value):
        cls = "instantiations/" + self.lang
        if kind == "exc":
            return {"cls": cls, "violation": self.witness("exception %s: %s" % (type(value).__name__, str(value)[:150])), "vkey": "inst:exc"}
        what = value
        if self.twin and not what:
            what = "reachability twin"
        if what:
            return {"cls": cls, "violation": self.witness(what), "vkey": "inst:%s:%s" % (self.lang, what[-40:])}
        return {"cls": cls, "sample": self.witness(None)}


def make_inst(**kw):
    return InstHarness(**kw)


def make_promote(**kw):
    return PromoteHarness(**kw)


def make_pipe(**kw):
    return PipeHarness(**kw)


def confirm(w):
    if w.get("kernel") == "promote":
        return confirm_promote(w)
    if w.get("kernel") == "instantiations":
        return inst_verdict(w["lang"], w["class_option"], *w["instantiation_options"], meth=w.get("method_option"))
    if w.get("kernel") == "dirs":
        try:
            return dirs_verdict(*run_main_dirs(w["library"], w["given"]))
        except Exception as ex:
            return "exception %s: %s" % (type(ex).__name__, ex)
    flags = dict(w.get("decl_cf") or {})
    if w["decl_index"] is not None:
        flags["wrap_python"] = w["options"]["decl.wrap_python"]
        flags["wrap_lua"] = w["options"]["decl.wrap_lua"]
    try:
        r = run_plain(w["library"], w["wrap_c"], w["wrap_fortran"], w["options"]["lib.wrap_python"],
                      w["options"]["lib.wrap_lua"], w["decl_index"], flags)
    except Exception as ex:
        return "exception %s: %s" % (type(ex).__name__, ex)
    return check_run(w["library"], w["wrap_c"], w["wrap_fortran"], w["decl_index"], w.get("decl_cf") or {}, w["options"], r)


def main():
    tier, seed, rp = checklib.tier_and_seed()
    if rp:
        with open(rp) as f:
            w = json.load(f)
        v = confirm(w)
        print("configuration:", json.dumps({k: w.get(k) for k in ("kernel", "library", "wrap_c", "wrap_fortran", "decl", "decl_cf", "options")}))
        print("verdict:", v or "property holds on this configuration")
        if v:
            print("VIOLATION property=%s replay=%s" % (PID, rp))
        return 1 if v else 0
    rep = checklib.Report(PID)
    scan = cc.static_is_scan(["wrap_python", "wrap_lua", "python", "lua"])
    for ln in scan:
        rep.inconc("identity test on a value this harness makes symbolic: " + ln)
    specs, labels = [], []
    for lang in LANGS:
        for tree in sorted(TREES):
            specs.append(("harness.C15", "make_promote", dict(lang=lang, tree=tree)))
            labels.append("promote_wrap kernel, tree %s, wrap_%s symbolic on %d nodes" % (tree, lang, len(tree_nodes(TREES[tree]))))
    specs.append(("harness.C15", "make_dirs", dict(libname="clib")))
    labels.append("command-line directory options (main_with_args), clib")
    for lang in ("c", "fortran"):
        specs.append(("harness.C15", "make_inst", dict(lang=lang)))
        labels.append("class template instantiations, wrap_%s on the class / each instantiation" % lang)
    libs = ["geom", "clib", "strs", "nsf"] if tier == "quick" else ["geom", "clib", "strs", "nsf", "nest", "plain"]
    cfs = [(True, True), (True, False), (False, False)]
    for lib in libs:
        nd = len(decl_nodes(pipeline.load_yaml(cc.LIBS[lib])))
        for (c, f) in cfs:
            specs.append(("harness.C15", "make_pipe", dict(libname=lib, wrap_c=c, wrap_f=f)))
            labels.append("%s lib-level c=%s f=%s" % (lib, c, f))
        for i in range(nd):
            variants = [((True, True), {}), ((True, True), {"wrap_fortran": False}),
                        ((True, True), {"wrap_c": False, "wrap_fortran": False})]
            if re.match(r"^struct\b", decl_nodes(pipeline.load_yaml(cc.LIBS[lib]))[i]["decl"]):
                # a struct's Fortran type stands alone: the C copy can be switched off by itself
                variants.append(((True, True), {"wrap_c": False}))
            if tier == "thorough":
                variants += [((True, False), {}), ((False, False), {}), ((False, False), {"wrap_c": True, "wrap_fortran": True}),
                             ((True, False), {"wrap_fortran": True})]
            for (c, f), dcf in variants:
                specs.append(("harness.C15", "make_pipe", dict(libname=lib, wrap_c=c, wrap_f=f, decl_index=i, decl_cf=dcf)))
                labels.append("%s decl %d c=%s f=%s %r" % (lib, i, c, f, dcf))
    for lib in libs:          # fill the caches before the worker processes are forked
        names_of(lib, 0)
    accs = driver.explore_many(specs, split_depth=6, time_budget_s=600 if tier == "quick" else 4000, max_decisions=20000)
    total = driver.Acc()
    runs = []
    for lab, a in zip(labels, accs):
        total.merge(a)
        runs.append({"exploration": lab, "paths": a.stats.paths, "violations": a.nviol})
        for msg in a.inconclusive:
            rep.inconc("%s: %s" % (lab, msg))
    tw = driver.explore(("harness.C15", "make_pipe", dict(libname="clib", wrap_c=True, wrap_f=True, twin=True)), nworkers=1)
    twin_ok = tw.stats.paths > 0 and tw.nviol == tw.stats.paths and not tw.inconclusive
    if not twin_ok:
        rep.inconc("reachability twin failed %r" % (tw.inconclusive[:1],))
    known = [k for k in checklib.load_known(PID) if k.get("status") == "known"]
    seen, confirmed = set(), 0
    printed_known = set()
    for i, v in enumerate(total.violations):
        verdict = confirm(v)
        if verdict is None:
            rep.inconc("counterexample did not reproduce with plain booleans: %r" % (v,))
            continue
        confirmed += 1
        kf = [k for k in known if k["key"] in verdict]
        if kf:
            if kf[0]["key"] not in printed_known:
                printed_known.add(kf[0]["key"])
                rep.known_finding("%s (e.g. library %s, wrap_c=%s wrap_fortran=%s, %r)" % (
                    kf[0]["what_fails"], v.get("library"), v.get("wrap_c"), v.get("wrap_fortran"), v.get("options")))
            continue
        key = v.get("_vkey")
        if key in seen:
            continue
        seen.add(key)
        path = checklib.write_replay(PID, "cex%03d" % i, v)
        rep.violation(path, "%s  config=%r [%d paths]" % (verdict, {k: v.get(k) for k in ("library", "wrap_c", "wrap_fortran", "decl", "decl_cf", "options")}, total.vcount.get(key, 1)))
    samples = []
    for cls, lst in sorted(total.samples.items()):
        samples.extend(lst[:1])
    cov = {
        "explanation": "Kernel 1 decides the promotion law with z3 validity queries over 24 symbolic booleans (one path when no branch "
                       "depends on them, otherwise one per feasible branch outcome). Kernel 2 explores every feasible outcome of the "
                       "branches the real pipeline takes on the symbolic wrap_python/wrap_lua values; wrap_c/wrap_fortran and the "
                       "output directories are enumerated. On every path the complete output is compared with the Python/Lua-off run.",
        "evaluations": total.stats.paths,
        "distinct_nontrivial": total.stats.paths,
        "samples": samples[:6],
        "exhaustive": True,
        "functions_encoded": ["shroud.ast.WrapFlags, PromoteWrap, promote_wrap", "whole pipeline (see C16)",
                              "shroud.generate.GenFunctions wrap.assign / wrap.clear sites"],
        "bounds": {"promotion_trees": {k: [n[0] + ":" + n[1] for n in tree_nodes(v)] for k, v in TREES.items()}, "libraries": libs, "wrap_c_fortran_enumerated": cfs, "output_directories": DIRS},
        "solver": {"name": "z3 " + z3.get_version_string(), "queries": total.stats.queries, "solver_s": round(total.stats.solver_s, 2)},
        "reachability_twin_ok": twin_ok,
        "static_identity_scan_hits": scan,
        "runs": runs[:60],
    }
    assumptions = [
        "Fortran is only requested together with C (the property's domain)",
        "wrap_c / wrap_fortran are compared with `is False` in shroud.generate / wrapc and are enumerated, never symbolic",
        "five distinct output directories are used in every run; files are captured in memory, not written to disk",
        "a declaration's presence in a language's output is tested by the names Shroud itself assigned to it (C_name, F_name_impl, PY_name_impl, LUA_name_impl)",
    ]
    checklib.write_evidence(PID, tier, seed, "other", cov, assumptions, rep.wall(), len(rep.violations))
    return rep.finish()


if __name__ == "__main__":
    sys.exit(main())
