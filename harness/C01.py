"""C01 - a call through the generated Fortran module is equivalent to calling the C wrapper directly
(the Fortran half of the data path; the C half is C10 / C02 / C06).

The Fortran Shroud writes is compiled by gfortran; every module procedure is executed symbolically
from gfortran's own GIMPLE (engines/gimsym) with the caller's actual arguments symbolic: character
lengths and contents, scalar values, the callee's replies.  The bind(C) callee is a stub with the
contract the C-side checks establish for the generated C function (harness/wrapsym.FnInfo roles):
it records what it received and replies nondeterministically inside that contract.

Oracle, per C parameter role of the callee:
  value scalar            == the caller's value (logical <-> bool by truth value)
  implied argument        == the declared expression over the caller's actuals (size/len/len_trim)
  char/string + len(s)    pointer IS the caller's variable; len_trim == LEN_TRIM(actual), len == LEN(actual)
  char/string alone       a NUL-terminated copy of TRIM(actual)
  reference / pointer     pointer IS the caller's variable
  context / capsule       a live local descriptor of the declared size
after the call: output buffers hold what the callee left, the function result is the callee's
(an allocatable character result has exactly the length the callee reported, is filled by exactly
one call of the copy-and-release helper on the same context), and every temporary the wrapper
allocated is released exactly once.
"""
import json
import os
import re
import sys

import z3

sys.path.insert(0, os.path.dirname(os.path.dirname(os.path.abspath(__file__))))
from engines.shadowsym.core import Engine, Unsupported, Inconclusive  # noqa: E402
from engines.shadowsym import driver  # noqa: E402
from engines.llsym.exec import Ptr, NULL, MemViolation, PathAbort, conc, bv  # noqa: E402
from engines.gimsym.gexec import GExec, BLANK, I64  # noqa: E402
from engines.gimsym import gimple  # noqa: E402
from gen import fgen  # noqa: E402
from harness import ll_common as lc  # noqa: E402
from harness import wrapsym  # noqa: E402
from lib import checklib  # noqa: E402

PID = "C01"
BUILDS = [("strs.yaml", "strs.hpp"), ("cstrs.yaml", "cstrs.h"), ("flib.yaml", "flib.hpp"), ("own.yaml", "own.hpp"), ("flibc.yaml", "flibc.h")]
_FB = {}


def fbuild(key):
    key = tuple(key)
    if key not in _FB:
        b = fgen.build(lc.lib_text(key[0]))
        if b.errors:
            raise RuntimeError("generated Fortran does not compile: %s" % b.errors[0][:600])
        b.layouts = fgen.derived_types(b)
        b.ifaces = interface_map(b)
        b.procs = fortran_procs(b)
        _FB[key] = b
    return _FB[key]


def interface_map(b):
    """bind(C) interface name (lower case) -> C symbol"""
    out = {}
    for n, text in b.files.items():
        if not n.endswith(".f"):
            continue
        joined = re.sub(r"&\s*\n\s*", " ", text)
        for m in re.finditer(r"(?im)^\s*(?:[\w()=,* ]*\s)?(function|subroutine)\s+(\w+)\s*\(([^)]*)\)[^\n]*?bind\(C,\s*name=\"(\w+)\"\)", joined):
            out[m.group(2).lower()] = m.group(4)
    return out


def fortran_procs(b):
    """module procedures Shroud emitted for wrapped functions: lower-case name -> FunctionNode"""
    out = {}

    def walk(n, cls=None):
        for f in getattr(n, "functions", []):
            if f.wrap.fortran and f.fmtdict.inlocal("F_name_impl"):
                f._fn_class = cls
                out[f.fmtdict.F_name_impl.lower()] = f
        for c in getattr(n, "classes", []):
            walk(c, c)
        for s in getattr(n, "namespaces", []):
            walk(s, None)
    walk(b.library)
    return out


def sx(v, bits=64):
    if v.size() == bits:
        return v
    return z3.SignExt(bits - v.size(), v) if v.size() < bits else z3.Extract(bits - 1, 0, v)


def len_trim_spec(e, arr, n, cap, tag):
    """LEN_TRIM of the caller's original text as an independent definition (fresh L, defining constraints)"""
    L = z3.BitVec("spec_len_trim_%s" % tag, 64)
    cons = [z3.ULE(L, n)]
    for i in range(cap + 3):
        I = z3.BitVecVal(i, 64)
        cons.append(z3.Implies(z3.And(z3.UGE(I, L), z3.ULT(I, n)), z3.Select(arr, I) == BLANK))
    cons.append(z3.Implies(L != 0, z3.Select(arr, L - 1) != BLANK))
    e.assume(z3.And(cons))
    return L


class Actual(object):
    def __init__(self, kind, **kw):
        self.kind = kind
        self.__dict__.update(kw)


class FortranHarness(object):
    def __init__(self, build_key, fname, cap=3, twin=False):
        self.build_key, self.fname, self.cap, self.twin = tuple(build_key), fname, cap, twin

    # ------------------------------------------------------------------ set-up
    def prepare(self):
        self.fb = fbuild(self.build_key)
        self.cb = lc.get_build(self.build_key)
        self.cinfos = wrapsym.collect(self.cb)
        self.node = self.fb.procs[self.fname]
        self.fn = self.fb.functions.get(self.fname)
        if self.fn is None:
            raise Unsupported("no GIMPLE for %s" % self.fname)

    def run(self, e):
        self.prepare()
        self.finished = False
        gx = GExec(e, self.fb.functions, self.fb.layouts, cap=self.cap)
        self.gx = gx
        self.calls = []
        self.helper_calls = []
        self.fails = []
        gx.stubs["*"] = self.callee
        fn = self.fn
        self.act = {}
        pnames = [pn for pt, pn in fn.params]
        argv = []
        N = self.cap
        # hidden character lengths first
        lens = {}
        for pt, pn in fn.params:
            if pn.startswith("_") and pn[1:] in pnames and pt.kind == "int":
                v = z3.BitVec("len_" + pn[1:], 64)
                e.assume(z3.And(v >= 0, v <= N))
                lens[pn[1:]] = v
        self.result = None
        for pt, pn in fn.params:
            if pn.startswith("_") and pn[1:] in lens:
                argv.append(lens[pn[1:]])
                continue
            if pn == ".__result":
                if pt.kind == "int":
                    # fixed-length character result: the declared length is passed by value
                    declared = self.result_len()
                    self.result.n = z3.BitVecVal(declared, 64)
                    argv.append(z3.BitVecVal(declared, pt.bits))
                    self.result.obj.size = declared
                else:
                    o = gx.m.new_obj("result_length", 8, "heap")
                    self.result.len_obj = o
                    argv.append(Ptr(o, 0))
                continue
            if pn == "__result":
                tt = pt.to if pt.kind == "ptr" else None
                if tt is not None and tt.kind == "ptr":
                    # allocatable character result: pointer to the result pointer
                    o = gx.m.new_obj("result_pointer", 8, "heap")
                    gx.m.store_ptr(Ptr(o, 0), NULL)
                    self.result = Actual("alloc_char", ptr_obj=o, len_obj=None)
                    argv.append(Ptr(o, 0))
                elif tt is not None and tt.kind == "array":
                    o = gx.m.new_obj("result_text", N, "heap")
                    self.result = Actual("char", obj=o, n=None, arr0=o.arr)
                    argv.append(Ptr(o, 0))
                elif tt is not None and tt.kind == "struct" and (tt.name or "").startswith("array01_"):
                    o = gx.m.new_obj("result_array_pointer", 64, "heap")
                    self.result = Actual("array_ptr", obj=o)
                    argv.append(Ptr(o, 0))
                elif tt is not None and tt.kind == "struct":
                    o = gx.m.new_obj("result_struct", gx.sizeof(tt), "heap")
                    self.result = Actual("struct", obj=o, gtype=tt)
                    argv.append(Ptr(o, 0))
                else:
                    raise Unsupported("result of type %s" % pt.text)
                continue
            if pt.kind == "ptr" and pt.to.kind == "array" and pt.to.elem.kind == "int" and pt.to.elem.bits == 8 and pn in lens:
                n = lens[pn]
                o = gx.m.new_obj("text_" + pn, n, "heap")
                o.tag["input"] = True
                self.act[pn] = Actual("char", obj=o, n=n, arr0=o.arr, spec_len_trim=len_trim_spec(e, o.arr, n, N, pn))
                argv.append(Ptr(o, 0))
            elif pt.kind == "ptr" and pt.to.kind in ("int", "float"):
                o = gx.m.new_obj("var_" + pn, pt.to.bits // 8, "heap")
                v0 = z3.BitVec("val_" + pn, pt.to.bits)
                if pt.to.name == "logical":
                    e.assume(z3.Or(v0 == 0, v0 == 1))
                gx.m.store_int(Ptr(o, 0), v0, pt.to.bits)
                self.act[pn] = Actual("ref", obj=o, v0=v0, gtype=pt.to)
                argv.append(Ptr(o, 0))
            elif pt.kind in ("int", "float"):
                v0 = z3.BitVec("val_" + pn, pt.bits)
                if pt.name == "logical":
                    e.assume(z3.Or(v0 == 0, v0 == 1))
                self.act[pn] = Actual("value", v0=v0, gtype=pt)
                argv.append(v0)
            elif pt.kind == "ptr" and pt.to.kind == "struct" and re.match(r"^array01_(integer|real|logical)\(kind=(\d+)\)$", pt.to.name or ""):
                mm = re.match(r"^array01_(integer|real|logical)\(kind=(\d+)\)$", pt.to.name)
                esz = int(mm.group(2))
                n = z3.BitVec("size_" + pn, 64)
                e.assume(z3.And(n >= 0, n <= 2))
                stride = 2 if e.branch(z3.Bool("actual_%s_is_a_strided_section" % pn)) else 1
                dobj = gx.m.new_obj("array_" + pn, z3.simplify(n * stride * esz), "heap")
                dobj.tag["input"] = True
                desc = gx.m.new_obj("descriptor_" + pn, 64, "heap")
                P = lambda off: Ptr(desc, off)
                gx.m.store_ptr(P(0), Ptr(dobj, 0))
                gx.m.store_int(P(8), z3.BitVecVal(-stride, 64), 64)
                gx.m.store_int(P(16), z3.BitVecVal(esz, 64), 64)
                gx.m.store_int(P(24), z3.BitVecVal(0, 32), 32)
                gx.m.store_int(P(28), z3.BitVecVal(1, 8), 8)
                gx.m.store_int(P(29), z3.BitVecVal({"integer": 1, "logical": 2, "real": 3}[mm.group(1)], 8), 8)
                gx.m.store_int(P(30), z3.BitVecVal(0, 16), 16)
                gx.m.store_int(P(32), z3.BitVecVal(esz, 64), 64)
                gx.m.store_int(P(40), z3.BitVecVal(stride, 64), 64)
                gx.m.store_int(P(48), z3.BitVecVal(1, 64), 64)
                gx.m.store_int(P(56), n, 64)
                self.act[pn] = Actual("array", desc=desc, obj=dobj, n=n, size=n, esz=esz, stride=stride, arr0=dobj.arr, v0=n,
                                      family=mm.group(1))
                argv.append(Ptr(desc, 0))
            elif pt.kind == "ptr" and pt.to.kind == "struct" and (pt.to.name or "") == "array01_character(kind=1)" and pn in lens:
                n = z3.BitVec("size_" + pn, 64)
                e.assume(z3.And(n >= 0, n <= 2))
                for k in range(N + 1):
                    # the element length decides the copy loops of libgfortran's pack: one path per length
                    if k == N or e.branch(lens[pn] == k):
                        e.assume(lens[pn] == k)
                        lens[pn] = z3.BitVecVal(k, 64)
                        break
                el = lens[pn]
                stride = 2 if e.branch(z3.Bool("actual_%s_is_a_strided_section" % pn)) else 1
                dobj = gx.m.new_obj("chararray_" + pn, z3.simplify(n * stride * el), "heap")
                desc = gx.m.new_obj("descriptor_" + pn, 64, "heap")
                P = lambda off: Ptr(desc, off)
                gx.m.store_ptr(P(0), Ptr(dobj, 0))
                gx.m.store_int(P(8), z3.BitVecVal(-stride, 64), 64)
                gx.m.store_int(P(16), el, 64)
                gx.m.store_int(P(24), z3.BitVecVal(0, 32), 32)
                gx.m.store_int(P(28), z3.BitVecVal(1, 8), 8)
                gx.m.store_int(P(29), z3.BitVecVal(6, 8), 8)
                gx.m.store_int(P(30), z3.BitVecVal(0, 16), 16)
                gx.m.store_int(P(32), el, 64)
                gx.m.store_int(P(40), z3.BitVecVal(stride, 64), 64)
                gx.m.store_int(P(48), z3.BitVecVal(1, 64), 64)
                gx.m.store_int(P(56), n, 64)
                self.act[pn] = Actual("chararray", desc=desc, obj=dobj, n=n, size=n, elen=el, stride=stride, arr0=dobj.arr, v0=n)
                argv.append(Ptr(desc, 0))
            elif pt.kind == "ptr" and pt.to.kind == "struct" and (pt.to.name or "").endswith("_shroud_capsule"):
                o = gx.m.new_obj("capsule_" + pn, 16, "heap")
                gx.m.store_ptr(Ptr(o, 0), NULL)
                gx.m.store_int(Ptr(o, 8), z3.BitVecVal(0, 32), 32)
                self.act[pn] = Actual("capsule", obj=o, v0=z3.BitVecVal(0, 8))
                argv.append(Ptr(o, 0))
            elif pt.kind == "ptr" and pt.to.kind == "struct" and (pt.to.name or "").startswith("__class_"):
                inst = self.new_instance(gx, pn, pt.to.name)
                box = gx.m.new_obj("class_container_" + pn, 16, "heap")
                gx.m.store_ptr(Ptr(box, 0), Ptr(inst, 0))
                gx.m.store_ptr(Ptr(box, 8), Ptr(gx.m.new_obj("vtable", 64, "extern"), 0))
                self.act[pn] = Actual("object", obj=inst, v0=z3.BitVecVal(0, 8))
                argv.append(Ptr(box, 0))
            elif pt.kind == "ptr" and pt.to.kind == "struct" and (pt.to.name or "") in self.fb.layouts and \
                    "cxxmem" in self.fb.layouts[pt.to.name]["fields"]:
                inst = self.new_instance(gx, pn, pt.to.name)
                self.act[pn] = Actual("object", obj=inst, v0=z3.BitVecVal(0, 8))
                argv.append(Ptr(inst, 0))
            else:
                raise Unsupported("dummy argument %s of type %s" % (pn, pt.text))
        self.nobj_before = gx.m.nobj
        self.ret = gx.call_function(self.fname, argv)
        return gx

    def new_instance(self, gx, pn, tname):
        """a Fortran shadow object: {cxxmem = {addr -> the C++ instance, idtor}}"""
        inst = gx.m.new_obj("shadow_" + pn, 16, "heap")
        cxx = gx.m.new_obj("cxx_instance_" + pn, 64, "extern")
        gx.m.store_ptr(Ptr(inst, 0), Ptr(cxx, 0))
        gx.m.store_int(Ptr(inst, 8), z3.BitVec("idtor_" + pn, 32), 32)
        return inst

    def result_len(self):
        """declared length of a fixed-length character function result (from the generated source)"""
        src = self.fb.files[self.fn.source_file]
        m = re.search(r"(?is)function\s+%s\s*\(.*?end function" % re.escape(self.node.fmtdict.F_name_impl), src)
        body = m.group(0) if m else ""
        rv = self.node.fmtdict.F_result if self.node.fmtdict.inlocal("F_result") else "SHT_rv"
        mm = re.search(r"(?im)^\s*character\s*(?:\(\s*len\s*=\s*(\d+)\s*\))?\s*::\s*%s\b" % re.escape(rv), body)
        if not mm:
            raise Unsupported("cannot find the declared length of the character result")
        return int(mm.group(1) or 1)

    # ------------------------------------------------------------------ the callee (C side contract)
    def expect_fail(self, text, bad):
        """record an obligation: `bad` must be unsatisfiable"""
        self.fails.append((text, bad))

    def callee(self, gx, name, args):
        e = gx.e
        if re.search(r"shroud_copy_string_and_free$", name):
            return self.copy_helper(gx, name, args)
        if re.search(r"shroud_copy_array(_\w+)?$", name):
            return self.copy_array_helper(gx, name, args)
        cname = self.fb.ifaces.get(name.lower())
        if cname and cname.endswith("_SHROUD_memory_destructor"):
            return self.memory_destructor(gx, name, args)
        info = self.cinfos.get(cname) if cname else None
        if info is None and cname:
            info = self.direct_info(cname)
        if info is None:
            raise Unsupported("callee %s (%s) is not a generated C function" % (name, cname))
        roles = info.roles()
        if len(args) != len(roles):
            self.expect_fail("%s is called with %d arguments, the C function has %d parameters" % (cname, len(args), len(roles)), True)
            return None, None
        rec = {"name": cname, "info": info, "args": args, "havoc": {}, "argobs": [None] * len(args)}
        N = self.cap
        byname = {k.lower(): v for k, v in self.act.items()}
        sib = {}
        for (role, p) in roles:
            if role in ("len", "len_trim", "size") and p is not None:
                sib.setdefault(p.name, set()).add(role)
        for k, ((role, p), (v, t), (cty, cn)) in enumerate(zip(roles, args, info.cparams)):
            key = p.name.lower() if p is not None else None
            a = byname.get(key) if key else None
            what = "%s argument %d (%s)" % (cname, k + 1, cn)
            # what a native stand-in would print for this argument (for the replay comparison)
            if isinstance(v, Ptr):
                if v.obj is not None and v.obj.live and a is not None and a.kind == "char" and v.obj is a.obj:
                    gx.m.flush(a.obj)
                    rec["argobs"][k] = ("buf", key, a.obj.arr, a.n, p.intent if p is not None else "out")
                elif v.obj is not None and v.obj.live and role == "arg" and p is not None and p.kind() in ("charp", "string"):
                    gx.m.flush(v.obj)
                    rec["argobs"][k] = ("cstr", v.obj.arr, bv(v.off), bv(v.obj.size))
                elif v.obj is not None and v.obj.live and role == "arg" and p is not None and p.kind() == "nativep" and \
                        conc(v.obj.size) in (1, 2, 4, 8) and conc(v.off) == 0:
                    bits_ = conc(v.obj.size) * 8
                    rec["argobs"][k] = ("ref", gx.m.load_int(v, bits_), bits_, p.intent)
                elif role in ("res_buf",) :
                    rec["argobs"][k] = ("buf", "@result", None, None, "out")
            elif not isinstance(v, (tuple,)) and v is not None:
                vv = v if not isinstance(v, int) else z3.BitVecVal(v, 64)
                if z3.is_bv(vv):
                    rec["argobs"][k] = ("val", vv, vv.size())
            if role == "arg":
                kind = p.kind()
                implied = p.attrs.get("implied")
                if implied is not None:
                    want = self.implied_value(implied, byname)
                    if want is None:
                        raise Unsupported("implied expression %r" % implied)
                    got = gx.coerce(v, t) if t is not None else v
                    if isinstance(got, int):
                        got = z3.BitVecVal(got, 64)
                    self.expect_fail("%s is not the implied value %s" % (what, implied), sx(got) != want)
                elif kind == "scalar":
                    if a is None:
                        raise Unsupported("no actual for %s" % cn)
                    cur = a.v0 if a.kind == "value" else gx.m.load_int(Ptr(a.obj, 0), a.gtype.bits)
                    got = v
                    if isinstance(got, int):
                        got = z3.BitVecVal(got, cur.size())
                    if p.tname == "bool" or a.gtype.name == "logical":
                        self.expect_fail("%s does not carry the caller's truth value" % what, (got != 0) != (cur != 0))
                    elif got.size() != cur.size():
                        # fortran_generic variants convert to the C function's type: widening is value preserving
                        if got.size() < cur.size():
                            self.expect_fail("%s is passed with %d bits, the caller's value has %d" % (what, got.size(), cur.size()), True)
                        elif a.gtype.kind == "float":
                            want = gx.m.from_fp(z3.fpFPToFP(z3.RNE(), gx.m.to_fp(cur, cur.size()), gx.m.fsort(got.size())))
                            self.expect_fail("%s is not the caller's value converted to the C type" % what, got != want)
                        else:
                            want = z3.SignExt(got.size() - cur.size(), cur) if a.gtype.signed else z3.ZeroExt(got.size() - cur.size(), cur)
                            self.expect_fail("%s is not the caller's value converted to the C type" % what, got != want)
                    else:
                        self.expect_fail("%s is not the caller's value" % what, got != cur)
                elif kind in ("charp", "string"):
                    if a is None or a.kind != "char":
                        raise Unsupported("no character actual for %s" % cn)
                    if sib.get(p.name):
                        ok = isinstance(v, Ptr) and v.obj is a.obj and conc(v.off) == 0
                        self.expect_fail("%s is not the caller's character variable" % what, not ok)
                        if p.intent in ("out", "inout") and "len" in sib[p.name] and not p.const:
                            self.havoc_text(gx, a, rec, key=key)
                    elif p.intent in ("out", "inout") and not p.const:
                        # the C side must blank-fill / copy back inside LEN(actual): it cannot without being told the length
                        self.expect_fail("%s: an intent(%s) character argument is passed to a C function that is not given its length "
                                         "(no *_bufferify entry point was generated for it)" % (what, p.intent), True)
                    else:
                        # a NUL-terminated copy of TRIM(actual)
                        if not (isinstance(v, Ptr) and v.obj is not None):
                            self.expect_fail("%s is a null pointer" % what, True)
                        else:
                            L = a.spec_len_trim
                            gx.m.flush(v.obj)
                            i = z3.BitVec("idx", 64)
                            size = bv(v.obj.size)
                            off = bv(v.off)
                            self.expect_fail("%s: the buffer is too small for TRIM(actual) and the NUL" % what, z3.ULT(size - off, L + 1))
                            self.expect_fail("%s is not TRIM(actual) followed by NUL" % what,
                                             z3.Or(z3.And(z3.ULT(i, L), z3.Select(v.obj.arr, off + i) != z3.Select(a.arr0, i)),
                                                   z3.Select(v.obj.arr, off + L) != 0))
                            if not v.obj.live:
                                self.expect_fail("%s points to released memory" % what, True)
                elif kind == "class":
                    ok = a is not None and a.kind == "object" and isinstance(v, Ptr) and v.obj is a.obj and conc(v.off) == 0
                    self.expect_fail("%s is not the capsule of the caller's object" % what, not ok)
                elif kind in ("nativep", "vector") and a is not None and a.kind == "array":
                    direct = isinstance(v, Ptr) and v.obj is a.obj and conc(v.off) == 0
                    packed = isinstance(v, Ptr) and v.obj is not None and v.obj.tag.get("packed_from") is not None and \
                        v.obj.tag["packed_from"][0].obj is a.obj and conc(v.off) == 0
                    fparam = next((q for q in (self.node.ast.params or []) if q.name.lower() == key), None)
                    raw = fparam is not None and fparam.attrs["deref"] == "raw"
                    if a.stride == 1 or raw:
                        # (+deref(raw): the wrapper passes C_LOC(actual), the address of the section's first element)
                        self.expect_fail("%s is not the caller's array" % what, not (direct or (packed and not raw)))
                    else:
                        # an empty section may be passed as it is
                        self.expect_fail("%s is neither a packed copy of the caller's section nor the (empty) section itself" % what,
                                         not (packed or direct))
                        if direct:
                            self.expect_fail("%s: a strided section is passed without packing" % what, a.n != 0)
                    f_intent = (fparam.attrs["intent"] if fparam is not None and fparam.attrs["intent"] else p.intent)
                    if kind != "vector" and isinstance(v, Ptr) and v.obj is not None and v.obj.live and not p.const and f_intent in ("out", "inout"):
                        gx.m.flush(v.obj)
                        new = z3.Array("reply_array_%s!%d" % (key, gx.m.fresh_n), z3.BitVecSort(64), z3.BitVecSort(8))
                        gx.m.fresh_n += 1
                        nbytes = a.n * a.esz
                        for i in range(2 * a.esz):
                            I = z3.BitVecVal(i, 64)
                            v.obj.arr = z3.Store(v.obj.arr, I, z3.If(z3.ULT(I, nbytes), z3.Select(new, I), z3.Select(v.obj.arr, I)))
                        rec["havoc"][key] = new
                elif kind == "nativep" and a is None and p.attrs.get("hidden"):
                    # a hidden argument: a local of the wrapper the C function writes
                    rt_ = t.to if t is not None and t.kind == "ptr" else None
                    ok = isinstance(v, Ptr) and v.obj is not None and v.obj.live and rt_ is not None and rt_.kind in ("int", "float")
                    self.expect_fail("%s (hidden) is not a live local variable" % what, not ok)
                    if ok:
                        gx.m.store_int(v, gx.m.fresh("hidden_" + key, rt_.bits), rt_.bits)
                elif kind == "charpp" and a is not None and a.kind == "chararray":
                    direct = isinstance(v, Ptr) and v.obj is a.obj and conc(v.off) == 0
                    packed = isinstance(v, Ptr) and v.obj is not None and v.obj.tag.get("packed_from") is not None and \
                        v.obj.tag["packed_from"][0].obj is a.obj and conc(v.off) == 0
                    self.expect_fail("%s is not the caller's character array" % what, not (direct or packed))
                elif kind == "nativep":
                    if a is None or a.kind != "ref":
                        raise Unsupported("no by-reference actual for %s" % cn)
                    direct = isinstance(v, Ptr) and v.obj is a.obj and conc(v.off) == 0
                    if direct:
                        if not p.const and p.intent in ("out", "inout"):
                            nv = gx.m.fresh("reply_" + key, a.gtype.bits)
                            if a.gtype.name == "logical":
                                e.assume(z3.Or(nv == 0, nv == 1))
                            gx.m.store_int(Ptr(a.obj, 0), nv, a.gtype.bits)
                            rec["havoc"][key] = nv
                    elif p.tname == "bool" and isinstance(v, Ptr) and v.obj is not None and v.obj.live and conc(v.obj.size) == 1:
                        # logical <-> C bool goes through a one-byte temporary that is copied in and out
                        cur = gx.m.load_int(Ptr(a.obj, 0), a.gtype.bits)
                        tmp = gx.m.load_int(v, 8)
                        if p.intent in ("in", "inout"):
                            self.expect_fail("%s does not carry the caller's truth value" % what, (tmp != 0) != (cur != 0))
                        if not p.const and p.intent in ("out", "inout"):
                            nv = gx.m.fresh("reply_" + key, 8)
                            e.assume(z3.Or(nv == 0, nv == 1))
                            gx.m.store_int(v, nv, 8)
                            rec["havoc"][key] = nv
                    else:
                        self.expect_fail("%s is not the caller's variable" % what, True)
                else:
                    raise Unsupported("C parameter %s of kind %s" % (cn, kind))
            elif role == "size":
                if a is None or a.kind not in ("array", "chararray"):
                    raise Unsupported("no array actual for %s" % cn)
                got = v if not isinstance(v, int) else z3.BitVecVal(v, 64)
                self.expect_fail("%s is not SIZE(actual)" % what, sx(got) != a.n)
            elif role == "len" and a is not None and a.kind == "chararray":
                got = v if not isinstance(v, int) else z3.BitVecVal(v, 32)
                self.expect_fail("%s is not LEN(actual)" % what, sx(got) != a.elen)
            elif role in ("len", "len_trim"):
                if a is None or a.kind != "char":
                    raise Unsupported("no character actual for %s" % cn)
                got = v if not isinstance(v, int) else z3.BitVecVal(v, 32)
                want = a.n if role == "len" else a.spec_len_trim
                self.expect_fail("%s is not %s(actual)" % (what, "LEN" if role == "len" else "LEN_TRIM"), sx(got) != want)
            elif role in ("res_buf",):
                r = self.result
                if r is None:
                    # the result is delivered through a character dummy argument (F_string_result_as_arg)
                    nm = cn.lower()
                    r = byname.get(nm)
                    rec["res_as_arg"] = nm
                ok = r is not None and r.kind == "char" and isinstance(v, Ptr) and v.obj is r.obj and conc(v.off) == 0
                self.expect_fail("%s is not the function result variable" % what, not ok)
                rec["res_buf"] = r
            elif role in ("res_len",):
                r = self.result
                if r is None:
                    r = byname.get(cn[1:].lower())
                got = v if not isinstance(v, int) else z3.BitVecVal(v, 32)
                if r is None or r.kind != "char":
                    self.expect_fail("%s: no character result" % what, True)
                else:
                    self.expect_fail("%s is not LEN(result)" % what, sx(got) != r.n)
            elif role == "self":
                a = byname.get("obj")
                ok = a is not None and a.kind == "object" and isinstance(v, Ptr) and v.obj is a.obj and conc(v.off) == 0
                self.expect_fail("%s is not the capsule of the object the method is called on" % what, not ok)
            elif role == "res_capsule":
                ok = isinstance(v, Ptr) and v.obj is not None and v.obj.live and conc(v.off) is not None and \
                    conc(v.obj.size) is not None and conc(v.off) + 16 <= conc(v.obj.size)
                self.expect_fail("%s is not a live capsule" % what, not ok)
                if ok:
                    newinst = gx.m.new_obj("cxx_instance_result", 64, "extern")
                    nidt = gx.m.fresh("result_idtor", 32)
                    gx.m.store_ptr(v, Ptr(newinst, 0))
                    gx.m.store_int(gx.m.padd(v, 8), nidt, 32)
                    rec["capsule"] = (newinst, nidt)
            elif role in ("context", "res_context"):
                ok = isinstance(v, Ptr) and v.obj is not None and v.obj.live and conc(v.off) == 0 and \
                    conc(v.obj.size) == self.fb.layouts[[n for n in self.fb.layouts if n.endswith("_shroud_array")][0]]["size"]
                self.expect_fail("%s is not a live array descriptor" % what, not ok)
                if ok:
                    self.fill_context(gx, v, rec, role, p=p, info=info)
            else:
                raise Unsupported("C parameter role %s" % role)
        if rec.get("res_buf") is not None:
            self.havoc_text(gx, rec["res_buf"], rec, key=rec.get("res_as_arg") or "@result")
        # return value
        ret = None
        rt = None
        cret = info.ret_c.strip()
        if cret != "void":
            bits = {"int": 32, "long": 64, "double": 64, "float": 32, "bool": 8, "char": 8, "short": 16, "size_t": 64,
                    "unsigned int": 32, "long long": 64}.get(cret.replace("const ", "").strip())
            if bits is None and cret.endswith("*"):
                # constructors / class results also return the capsule's address, which the Fortran side ignores;
                # a native pointer result is the address of the library's array (the one the context describes)
                self.calls.append(rec)
                ctx = rec.get("context")
                if ctx is not None and ctx.get("data") is not None:
                    rec["ret_ptr"] = Ptr(ctx["data"], 0)
                else:
                    rec["ret_ptr"] = Ptr(gx.m.new_obj("c_returned_pointer", 16, "extern"), 0)
                return rec["ret_ptr"], None
            if bits is None:
                m = re.match(r"^(?:enum\s+)?\w+$", cret)
                bits = 32 if m else None
            if bits is None:
                raise Unsupported("C function returning %s" % cret)
            ret = gx.m.fresh("c_result", bits)
            if cret == "bool":
                e.assume(z3.Or(ret == 0, ret == 1))
            rec["ret"] = ret
            kind = "float" if cret in ("double", "float") else "int"
            rt = gimple.GType(kind, bits, True, name="c", text=cret)
        self.calls.append(rec)
        return ret, rt

    def direct_info(self, cname):
        """language C: Fortran binds to the library function itself; its contract is its declaration"""
        node = self.node
        if node.ast.name != cname:
            return None

        class Direct(object):
            pass
        d = Direct()
        d.params = [wrapsym.CxxParam(a) for a in (node.ast.params or [])]
        d.cparams = [(p.c_type or p.tname, p.name) for p in d.params]
        d.ret_c = "void"
        d.result = None
        o = node.ast
        if not (o.typemap.name == "void" and not o.is_pointer()):
            d.result = wrapsym.CxxParam(o)
            d.ret_c = (o.typemap.c_type or o.typemap.name) + (" *" if o.is_pointer() else "")
        d.result_attrs = {}
        d.roles = lambda: [("arg", p) for p in d.params]
        return d

    def havoc_text(self, gx, a, rec, key=None):
        """the C function leaves arbitrary characters in the caller's variable (inside its length)"""
        o = a.obj
        gx.m.flush(o)
        new = z3.Array("reply_text_%s!%d" % (key or o.name, gx.m.fresh_n), z3.BitVecSort(64), z3.BitVecSort(8))
        gx.m.fresh_n += 1
        n = a.n if a.n is not None else bv(o.size)
        for i in range(self.cap + 1 if a.n is not None and conc(a.n) is None else (conc(n) or 0)):
            I = z3.BitVecVal(i, 64)
            o.arr = z3.Store(o.arr, I, z3.If(z3.ULT(I, n), z3.Select(new, I), z3.Select(o.arr, I)))
        a.reply = new
        rec["havoc"][key or o.name] = new

    def fill_context(self, gx, v, rec, role, p=None, info=None):
        """what the generated C function leaves in an array descriptor: a string (scalar, rank 0) or,
        for std::vector arguments and pointer results with a dimension, a rank-1 array"""
        lay = self.fb.layouts[[n for n in self.fb.layouts if n.endswith("_shroud_array")][0]]
        o = v.obj
        f = lay["fields"]
        idt = gx.m.fresh("context_idtor", 32)
        vec_elem = None
        if p is not None and p.kind() == "vector":
            vec_elem = wrapsym.VECTOR_ELEM.get(p.elem)
        elif p is None and info is not None and info.result is not None and info.result.kind() == "nativep":
            vec_elem = wrapsym.VECTOR_ELEM.get(info.result.tname)
        if vec_elem is not None:
            n = 0
            for k in (0, 1):
                if gx.e.branch(z3.Bool("c_side_array_has_more_than_%d" % k)):
                    n = k + 1
                else:
                    break
            owned = p is not None
            held = gx.m.new_obj("cxx_vector_for_context", 24, "heap", "new") if owned else None
            data = gx.m.new_obj("cxx_array_data", max(n, 1) * vec_elem, "extern") if (n or not owned) else None
            if data is not None:
                data.tag["lib_array"] = True
            caller_owns = p is None and info is not None and info.result_attrs.get("owner") == "caller"
            if caller_owns:
                gx.e.assume(idt != 0)
                rec["owned_result"] = (data, idt)
            gx.m.store_ptr(Ptr(o, f["cxx"][0]), Ptr(held, 0) if held is not None else (Ptr(data, 0) if caller_owns else NULL))
            gx.m.store_int(Ptr(o, f["cxx"][0] + 8), idt if (owned or caller_owns) else z3.BitVecVal(0, 32), 32)
            gx.m.store_ptr(Ptr(o, f["base_addr"][0]), Ptr(data, 0) if data is not None else NULL)
            gx.m.store_int(Ptr(o, f["elem_len"][0]), z3.BitVecVal(vec_elem, 64), 64)
            gx.m.store_int(Ptr(o, f["size"][0]), z3.BitVecVal(n, 64), 64)
            gx.m.store_int(Ptr(o, f["rank"][0]), z3.BitVecVal(1, 32), 32)
            gx.m.store_int(Ptr(o, f["shape"][0]), z3.BitVecVal(n, 64), 64)
            rec["context"] = {"obj": o, "elem_len": z3.BitVecVal(vec_elem, 64), "held": held, "n": n, "esz": vec_elem,
                              "data": data, "arg": p.name.lower() if p is not None else None}
            self.context = rec["context"]
            return
        held = gx.m.new_obj("cxx_object_for_context", 32, "heap", "new")
        L = gx.m.fresh("context_elem_len", 64)
        gx.e.assume(z3.ULE(L, self.cap))
        text = gx.m.new_obj("cxx_text", z3.simplify(L + 1), "extern")
        gx.m.store_ptr(Ptr(o, f["cxx"][0]), Ptr(held, 0))
        gx.m.store_int(Ptr(o, f["cxx"][0] + 8), idt, 32)
        gx.m.store_ptr(Ptr(o, f["base_addr"][0]), Ptr(text, 0))
        gx.m.store_int(Ptr(o, f["elem_len"][0]), L, 64)
        gx.m.store_int(Ptr(o, f["size"][0]), z3.BitVecVal(1, 64), 64)
        gx.m.store_int(Ptr(o, f["rank"][0]), z3.BitVecVal(0, 32), 32)
        rec["context"] = {"obj": o, "elem_len": L, "held": held}
        self.context = rec["context"]

    def memory_destructor(self, gx, name, args):
        """<PREFIX>_SHROUD_memory_destructor(capsule) as C06 establishes it: releases what the capsule owns, then {NULL, 0}"""
        (c, _), = args
        if not (isinstance(c, Ptr) and c.obj is not None and c.obj.live):
            self.expect_fail("the memory destructor is given something that is not a live capsule", True)
            return None, None
        addr = gx.m.load_ptr(c)
        idt = gx.m.load_int(gx.m.padd(c, 8), 32)
        self.released = getattr(self, "released", [])
        if isinstance(addr, Ptr) and addr.obj is not None:
            if gx.e.branch(idt != 0):
                self.released.append(addr.obj)
        gx.m.store_ptr(c, NULL)
        gx.m.store_int(gx.m.padd(c, 8), z3.BitVecVal(0, 32), 32)
        return None, None

    def array_of(self, ptr):
        """the caller's array actual a pointer designates (directly or as libgfortran's packed copy)"""
        if not (isinstance(ptr, Ptr) and ptr.obj is not None and conc(ptr.off) == 0):
            return None, None
        for k, a in self.act.items():
            if a.kind == "array":
                if ptr.obj is a.obj:
                    return k.lower(), a
                pf = ptr.obj.tag.get("packed_from")
                if pf is not None and pf[0].obj is a.obj:
                    return k.lower(), a
        return None, None

    def copy_array_helper(self, gx, name, args):
        """<PREFIX>_ShroudCopyArray(context, c_var, c_var_size): copies min(size, context size) elements, releases the vector"""
        (d, _), (c, _), (n, tn) = args
        ctx = getattr(self, "context", None)
        what = "copy-array helper"
        ok = ctx is not None and "n" in ctx and isinstance(d, Ptr) and d.obj is ctx["obj"] and conc(d.off) == 0
        self.expect_fail("%s is not given the context the C function filled" % what, not ok)
        key, a = self.array_of(c)
        n64 = gx.to64(n, tn)
        if a is None:
            self.expect_fail("%s: destination is not the caller's array" % what, not (isinstance(c, Ptr) and c.obj is None and ok and ctx["n"] == 0) if False else True)
            return None, None
        if ok and ctx.get("arg") not in (None, key):
            self.expect_fail("%s: destination is the array '%s', the context belongs to '%s'" % (what, key, ctx["arg"]), True)
        self.expect_fail("%s: size argument is not SIZE(%s)" % (what, key), n64 != a.n)
        if ok:
            esz = ctx["esz"]
            if esz != a.esz:
                self.expect_fail("%s: element size of the array (%d) differs from the vector's (%d)" % (what, a.esz, esz), True)
            gx.m.flush(c.obj)
            new = z3.Array("vector_elements!%d" % gx.m.fresh_n, z3.BitVecSort(64), z3.BitVecSort(8))
            gx.m.fresh_n += 1
            lim = z3.If(z3.ULT(n64, z3.BitVecVal(ctx["n"], 64)), n64, z3.BitVecVal(ctx["n"], 64)) * esz
            for i in range(2 * esz):
                I = z3.BitVecVal(i, 64)
                c.obj.arr = z3.Store(c.obj.arr, I, z3.If(z3.ULT(I, lim), z3.Select(new, I), z3.Select(c.obj.arr, I)))
            self.helper_calls.append({"dest": c, "n": n64, "text": new, "array": key, "limit_bytes": lim})
            if ctx["held"] is not None:
                ctx["held"].live = False
        return None, None

    def copy_helper(self, gx, name, args):
        """<PREFIX>_ShroudCopyStringAndFree(context, c_var, c_var_len): fills c_var, releases the C++ object"""
        (d, _), (c, _), (n, tn) = args
        ctx = getattr(self, "context", None)
        r = self.result
        what = "copy-and-release helper"
        ok = ctx is not None and isinstance(d, Ptr) and d.obj is ctx["obj"] and conc(d.off) == 0
        self.expect_fail("%s is not given the context the C function filled" % what, not ok)
        n64 = gx.to64(n, tn)
        if ok:
            self.expect_fail("%s: length argument is not the length the C function reported" % what, n64 != ctx["elem_len"])
        if not (isinstance(c, Ptr) and c.obj is not None and c.obj.live):
            self.expect_fail("%s: destination is not a live variable" % what, True)
        else:
            gx.m.check_access(c, n64, "copy-and-release helper destination")
            gx.m.flush(c.obj)
            new = z3.Array("helper_text!%d" % gx.m.fresh_n, z3.BitVecSort(64), z3.BitVecSort(8))
            gx.m.fresh_n += 1
            for i in range(self.cap + 1):
                I = z3.BitVecVal(i, 64)
                idx = bv(c.off) + I
                c.obj.arr = z3.Store(c.obj.arr, idx, z3.If(z3.ULT(I, n64), z3.Select(new, I), z3.Select(c.obj.arr, idx)))
            self.helper_calls.append({"dest": c, "n": n64, "text": new})
        if ctx is not None:
            ctx["held"].live = False
        return None, None

    def implied_value(self, text, byname):
        m = re.match(r"^\s*(size|len|len_trim|type)\s*\(\s*(\w+)\s*\)\s*$", text)
        if not m:
            return None
        a = byname.get(m.group(2).lower())
        if a is None:
            return None
        if m.group(1) == "type":
            # the documented type tag of the ACTUAL argument's type (the SH_TYPE_* constants of the generated header)
            if a.kind != "array":
                return None
            cname = {("integer", 4): "INT", ("integer", 8): "LONG", ("integer", 2): "SHORT", ("real", 4): "FLOAT",
                     ("real", 8): "DOUBLE"}.get((a.family, a.esz))
            # the tag is that of the C type the (fortran_generic variant's) declaration names: SH_TYPE_<TYPE NAME>
            for prm in (self.node.ast.params or []):
                if prm.name and prm.name.lower() == m.group(2).lower() and prm.typemap is not None:
                    cname = prm.typemap.name.upper().replace(" ", "_")
            hdr = "".join(t for n_, t in self.fb.files.items() if n_.startswith("types") and n_.endswith(".h"))
            def tag_value(name, depth=0):
                mm = re.search(r"(?m)^#define\s+SH_TYPE_%s\s+(.+?)\s*$" % re.escape(name), hdr)
                if not mm or depth > 3:
                    return None
                txt = mm.group(1)
                if txt.isdigit():
                    return int(txt)
                m2 = re.match(r"^SH_TYPE_(\w+)\s*\+\s*(\d+)$", txt)        # the unsigned types are '<signed tag> + 100'
                if m2:
                    base = tag_value(m2.group(1), depth + 1)
                    return None if base is None else base + int(m2.group(2))
                return None
            tv = tag_value(cname) if cname else None
            return z3.BitVecVal(tv, 64) if tv is not None else None
        if m.group(1) == "len" and a.kind == "char":
            return a.n
        if m.group(1) == "len_trim" and a.kind == "char":
            return a.spec_len_trim
        if m.group(1) == "size" and a.kind == "array":
            return a.size
        return None

    # ------------------------------------------------------------------ judge
    def witness(self, m, what):
        w = {"kernel": "fortran", "function": self.fname, "build": list(self.build_key), "cap": self.cap, "what": what, "inputs": {}}
        for k, a in getattr(self, "act", {}).items():
            if a.kind == "char":
                n = lc.mval(m, a.n)
                w["inputs"][k] = {"len": n, "text": lc.bytes_of(m, a.arr0, min(n, self.cap + 1))}
            elif a.kind in ("array", "chararray"):
                w["inputs"][k] = {"size": lc.mval(m, a.n), "stride": a.stride}
            elif a.kind in ("object", "capsule"):
                w["inputs"][k] = a.kind
            else:
                w["inputs"][k] = lc.mval(m, a.v0, a.v0.size())
        w["callee"] = [c["name"] for c in getattr(self, "calls", [])]
        if getattr(self, "finished", False):
            try:
                self.observables(m, w)
            except Exception as ex:      # the replay data is best effort; the verdict does not depend on it
                w["observed_error"] = "%s: %s" % (type(ex).__name__, ex)
        return w

    def observables(self, m, w):
        """concrete observables of this path under model m, and the callee's replies (for native replay)"""
        gx = self.gx
        if len(self.calls) != 1:
            return
        rec = self.calls[0]
        low = {k.lower(): a for k, a in self.act.items()}
        args, lens = [], {}
        for o in rec["argobs"]:
            if o is None:
                args.append(None)
            elif o[0] == "val":
                args.append(["val", lc.mval(m, o[1]), o[2]])
            elif o[0] == "buf":
                key = o[1]
                a = low.get(key) if key != "@result" else self.result
                if key == "@result" and rec.get("res_as_arg"):
                    a = low.get(rec["res_as_arg"])
                    key = rec["res_as_arg"]
                n = lc.mval(m, a.n) if a is not None and getattr(a, "n", None) is not None else 0
                lens[key] = n
                if o[2] is not None and o[4] in ("in", "inout"):
                    args.append(["buf", lc.bytes_of(m, o[2], n)])
                else:
                    args.append(["buf", None])
            elif o[0] == "cstr":
                size = lc.mval(m, o[3])
                off = lc.mval(m, o[2])
                bs = lc.bytes_of(m, o[1], max(0, min(size - off, self.cap + 2)), off)
                if 0 in bs:
                    bs = bs[:bs.index(0)]
                args.append(["cstr", bs])
            elif o[0] == "ref":
                args.append(["ref", lc.mval(m, o[1]) if o[3] in ("in", "inout") else None, o[2]])
        replies = {}
        for key, new in rec["havoc"].items():
            a = low.get(key) if key != "@result" else self.result
            if a is None:
                continue
            if a.kind == "char":
                replies[key] = lc.bytes_of(m, new, lc.mval(m, a.n))
            elif a.kind == "ref":
                replies[key] = lc.mval(m, new)
        if "ret" in rec:
            replies["ret"] = lc.mval(m, rec["ret"])
        ctx = rec.get("context")
        if ctx is not None and "n" not in ctx:
            L = lc.mval(m, ctx["elem_len"])
            replies["context"] = {"elem_len": L, "text": [65 + (i % 26) for i in range(L)]}
            if self.helper_calls:
                replies["helper"] = {"text": lc.bytes_of(m, self.helper_calls[0]["text"], L)}
        final = {}
        for k, a in self.act.items():
            if a.kind == "char":
                gx.m.flush(a.obj)
                n = lc.mval(m, a.n)
                final[k.lower()] = {"len": n, "text": lc.bytes_of(m, a.obj.arr, n)}
            elif a.kind == "ref":
                final[k.lower()] = [lc.mval(m, gx.m.load_int(Ptr(a.obj, 0), a.gtype.bits)), a.gtype.bits]
        r = self.result
        if r is not None and r.kind == "char":
            gx.m.flush(r.obj)
            n = lc.mval(m, r.n)
            final["@result"] = {"len": n, "text": lc.bytes_of(m, r.obj.arr, n)}
        elif r is not None and r.kind == "alloc_char":
            p = gx.m.load_ptr(Ptr(r.ptr_obj, 0))
            if isinstance(p, Ptr) and p.obj is not None and r.len_obj is not None:
                n = lc.mval(m, gx.m.load_int(Ptr(r.len_obj, 0), 64))
                gx.m.flush(p.obj)
                final["@result"] = {"len": n, "text": lc.bytes_of(m, p.obj.arr, n)}
        elif self.ret is not None and not isinstance(self.ret, (tuple, Ptr)):
            final["@result"] = [lc.mval(m, self.ret), self.ret.size()]
        w["observed"] = {"callee": [{"name": rec["name"], "args": args, "lens": lens, "res_as_arg": rec.get("res_as_arg")}], "final": final}
        w["replies"] = replies

    def judge(self, e, kind, value):
        cls = "fortran/%s" % self.fname
        if kind == "exc":
            if isinstance(value, MemViolation):
                return {"cls": cls, "violation": self.witness(value.model or e.model(), "memory safety: %s" % value),
                        "vkey": "%s:%s" % (self.fname, value.kind)}
            if isinstance(value, PathAbort):
                w = self.witness(e.model(), "the wrapper stops with a Fortran run-time error: %s" % (value.detail,))
                return {"cls": cls, "violation": w, "vkey": "%s:abort" % self.fname}
            return {"cls": cls, "violation": self.witness(e.model(), "unexpected %s: %s" % (type(value).__name__, str(value)[:200])),
                    "vkey": "%s:exc" % self.fname}
        gx = value
        self.finished = True
        checks = list(self.fails)
        if len(self.calls) != 1:
            checks.append(("the C function is called %d times, expected exactly once" % len(self.calls), True))
        else:
            rec = self.calls[0]
            info = rec["info"]
            # function result
            r = self.result
            if "ret" in rec:
                if self.ret is None:
                    checks.append(("the C function's result is not returned to the Fortran caller", True))
                else:
                    a, b = self.ret, rec["ret"]
                    rp = info.result
                    if rp is not None and rp.tname == "bool":
                        checks.append(("the Fortran result does not carry the C function's truth value", (a != 0) != (b != 0)))
                        checks.append(("the Fortran logical result is not .true./.false. (0/1)", z3.And(a != 0, a != 1)))
                    elif a.size() != b.size():
                        checks.append(("the Fortran result has %d bits, the C function returns %d" % (a.size(), b.size()), True))
                    else:
                        checks.append(("the Fortran caller does not receive the C function's result", a != b))
            if r is not None and r.kind == "char" and "@result" in rec["havoc"]:
                gx.m.flush(r.obj)
                i = z3.BitVec("idx", 64)
                checks.append(("the character result is not what the C function wrote",
                               z3.And(z3.ULT(i, r.n), z3.Select(r.obj.arr, i) != z3.Select(rec["havoc"]["@result"], i))))
            if r is not None and r.kind == "alloc_char":
                ctx = rec.get("context")
                p = gx.m.load_ptr(Ptr(r.ptr_obj, 0))
                ln = gx.m.load_int(Ptr(r.len_obj, 0), 64) if r.len_obj is not None else None
                if ctx is None:
                    checks.append(("allocatable result without a context from the C function", True))
                elif len(self.helper_calls) != 1:
                    checks.append(("the copy-and-release helper is called %d times, expected exactly once" % len(self.helper_calls), True))
                else:
                    hc = self.helper_calls[0]
                    ok = isinstance(p, Ptr) and p.obj is not None and p.obj.live and p.obj is hc["dest"].obj and conc(p.off) == 0
                    checks.append(("the allocatable result is not the variable the helper filled", not ok))
                    if ln is not None:
                        checks.append(("LEN(result) is not the length the C function reported", ln != ctx["elem_len"]))
                    if ok:
                        checks.append(("the allocated result is smaller than its length", z3.ULT(bv(p.obj.size), ctx["elem_len"])))
                        gx.m.flush(p.obj)
                        i = z3.BitVec("idx", 64)
                        checks.append(("the allocatable result is not the text the helper delivered",
                                       z3.And(z3.ULT(i, ctx["elem_len"]), z3.Select(p.obj.arr, i) != z3.Select(hc["text"], i))))
            if "capsule" in rec:
                ret = self.ret
                if not (isinstance(ret, tuple) and ret and ret[0] == "agg"):
                    checks.append(("the object the C function created is not returned to the Fortran caller", True))
                else:
                    rp_, rt_ = ret[1], ret[2]
                    off = self.fb.layouts[rt_.name]["fields"]["cxxmem"][0]
                    addr = gx.m.load_ptr(gx.m.padd(rp_, off))
                    idt = gx.m.load_int(gx.m.padd(rp_, off + 8), 32)
                    checks.append(("the returned object does not hold the C++ instance the C function stored",
                                   not (isinstance(addr, Ptr) and addr.obj is rec["capsule"][0])))
                    checks.append(("the returned object does not carry the destructor index the C function stored", idt != rec["capsule"][1]))
            ctx = rec.get("context")
            if ctx is not None and "n" in ctx and ctx.get("arg"):
                a = {k.lower(): v for k, v in self.act.items()}.get(ctx["arg"])
                hcs = [h for h in self.helper_calls if h.get("array") == ctx["arg"]]
                if len(hcs) != 1:
                    checks.append(("the copy-array helper is called %d times for '%s', expected exactly once" % (len(hcs), ctx["arg"]), True))
                elif a is not None:
                    hc = hcs[0]
                    gx.m.flush(a.obj)
                    i = z3.BitVec("idx", 64)
                    b = z3.BitVec("byte", 64)
                    checks.append(("array argument '%s' does not hold the elements the library's vector delivered" % ctx["arg"],
                                   z3.And(z3.ULT(i, a.n), z3.ULT(b, a.esz), z3.ULT(i * a.esz + b, hc["limit_bytes"]),
                                          z3.Select(a.obj.arr, i * a.stride * a.esz + b) != z3.Select(hc["text"], i * a.esz + b))))
            if "owned_result" in rec:
                caps = [a for a in self.act.values() if a.kind == "capsule"]
                if len(caps) != 1:
                    checks.append(("a result the caller owns is returned without a capsule argument to release it with", True))
                else:
                    addr = gx.m.load_ptr(Ptr(caps[0].obj, 0))
                    idt = gx.m.load_int(Ptr(caps[0].obj, 8), 32)
                    checks.append(("the capsule argument does not hold the memory the caller now owns",
                                   not (isinstance(addr, Ptr) and addr.obj is rec["owned_result"][0])))
                    checks.append(("the capsule argument does not carry the destructor index the C function stored", idt != rec["owned_result"][1]))
            if r is not None and r.kind == "array_ptr":
                if ctx is None or "n" not in ctx:
                    checks.append(("pointer result without an array context from the C function", True))
                else:
                    data = gx.m.load_ptr(Ptr(r.obj, 0))
                    want = rec.get("ret_ptr")
                    checks.append(("the Fortran pointer result does not designate the array the C function returned",
                                   not (isinstance(data, Ptr) and want is not None and data.obj is want.obj and conc(data.off) == 0)))
                    lbn = gx.m.load_int(Ptr(r.obj, 48), 64)
                    ubn = gx.m.load_int(Ptr(r.obj, 56), 64)
                    st = gx.m.load_int(Ptr(r.obj, 40), 64)
                    checks.append(("the Fortran pointer result does not have the extent the C function reported", ubn - lbn + 1 != ctx["n"]))
                    checks.append(("the Fortran pointer result is not contiguous (stride 1)", z3.And(ctx["n"] > 1, st != 1)) if ctx["n"] > 1 else
                                  ("stride", False))
            # output arguments
            for key, new in rec["havoc"].items():
                a = {k.lower(): v for k, v in self.act.items()}.get(key)
                if a is None:
                    continue
                if a.kind == "char":
                    gx.m.flush(a.obj)
                    i = z3.BitVec("idx", 64)
                    checks.append(("character argument '%s' does not hold what the C function left in it" % key,
                                   z3.And(z3.ULT(i, a.n), z3.Select(a.obj.arr, i) != z3.Select(new, i))))
                elif a.kind == "array":
                    gx.m.flush(a.obj)
                    i = z3.BitVec("idx", 64)
                    b = z3.BitVec("byte", 64)
                    checks.append(("array argument '%s' does not hold the elements the C function stored" % key,
                                   z3.And(z3.ULT(i, a.n), z3.ULT(b, a.esz),
                                          z3.Select(a.obj.arr, i * a.stride * a.esz + b) != z3.Select(new, i * a.esz + b))))
                elif a.kind == "ref":
                    cur = gx.m.load_int(Ptr(a.obj, 0), a.gtype.bits)
                    if cur.size() != new.size():
                        checks.append(("logical argument '%s' does not carry the truth value the C function stored" % key, (cur != 0) != (new != 0)))
                        checks.append(("logical argument '%s' is not .true./.false. (0/1) afterwards" % key, z3.And(cur != 0, cur != 1)))
                    else:
                        checks.append(("argument '%s' does not hold the value the C function stored" % key, cur != new))
            # intent(in) actuals unchanged
            written = {h.get("array") for h in self.helper_calls}
            for k, a in self.act.items():
                if a.kind == "array" and k.lower() not in rec["havoc"] and k.lower() not in written:
                    gx.m.flush(a.obj)
                    i = z3.BitVec("idx", 64)
                    checks.append(("array argument '%s' was modified although the C function did not write it" % k,
                                   z3.And(z3.ULT(i, bv(a.obj.size)), z3.Select(a.obj.arr, i) != z3.Select(a.arr0, i))))
                if a.kind == "char" and k.lower() not in rec["havoc"]:
                    gx.m.flush(a.obj)
                    i = z3.BitVec("idx", 64)
                    checks.append(("character argument '%s' was modified although the C function did not write it" % k,
                                   z3.And(z3.ULT(i, a.n), z3.Select(a.obj.arr, i) != z3.Select(a.arr0, i))))
        # temporaries
        keep = set()
        if self.result is not None and self.result.kind == "alloc_char":
            p = gx.m.load_ptr(Ptr(self.result.ptr_obj, 0))
            if isinstance(p, Ptr) and p.obj is not None:
                keep.add(p.obj.id)
        for o in gx.m.objects:
            if o.id <= self.nobj_before or o.id in keep:
                continue
            if o.kind == "heap" and o.alloc == "malloc" and o.live:
                checks.append(("a temporary the Fortran wrapper allocated (%s) is not released before it returns" % o.name, True))
        ctx = getattr(self, "context", None)
        if ctx is not None and ctx["held"] is not None and ctx["held"].live:
            checks.append(("the C++ object behind the context is never released (no copy-and-release call)", True))
        nq = 0
        for what, bad in checks:
            nq += 1
            if bad is True or (not isinstance(bad, bool) and e.check(bad) == "sat"):
                m = e.model() if bad is True else e.model(bad)
                return {"cls": cls, "violation": self.witness(m, what), "vkey": "%s:%s" % (self.fname, what[:50]),
                        "counters": {"assertions": nq}}
        if self.twin:
            return {"cls": cls, "violation": self.witness(e.model(), "reachability twin"), "vkey": "twin"}
        # the sample that is replayed natively should exercise something: prefer long, blank-containing texts
        pref = []
        for k, a in self.act.items():
            if a.kind == "char":
                pref.append(z3.And(a.n == self.cap, z3.Select(a.arr0, z3.BitVecVal(0, 64)) == 65,
                                   z3.Select(a.arr0, z3.BitVecVal(1, 64)) == 32, z3.Select(a.arr0, z3.BitVecVal(self.cap - 1, 64)) == 32))
            elif a.kind in ("value", "ref") and a.gtype.name != "logical" and a.gtype.kind == "int":
                pref.append(a.v0 == 7)
        m = None
        for cond in (z3.And(pref) if pref else None,) + tuple(pref):
            if cond is not None and e.check(cond) == "sat":
                m = e.model(cond)
                break
        return {"cls": cls, "sample": self.witness(m or e.model(), None), "counters": {"assertions": nq}}


def make(**kw):
    return FortranHarness(**kw)


def replay(w):
    """-> ('native', text) when the native build reproduces the symbolic run's observables,
          ('symbolic', text) when the shape is outside the native driver and re-execution shows it again,
          ('mismatch', text) when the native build behaves differently (encoding error), (None, None) otherwise"""
    from harness import c01_native
    h = FortranHarness(w["build"], w["function"], w.get("cap", 3))
    try:
        h.prepare()
        r = c01_native.native_run(h, w)
    except Exception as ex:
        r = ("build", "%s: %s" % (type(ex).__name__, ex), None)
    if r is None:
        again = resolve_symbolic(w)
        return ("symbolic", again) if again else (None, None)
    if r[0] == "build":
        return ("mismatch", r[1])
    agree, why, got = r
    if agree:
        return ("native", "native run (gfortran + recording C stand-in) reproduces the symbolic run's observables")
    return ("mismatch", why)


def replay_sample(w):
    from harness import c01_native
    h = FortranHarness(w["build"], w["function"], w.get("cap", 3))
    try:
        h.prepare()
        r = c01_native.native_run(h, w)
    except Exception as ex:
        return ("mismatch", "%s: %s" % (type(ex).__name__, ex))
    if r is None:
        return (None, None)
    if r[0] == "build":
        return ("mismatch", r[1])
    return ("native", "") if r[0] else ("mismatch", r[1])


def direct_binding_verdict(key, fname):
    """A wrapped function whose public Fortran name has no module procedure is bound straight to its bind(C) interface: the
    actual argument goes to C as it is.  That is only the documented data path when no argument needs the wrapper's help;
    an intent(in) `const char *` needs TRIM(arg)//C_NULL_CHAR (the C side reads up to a NUL), a bool needs the
    logical conversion, a std::string needs its length."""
    fb = fbuild(key)
    if fname in fb.functions or fname not in fb.procs:
        return None
    f = fb.procs[fname]
    for a in (f.ast.params or []):
        p = wrapsym.CxxParam(a)
        if a.attrs.get("hidden"):
            return ("%s has no Fortran procedure (its name is bound directly to the C function) although argument '%s' is "
                    "+hidden: the documented Fortran API does not have that argument, the bind(C) interface does" % (fname, p.name))
        if a.attrs.get("implied"):
            return ("%s has no Fortran procedure (its name is bound directly to the C function) although argument '%s' is "
                    "+implied(%s): the documented Fortran API computes it, the bind(C) interface expects it from the caller" % (fname, p.name, a.attrs["implied"]))
        if p.kind() in ("charp", "string", "charpp") or p.tname == "bool":
            return ("%s has no Fortran procedure (its name is bound directly to the C function) although argument '%s' (%s) "
                    "needs one: a character actual argument would reach C without its terminating NUL / length" % (fname, p.name, p.tname))
    # the result: a pointer result the documentation turns into a value (+deref(scalar)) must be bound to a C function that
    # dereferences it - the library function itself returns the address
    if f.ast.is_pointer() and f.ast.attrs["deref"] == "scalar":
        text = "".join(t for n, t in fb.files.items() if n.endswith(".f"))
        m = re.search(r'(?is)\bfunction\s+%s\s*\([^)]*\)\s*&?\s*(?:result\s*\(\w+\)\s*&?\s*)?bind\(C,\s*name="(\w+)"\)' % re.escape(fname), text)
        if m and m.group(1) == f.ast.name:
            return ("%s returns the value its pointer result designates (+deref(scalar)) but its interface is bound straight to the "
                    "library function %s, which returns the address: the caller reads address bits as the value" % (fname, m.group(1)))
    return None


def capsule_intent_verdict(key, fname):
    """A capsule dummy that receives a block the caller owns must be intent(OUT): Fortran then finalises what the actual
    argument still holds before the call, so a capsule variable used for two calls in a row releases the first block.
    (The finalisation happens at the call site, so no generated procedure's GIMPLE shows it; the declaration does.)"""
    fb = fbuild(key)
    f = fb.procs.get(fname)
    if f is None or f.ast.attrs["owner"] != "caller":
        return None
    text = "".join(t for n, t in fb.files.items() if n.endswith(".f"))
    m = re.search(r"(?ims)^\s*(?:[\w()=, ]*\s)?function\s+%s\s*\(.*?^\s*end function\s+%s\b" % (re.escape(fname), re.escape(fname)), text)
    if not m:
        return None
    for ln in m.group(0).splitlines():
        mm = re.match(r"(?i)^\s*type\(\w*SHROUD_capsule\),\s*intent\((\w+)\)\s*::", ln)
        if mm and mm.group(1).upper() != "OUT":
            return ("%s hands a block the caller owns to its capsule argument, which is declared intent(%s): what the capsule still "
                    "holds from an earlier call is not finalised and can never be released" % (fname, mm.group(1).upper()))
    return None


def resolve_symbolic(w):
    if w.get("kernel") == "capsule-intent":
        return capsule_intent_verdict(tuple(w["build"]), w["function"])
    if w.get("kernel") == "direct-binding":
        return direct_binding_verdict(tuple(w["build"]), w["function"])
    a = driver.explore(("harness.C01", "make", dict(build_key=w["build"], fname=w["function"], cap=w.get("cap", 3))), nworkers=1)
    for v in a.violations:
        return v["what"]
    return None


def main():
    tier, seed, rp = checklib.tier_and_seed()
    if rp:
        with open(rp) as f:
            w = json.load(f)
        v = resolve_symbolic(w)
        print("case:", json.dumps({k: w[k] for k in w if k != "what"})[:900])
        print("verdict:", v or "property holds on this input")
        if v:
            print("VIOLATION property=%s replay=%s" % (PID, rp))
        return 1 if v else 0
    rep = checklib.Report(PID)
    cap = 3 if tier == "quick" else 5
    specs, labels, skipped = [], [], []
    direct_viol = []
    for key in BUILDS:
        if not os.path.exists(os.path.join(lc.LIBDIR, key[0])):
            continue
        try:
            fb = fbuild(key)
        except Exception as ex:
            rep.inconc("cannot build %s: %s" % (key[0], str(ex)[:300]))
            continue
        for fname in sorted(fb.procs):
            cv = capsule_intent_verdict(key, fname)
            if cv:
                direct_viol.append({"kernel": "capsule-intent", "build": list(key), "function": fname, "what": cv})
            if fname not in fb.functions:
                dv = direct_binding_verdict(key, fname)
                if dv:
                    direct_viol.append({"kernel": "direct-binding", "build": list(key), "function": fname, "what": dv})
                skipped.append((fname, "no GIMPLE function of that name"))
                continue
            specs.append(("harness.C01", "make", dict(build_key=list(key), fname=fname, cap=cap)))
            labels.append("%s (%s)" % (fname, key[0]))
    accs = driver.explore_many(specs, split_depth=4, time_budget_s=900 if tier == "quick" else 4000, max_decisions=50000)
    total = driver.Acc()
    runs = []
    for lab, a in zip(labels, accs):
        uns = [m for m in a.inconclusive if "Unsupported" in m]
        if uns and len(uns) == len(a.inconclusive) and a.stats.paths <= len(uns):
            skipped.append((lab, uns[0][:160]))
            continue
        total.merge(a)
        runs.append({"function": lab, "paths": a.stats.paths, "queries": a.stats.queries, "violations": a.nviol})
        for msg in a.inconclusive:
            rep.inconc("%s: %s" % (lab, msg))
    tw = driver.explore(("harness.C01", "make", dict(build_key=list(BUILDS[0]), fname="pass_char_in", cap=cap, twin=True)), nworkers=1)
    twin_ok = tw.stats.paths > 0 and tw.nviol == tw.stats.paths and not tw.inconclusive
    if not twin_ok:
        rep.inconc("reachability twin failed: %r" % (tw.inconclusive[:1],))
    known = [k for k in checklib.load_known(PID) if k.get("status") == "known"]
    seen, confirmed = set(), 0
    for i, v in enumerate(total.violations):
        key = v.get("_vkey")
        if key in seen:
            continue
        seen.add(key)
        how, text = replay(v)
        if how == "mismatch":
            rep.inconc("counterexample is not reproduced by the native build (%s): %s" % (text, json.dumps({k: v[k] for k in ("function", "what", "inputs")})[:300]))
            continue
        if how is None:
            rep.inconc("counterexample did not reproduce on re-execution: %s" % json.dumps(v)[:300])
            continue
        confirmed += 1
        kf = [k for k in known if k["key"] in v["what"] or k["key"] == v.get("function")]
        if kf:
            rep.known_finding("%s (%s)" % (kf[0]["what_fails"], v.get("function")))
            continue
        path = checklib.write_replay(PID, "cex%03d" % i, v)
        rep.violation(path, "%s | %s | function=%s inputs=%s" % (v["what"], "native replay" if how == "native" else "symbolic result (shape outside the native driver)",
                                                                 v["function"], json.dumps(v.get("inputs"))[:200]))
    for i, v in enumerate(direct_viol):
        path = checklib.write_replay(PID, "direct%03d" % i, v)
        rep.violation(path, "%s | read from the regenerated module (no procedure to execute)" % v["what"])
    samples = []
    for cls, lst in sorted(total.samples.items())[:8]:
        samples.append({"function": lst[0]["function"], "inputs": lst[0]["inputs"], "callee": lst[0]["callee"]})
    # engine validation: one clean path per procedure is replayed natively and must behave as the symbolic run did
    validated, outside_native = 0, 0
    from concurrent.futures import ThreadPoolExecutor
    todo = [lst[0] for cls, lst in sorted(total.samples.items()) if lst]
    for key in {tuple(t["build"]) for t in todo}:
        fbuild(key)               # builds are cached per process: make them here, not concurrently in the threads
        lc.get_build(key)
    with ThreadPoolExecutor(max_workers=12) as tp:
        for smp, (how, text) in zip(todo, tp.map(replay_sample, todo)):
            if how == "native":
                validated += 1
            elif how == "mismatch":
                rep.inconc("engine validation: the native build of %s behaves differently from the symbolic run: %s" % (smp["function"], text))
            else:
                outside_native += 1
    cov = {
        "programs": len(runs),
        "disagreements_checked": confirmed,
        "samples": samples,
        "functions_encoded": [r["function"] for r in runs],
        "outside_the_harness": [{"function": c, "reason": r} for c, r in skipped],
        "bounds": {"character_length_max": cap, "libraries": [k[0] for k in BUILDS], "compiler": "gfortran -O0 -fdump-tree-ssa (GIMPLE)"},
        "solver": {"name": "z3 " + z3.get_version_string(), "queries": total.stats.queries, "solver_s": round(total.stats.solver_s, 2)},
        "paths": total.stats.paths,
        "assertions_discharged": total.counters.get("assertions", 0),
        "reachability_twin_ok": twin_ok,
        "sample_paths_validated_natively": validated,
        "sample_paths_outside_the_native_driver": outside_native,
        "runs": runs[:80],
    }
    assumptions = [
        "what is executed is gfortran 12's GIMPLE (SSA form, -O0) of the generated module procedures; libgfortran's string_trim / string_len_trim / concat_string and malloc/free/memmove are intrinsic models; allocation failure is out of scope",
        "the bind(C) callee is a stub with the contract of the generated C function (C10 / C02 / C06 decide that side): it may write the caller's character variable only inside the length it was given, stores arbitrary values through non-const references, returns an arbitrary value",
        "Fortran logicals supplied by the caller are 0 or 1",
        "counterexamples (and one clean path per procedure, as engine validation) are replayed natively: the generated module compiled by gfortran, linked with a recording C stand-in for the generated C function, driven by a Fortran program built from the witness; what the stand-in received and what the caller got back must equal the symbolic run's observables.  The native driver covers character and scalar dummies and scalar / character results; for arrays, objects and contexts of vectors the verdict is the symbolic result (the output says so)",
        "generic interface resolution, assumed-shape array descriptors and type-bound procedure dispatch are outside unless listed in functions_encoded",
    ]
    checklib.write_evidence(PID, tier, seed, "translation_validation", cov, assumptions, rep.wall(), len(rep.violations))
    return rep.finish()


if __name__ == "__main__":
    sys.exit(main())
