"""C10: the generated wrappers of the two string libraries (gen/libs/strs.yaml, cstrs.yaml) under the
generic wrapper harness, and the native (ASan/UBSan) replay of wrapper witnesses."""
import os
import re

from harness import ll_common as lc
from harness import wrapsym

CFI_KEY = ("stc.yaml", "stc.hpp")          # the C++ string library generated with F_CFI: true
BUILD_KEYS = {"c++": ("strs.yaml", "strs.hpp"), "c": ("cstrs.yaml", "cstrs.h"), "cfi": CFI_KEY}
ASSUMPTIONS = [
    "wrappers: the wrapped library function is a nondeterministic stub; it reads NUL-terminated strings (a non-terminated argument is reported as an out-of-bounds read), writes NUL-terminated replies that fit the object it was given, returns NULL or a NUL-terminated string of length <= capacity; std::string replies contain no NUL",
    "wrappers: caller buffers are exact-fit objects of the given len (or len_trim when only that is passed)",
    "native replay of a wrapper witness: the generated wrapper is compiled with a recording stub library and a driver built from the witness under ASan/UBSan; its observable results must equal the symbolic run's",
]


def specs(cap, langs):
    out, labels = [], []
    for lang in langs:
        key = BUILD_KEYS[lang]
        b = lc.get_build(key)
        infos = wrapsym.collect(b)
        for cname in sorted(infos):
            info = infos[cname]
            kinds = [p.kind() for p in info.params] + ([info.result.kind()] if info.result else [])
            if any(k in ("vector", "class", "struct") for k in kinds):
                continue
            if lang == "cfi" and not cname.endswith("_CFI"):
                continue        # (the plain entry points are those of the library without the option)
            out.append(("harness.wrapsym", "make", dict(build_key=list(key), cname=cname, cap=cap)))
            labels.append("wrapper %s (%s)" % (cname, lang))
    return out, labels


# ---------------------------------------------------------------------------- native replay
def header_prototypes(text):
    """hand-written library header: name -> (ret text, [(type text, name)])"""
    out = {}
    for m in re.finditer(r"(?m)^([\w:&\*<> ]+?)\b(\w+)\s*\(([^;()]*)\)\s*;", text):
        ret, name, params = m.group(1).strip(), m.group(2), m.group(3).strip()
        plist = []
        if params and params != "void":
            for p in params.split(","):
                mm = re.match(r"^(.*?)(\w+)$", p.strip())
                plist.append((mm.group(1).strip(), mm.group(2)))
        out[name] = (ret, plist)
    return out


def c_array(name, bs):
    return "static unsigned char %s[] = {%s};" % (name, ",".join(str(b) for b in (bs or [0])))


def replay_wrapper(w):
    """Returns verdict text (violation reproduced) or None."""
    r = native_run(w)
    if r is None:
        return None
    agree, san, got, obs = r
    if san:
        return "sanitizer: " + san
    if not agree:
        # the native build behaves differently from the symbolic run: the encoding is wrong, not the code
        return None
    return "native run reproduces the symbolic run's observables %s, which violate: %s" % ({k: got.get(k) for k in obs}, w.get("what"))


def validate_sample(w):
    """Engine validation on a non-violating path: the native build must behave exactly as the symbolic
    run did on the same concrete input (and no sanitizer may fire).  Returns None if it does, else text."""
    r = native_run(w)
    if r is None:
        return "SKIP"       # the driver generator does not cover this argument shape (pointer targets): not validated
    agree, san, got, obs = r
    if san and not san.startswith("LeakSanitizer"):
        # (leaks are judged symbolically; the plain C API of owner(caller) string results leaks by construction, see DESIGN 5.3)
        return "sanitizer report on a path the symbolic run found clean: " + san
    if not agree:
        return "native observables %r differ from the symbolic run's %r" % ({k: got.get(k) for k in obs}, obs)
    return None


def native_run(w):
    """-> (agree, sanitizer text|None, native observables, symbolic observables) or None"""
    key = tuple(w["build"])
    if key == CFI_KEY:
        return None
    b = lc.get_build(key)
    infos = wrapsym.collect(b)
    info = infos.get(w["function"])
    if info is None:
        return None
    cxx = key[0] == "strs.yaml" or key[1].endswith(".hpp")
    hdr_text = lc.lib_text(key[1])
    protos = header_prototypes(hdr_text)
    if info.cxx_name not in protos:
        return None
    ret_t, plist = protos[info.cxx_name]
    reps = w.get("library_replies", {})
    inputs = w["inputs"]
    L = []
    L.append('#include <stdio.h>\n#include <stdlib.h>\n#include <string.h>\n')
    if cxx:
        L.append('#include <string>\n')
    L.append('#include "%s"\n#include "%s"\n' % (key[1], [n for n in b.files if n.startswith("wrap") and n.endswith(".h") and not n.startswith("wrapf")][0]))
    L.append("static char *xalloc(long n) { char *b = (char *) malloc(n > 0 ? n : 1); return n > 0 ? b : b + 1; }\n")
    L.append("static void xfree(char *p, long n) { free(n > 0 ? p : p - 1); }\n")
    L.append('static void dump(const char *tag, const unsigned char *p, long n) { printf("%s", tag); for (long i = 0; i < n; i++) printf(" %d", p[i]); printf("\\n"); }\n')
    # ---- stub library function
    body = []
    for (pt, pn), p in zip(plist, info.params):
        kind = p.kind()
        if kind == "charp" and p.intent in ("in", "inout"):
            body.append('dump("recv:%s", (const unsigned char *) %s, (long) strlen(%s));' % (pn, pn, pn))
        elif kind == "string" and p.intent in ("in", "inout"):
            acc = "%s->" % pn if p.nptr else "%s." % pn
            body.append('dump("recv:%s", (const unsigned char *) %sdata(), (long) %ssize());' % (pn, acc, acc))
        rk = "reply:" + pn
        if rk in reps:
            body.append(c_array("rep_" + pn, reps[rk]))
            n = len(reps[rk])
            if kind == "charp":
                body.append("memcpy(%s, rep_%s, %d); %s[%d] = 0;" % (pn, pn, n, pn, n))
            elif kind == "string":
                tgt = "*%s" % pn if p.nptr else pn
                body.append("%s = std::string((const char *) rep_%s, %d);" % (tgt, pn, n))
    rp = info.result
    if rp is not None:
        kind = rp.kind()
        if kind == "scalar":
            body.append("return (%s) %d;" % (ret_t, reps.get("result", 0)))
        elif kind == "charp":
            if reps.get("result_null"):
                body.append("return NULL;")
            else:
                rs = reps.get("result_string", [])
                body.append("static char resbuf[%d];" % (len(rs) + 1))
                body.append(c_array("rep_res", rs))
                body.append("memcpy(resbuf, rep_res, %d); resbuf[%d] = 0; return resbuf;" % (len(rs), len(rs)))
        elif kind == "string":
            rs = reps.get("result_string", [])
            body.append(c_array("rep_res", rs))
            if rp.nptr:
                body.append("return new std::string((const char *) rep_res, %d);" % len(rs))
            elif rp.ref:
                body.append("static std::string keep; keep = std::string((const char *) rep_res, %d); return keep;" % len(rs))
            else:
                body.append("return std::string((const char *) rep_res, %d);" % len(rs))
    L.append("%s %s(%s)\n{\n    %s\n}\n" % (ret_t, info.cxx_name, ", ".join("%s %s" % x for x in plist), "\n    ".join(body)))
    # the other library functions the generated file refers to: empty definitions are not needed when only
    # this wrapper is linked, so every other prototype gets a trivial body
    for name, (rt_, pl) in protos.items():
        if name == info.cxx_name:
            continue
        L.append("%s %s(%s) { %s }\n" % (rt_, name, ", ".join("%s %s" % x for x in pl),
                                        "abort();" if rt_ == "void" else "abort(); %s" % ("static std::string s; return s;" if "std::string" in rt_ and "*" not in rt_ else "return 0;")))
    # ---- driver
    M = ["int main(void) {"]
    call_args = []
    dumps = []
    for (cty, cn), (role, p) in zip(info.cparams, info.roles()):
        key2 = p.name if p is not None else "@result"
        if role in ("len", "len_trim", "res_len", "res_len_trim", "size"):
            call_args.append(str(inputs["%s:%s" % (role.replace("res_", ""), key2)]))
        elif role in ("context", "res_context"):
            M.append("%s ctx_%d; memset(&ctx_%d, 0x5a, sizeof ctx_%d);" % (cty.replace("*", "").strip(), len(call_args), len(call_args), len(call_args)))
            call_args.append("&ctx_%d" % len(call_args))
        elif role == "res_buf" or (role == "arg" and ("buf:" + key2) in inputs):
            d = inputs["buf:" + key2]
            nm = "b_%d" % len(call_args)
            M.append(c_array(nm + "_init", d["bytes"][:max(d["size"], 1)]).replace("static ", ""))
            M.append("char *%s = xalloc(%d); memcpy(%s, %s_init, %d);" % (nm, d["size"], nm, nm, min(d["size"], len(d["bytes"]))))
            call_args.append(nm)
            dumps.append('dump("buf:%s", (const unsigned char *) %s, %d); xfree(%s, %d);' % (key2, nm, min(d["size"], len(d["bytes"])), nm, d["size"]))
        elif role == "arg" and ("scalar:" + key2) in inputs:
            v = inputs["scalar:" + key2]
            if "double" in cty or "float" in cty:
                # opaque bit pattern
                M.append("%s sv_%d; { unsigned long long bits = %dULL; memcpy(&sv_%d, &bits, sizeof sv_%d); }" % (cty, len(call_args), v & 0xFFFFFFFFFFFFFFFF, len(call_args), len(call_args)))
                call_args.append("sv_%d" % len(call_args))
            else:
                call_args.append("(%s) %d" % (cty, int(v)))
        else:
            return None
    call = "%s(%s)" % (info.cname, ", ".join(call_args))
    if info.ret_c.strip() != "void" and "*" not in info.ret_c:
        M.append('long long rv = (long long) %s; printf("ret %%lld\\n", rv);' % call)
    else:
        M.append(call + ";")
    M += dumps
    M.append("return 0; }")
    L.append("\n".join(M) + "\n")
    src = {"driver.cpp" if cxx else "driver.c": "".join(L)}
    for n, t in b.files.items():
        if n.endswith((".h", ".hpp")) or (n.startswith("wrap") and n.endswith((".c", ".cpp"))):
            src[n] = t
    src[key[1]] = hdr_text
    rc, out = lc.run_native(src, cxx=cxx)
    if rc == -999:
        return None
    san = re.search(r"(AddressSanitizer: [\w-]+|runtime error: [^\n]+|LeakSanitizer: [\w ]+)", out)
    obs = w.get("observed", {})
    got = {}
    for line in out.splitlines():
        parts = line.split()
        if not parts:
            continue
        if parts[0] == "ret":
            got["ret"] = int(parts[1])
        elif ":" in parts[0]:
            try:
                got[parts[0]] = [int(x) for x in parts[1:]]
            except ValueError:
                pass
    agree = True
    for k, v in obs.items():
        if k == "ret":
            a, c = got.get("ret"), v
            if a is None or (a - c) % (1 << 8) != 0 and (a - c) % (1 << 32) != 0:
                agree = False
        elif k in got:
            n = min(len(got[k]), len(v))
            if got[k][:n] != v[:n]:
                agree = False
    return agree, (san.group(1) if san else None), got, obs
