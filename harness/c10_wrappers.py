"""placeholder"""
ASSUMPTIONS = []
def specs(cap, langs):
    return [], []
def replay_wrapper(w):
    return None
