"""Native replay for C01: the generated Fortran module is compiled by gfortran and linked with a
recording C stand-in for the generated C function; a Fortran driver built from a witness performs
the call; what the stand-in received and what the Fortran caller got back must equal the
observables of the symbolic run (engines/gimsym) under the same model.

Covered shapes: character(len=*) dummies, integer / real / logical dummies by value or by
reference, no result / scalar result / fixed-length and allocatable character results.  Anything
else returns None (the caller reports the symbolic result and says so).
"""
import os
import re
import shutil
import subprocess
import tempfile

from harness import ll_common as lc

CTYPES = {"int": ("long long", 32), "long": ("long long", 64), "short": ("long long", 16), "size_t": ("long long", 64),
          "unsigned int": ("long long", 32), "long long": ("long long", 64), "bool": ("long long", 8), "char": ("long long", 8)}


def proc_source(fb, node):
    name = node.fmtdict.F_name_impl
    for n, text in fb.files.items():
        if not n.endswith(".f"):
            continue
        m = re.search(r"(?ims)^\s*(?:function|subroutine)\s+%s\b.*?^\s*end (?:function|subroutine)\s+%s\b" % (re.escape(name), re.escape(name)), text)
        if m:
            return n, m.group(0)
    return None, None


def dummy_decls(src):
    """-> (kind 'function'|'subroutine', arg names, result name, {name: (type text, attrs)})"""
    joined = re.sub(r"&\s*\n\s*", " ", src.strip())
    head = joined.split("\n")[0]
    m = re.match(r"(?i)\s*(function|subroutine)\s+(\w+)\s*\(([^)]*)\)\s*(?:result\((\w+)\))?", head)
    kind, args, res = m.group(1).lower(), [a.strip() for a in m.group(3).split(",") if a.strip()], m.group(4)
    decls = {}
    for ln in joined.split("\n")[1:]:
        if "splicer begin" in ln:
            break
        mm = re.match(r"(?i)^\s*((?:character|integer|real|logical|type)\s*(?:\([^)]*\))?)\s*((?:,\s*[\w()]+(?:\([^)]*\))?\s*)*)::\s*(.*)$", ln.split("!")[0])
        if not mm:
            continue
        ty, attrs, names = mm.group(1).strip(), mm.group(2), mm.group(3)
        for nm in names.split(","):
            nm = nm.strip()
            if nm:
                decls[nm] = (ty, attrs.lower())
    return kind, args, res, decls


def f_hexreal(bits, width):
    return "transfer(int(z'%X', %s), %s)" % (bits, "C_INT64_T" if width == 64 else "C_INT32_T",
                                             "1.0_C_DOUBLE" if width == 64 else "1.0_C_FLOAT")


def native_run(h, w):
    """h: a prepared FortranHarness (for build products); w: witness with 'observed' and 'replies'.
    -> (agree, native observables, symbolic observables) or None when the shape is not covered."""
    fb, node = h.fb, h.node
    obs = w.get("observed")
    if not obs or len(obs.get("callee", [])) != 1:
        return None
    fname, src = proc_source(fb, node)
    if src is None:
        return None
    kind, args, res, decls = dummy_decls(src)
    inputs = w["inputs"]
    low = {k.lower(): v for k, v in inputs.items()}
    # ---- driver
    D = ["program drv", "use iso_c_binding", "use %s" % re.search(r"(?im)^\s*module\s+(\w+)", fb.files[fname]).group(1), "implicit none", "integer :: i__"]
    body, after = [], []
    callargs = []
    for a in args:
        if a not in decls:
            return None
        ty, attrs = decls[a]
        v = low.get(a.lower())
        tl = ty.lower().replace(" ", "")
        if tl.startswith("character"):
            if not isinstance(v, dict) or "text" not in v or "dimension" in attrs or "(:)" in a:
                return None
            n = v["len"]
            D.append("character(len=%d) :: %s" % (n, a))
            for i, b in enumerate(v["text"][:n]):
                body.append("%s(%d:%d) = achar(%d)" % (a, i + 1, i + 1, b))
            after.append(("char", a))
        elif tl.startswith("integer") or tl.startswith("logical") or tl.startswith("real"):
            if not isinstance(v, int):
                return None
            D.append("%s :: %s" % (ty, a))
            if tl.startswith("logical"):
                body.append("%s = %s" % (a, ".true." if v else ".false."))
                after.append(("logical", a))
            elif tl.startswith("real"):
                width = 32 if "C_FLOAT" in ty.upper() or "kind=4" in tl else 64
                body.append("%s = %s" % (a, f_hexreal(v & ((1 << width) - 1), width)))
                after.append(("real%d" % width, a))
            else:
                body.append("%s = %d" % (a, v if v < (1 << 63) else v - (1 << 64)))
                after.append(("int", a))
        else:
            return None
        callargs.append(a)
    if kind == "function":
        ty, attrs = decls.get(res, (None, None))
        if ty is None:
            return None
        tl = ty.lower().replace(" ", "")
        if tl.startswith("type"):
            return None
        if "pointer" in attrs or "dimension" in attrs:
            return None
        D.append("%s%s :: r__" % (ty, ", allocatable" if "allocatable" in attrs else ""))
        call = "r__ = %s(%s)" % (node.fmtdict.F_name_impl, ", ".join(callargs))
        if tl.startswith("character"):
            after.append(("char", "r__"))
        elif tl.startswith("logical"):
            after.append(("logical", "r__"))
        elif tl.startswith("real"):
            after.append(("real%d" % (32 if "C_FLOAT" in ty.upper() else 64), "r__"))
        else:
            after.append(("int", "r__"))
    else:
        call = "call %s(%s)" % (node.fmtdict.F_name_impl, ", ".join(callargs))
    D += body + [call]
    for k, a in after:
        tag = "FINAL %s" % ("@result" if a == "r__" else a.lower())
        if k == "char":
            D.append("write(*,'(A,1X,I0)',advance='no') '%s', len(%s)" % (tag, a))
            D.append("do i__ = 1, len(%s)" % a)
            D.append("  write(*,'(1X,I0)',advance='no') iachar(%s(i__:i__))" % a)
            D.append("end do")
            D.append("write(*,*)")
        elif k == "logical":
            D.append("write(*,'(A,1X,I0)') '%s', merge(1, 0, %s)" % (tag, a))
        elif k == "real64":
            D.append("write(*,'(A,1X,I0)') '%s', transfer(%s, 1_C_INT64_T)" % (tag, a))
        elif k == "real32":
            D.append("write(*,'(A,1X,I0)') '%s', transfer(%s, 1_C_INT32_T)" % (tag, a))
        else:
            D.append("write(*,'(A,1X,I0)') '%s', %s" % (tag, a))
    D.append("end program drv")
    # ---- the recording stand-in
    rec = obs["callee"][0]
    cname = rec["name"]
    info = h.cinfos.get(cname) or h.direct_info(cname)
    if info is None:
        return None
    roles = info.roles()
    replies = w.get("replies", {})
    types_h = [n for n in fb.files if n.startswith("types") and n.endswith(".h")]
    C = ["#include <stdio.h>", "#include <string.h>", "#include <stdbool.h>", "#include <stddef.h>"]
    if types_h:
        C.append('#include "%s"' % types_h[0])
    params, stmts = [], []
    for k, ((role, p), (cty, cn)) in enumerate(zip(roles, info.cparams)):
        ct = cty.strip()
        base = ct.replace("const ", "").strip()
        if "*" in base:
            if "SHROUD_array" in base:
                params.append("%s%s" % (ct if ct.endswith("*") else ct + " ", cn))
                ctxr = replies.get("context")
                if ctxr is None:
                    return None
                stmts.append('printf("ARG %d context\\n");' % k)
                stmts.append("static char ctext__[] = {%s};" % ",".join(str(b) for b in (ctxr["text"] + [0])))
                stmts.append("%s->cxx.addr = ctext__; %s->cxx.idtor = 0; %s->addr.ccharp = ctext__; %s->elem_len = %d; %s->size = 1; %s->rank = 0;"
                             % (cn, cn, cn, cn, ctxr["elem_len"], cn, cn))
                continue
            if base.startswith("char"):
                params.append("%s %s" % (ct, cn) if not ct.endswith("*") else "%s%s" % (ct, cn))
                key = (p.name.lower() if p is not None else "@result") if role != "res_buf" else (rec.get("res_as_arg") or "@result")
                sib = rec["lens"].get(key)
                if sib is not None:
                    stmts.append('printf("ARG %d buf"); for (long i__ = 0; i__ < %d; i__++) printf(" %%d", (unsigned char) %s[i__]); printf("\\n");' % (k, sib, cn))
                else:
                    stmts.append('printf("ARG %d cstr"); for (long i__ = 0; %s[i__]; i__++) printf(" %%d", (unsigned char) %s[i__]); printf("\\n");' % (k, cn, cn))
                rep = replies.get(key)
                if rep is not None and "const" not in ct:
                    for i, b in enumerate(rep):
                        stmts.append("%s[%d] = (char) %d;" % (cn, i, b))
                continue
            sc = base.replace("*", "").strip()
            if sc in CTYPES or sc in ("double", "float"):
                params.append("%s%s" % (ct if ct.endswith("*") else ct + " ", cn))
                key = p.name.lower() if p is not None else None
                if sc in ("double", "float"):
                    stmts.append('{ unsigned long long b__ = 0; memcpy(&b__, %s, sizeof(*%s)); printf("ARG %d ref %%llu\\n", b__); }' % (cn, cn, k))
                else:
                    stmts.append('printf("ARG %d ref %%lld\\n", (long long) *%s);' % (k, cn))
                rep = replies.get(key)
                if rep is not None and "const" not in ct:
                    if sc in ("double", "float"):
                        stmts.append("{ unsigned long long b__ = %dULL; memcpy(%s, &b__, sizeof(*%s)); }" % (rep, cn, cn))
                    else:
                        stmts.append("*%s = (%s) %dLL;" % (cn, sc, rep if rep < (1 << 63) else rep - (1 << 64)))
                continue
            return None
        if base in CTYPES:
            params.append("%s %s" % (base, cn))
            stmts.append('printf("ARG %d val %%lld\\n", (long long) %s);' % (k, cn))
        elif base in ("double", "float"):
            params.append("%s %s" % (base, cn))
            stmts.append('{ unsigned long long b__ = 0; memcpy(&b__, &%s, sizeof(%s)); printf("ARG %d val %%llu\\n", b__); }' % (cn, cn, k))
        else:
            return None
    ret = info.ret_c.strip()
    rbase = ret.replace("const ", "").strip()
    retstmt = ""
    if rbase != "void":
        if "*" in rbase:
            return None
        rv = replies.get("ret", 0)
        if rbase in ("double", "float"):
            retstmt = "{ %s r__; unsigned long long b__ = %dULL; memcpy(&r__, &b__, sizeof(r__)); return r__; }" % (rbase, rv)
        elif rbase in CTYPES:
            retstmt = "return (%s) %dLL;" % (rbase, rv if rv < (1 << 63) else rv - (1 << 64))
        else:
            return None
    C.append("%s %s(%s)\n{\n  %s\n  %s\n}" % (ret, cname, ", ".join(params) if params else "void", "\n  ".join(stmts), retstmt))
    helper = replies.get("helper")
    for sym in sorted(set(fb.ifaces.values())):
        if sym == cname:
            continue
        if sym.endswith("ShroudCopyStringAndFree") and helper is not None and types_h:
            pre = sym[:-len("ShroudCopyStringAndFree")]
            C.append("void %s(%sSHROUD_array *d, char *c, size_t n)\n{\n  printf(\"HELPER %%lld\\n\", (long long) n);\n  %s\n}" % (
                sym, pre, "\n  ".join("c[%d] = (char) %d;" % (i, b) for i, b in enumerate(helper["text"]))))
        elif sym.endswith("_SHROUD_memory_destructor") and types_h:
            C.append("void %s(%s_SHROUD_capsule_data *cap) { (void) cap; }" % (sym, sym[:-len("_SHROUD_memory_destructor")]))
        else:
            C.append("void %s(void) {}" % sym)
    tmp = tempfile.mkdtemp(prefix="c01replay_")
    try:
        for n, t in fb.files.items():
            if n.endswith((".f", ".h")):
                with open(os.path.join(tmp, n), "w") as f:
                    f.write(t)
        with open(os.path.join(tmp, "drv.f90"), "w") as f:
            f.write("\n".join(D) + "\n")
        with open(os.path.join(tmp, "stub.c"), "w") as f:
            f.write("\n".join(C) + "\n")
        ffiles = [n for n in fb.files if n.endswith(".f")]
        pending = list(ffiles)
        for _ in range(len(ffiles) + 1):
            still = []
            for n in pending:
                p = subprocess.run(["gfortran", "-cpp", "-ffree-form", "-ffree-line-length-none", "-O0", "-c", n, "-o", n + ".o"], cwd=tmp,
                                   stdout=subprocess.PIPE, stderr=subprocess.STDOUT, universal_newlines=True)
                if p.returncode != 0:
                    still.append(n)
            if not still or len(still) == len(pending):
                pending = still
                break
            pending = still
        if pending:
            return None
        p = subprocess.run(["gcc", "-std=c99", "-O0", "-w", "-c", "stub.c", "-o", "stub.o"], cwd=tmp, stdout=subprocess.PIPE,
                           stderr=subprocess.STDOUT, universal_newlines=True)
        if p.returncode != 0:
            return ("build", "stub does not compile: " + p.stdout[-400:], None)
        p = subprocess.run(["gfortran", "-O0", "drv.f90"] + [n + ".o" for n in ffiles] + ["stub.o", "-o", "drv"], cwd=tmp,
                           stdout=subprocess.PIPE, stderr=subprocess.STDOUT, universal_newlines=True)
        if p.returncode != 0:
            return ("build", "driver does not build: " + p.stdout[-600:], None)
        p = subprocess.run([os.path.join(tmp, "drv")], cwd=tmp, stdout=subprocess.PIPE, stderr=subprocess.STDOUT, universal_newlines=True, timeout=60)
        out = p.stdout
    except subprocess.TimeoutExpired:
        return None
    finally:
        shutil.rmtree(tmp, ignore_errors=True)
    got = {"args": {}, "final": {}}
    for ln in out.splitlines():
        t = ln.split()
        if not t:
            continue
        if t[0] == "ARG":
            got["args"][int(t[1])] = [t[2]] + [int(x) for x in t[3:]]
        elif t[0] == "FINAL":
            got["final"][t[1]] = [int(x) for x in t[2:]]
        elif t[0] == "HELPER":
            got["helper_len"] = int(t[1])
    got["rc"] = p.returncode
    got["raw"] = out[-300:] if p.returncode else ""
    # ---- compare with the symbolic observables
    agree = True
    why = []
    for k, o in enumerate(rec["args"]):
        g = got["args"].get(k)
        if o is None:
            continue
        if g is None:
            agree = False
            why.append("argument %d not seen natively" % k)
            continue
        if o[0] == "val" and g[0] == "val":
            bits = o[2]
            if (g[1] & ((1 << bits) - 1)) != o[1]:
                agree = False
                why.append("argument %d: native %d, symbolic %d" % (k, g[1] & ((1 << bits) - 1), o[1]))
        elif o[0] in ("cstr", "buf") and g[0] == o[0]:
            if o[1] is not None and g[1:] != o[1]:
                agree = False
                why.append("argument %d: native %r, symbolic %r" % (k, g[1:], o[1]))
        elif o[0] == "ref" and g[0] == "ref":
            bits = o[2]
            if o[1] is not None and (g[1] & ((1 << bits) - 1)) != o[1]:
                agree = False
                why.append("argument %d: native *%d, symbolic *%d" % (k, g[1] & ((1 << bits) - 1), o[1]))
        elif o[0] != g[0]:
            agree = False
            why.append("argument %d: native kind %s, symbolic kind %s" % (k, g[0], o[0]))
    for key, val in obs.get("final", {}).items():
        g = got["final"].get(key)
        if g is None:
            agree = False
            why.append("no native value for %s" % key)
        elif isinstance(val, dict):
            if g[0] != val["len"] or g[1:] != val["text"]:
                agree = False
                why.append("%s: native %r, symbolic len %d %r" % (key, g, val["len"], val["text"]))
        else:
            bits = val[1]
            if (g[0] & ((1 << bits) - 1)) != val[0]:
                agree = False
                why.append("%s: native %d, symbolic %d" % (key, g[0] & ((1 << bits) - 1), val[0]))
    return (agree, "; ".join(why), got)
