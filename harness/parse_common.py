"""Symbolic token streams for the real declast.Parser (shared by C09 and C17)."""
import z3

from engines.shadowsym.core import Unsupported, Infeasible

# ---------------------------------------------------------------------------- alphabet
PUNCT = [
    ("REAL", "1.5"), ("INTEGER", "2"), ("DQUOTE", '"s"'), ("SQUOTE", "'c'"),
    ("LPAREN", "("), ("RPAREN", ")"), ("LCURLY", "{"), ("RCURLY", "}"),
    ("LBRACKET", "["), ("RBRACKET", "]"), ("STAR", "*"), ("EQUALS", "="), ("REF", "&"),
    ("PLUS", "+"), ("MINUS", "-"), ("SLASH", "/"), ("COMMA", ","), ("SEMICOLON", ";"),
    ("LT", "<"), ("GT", ">"), ("TILDE", "~"), ("NAMESPACE", "::"), ("COLON", ":"),
    ("VARARG", "..."), ("OTHER", "@"),
]
KEYWORDS = [("CLASS", "class"), ("ENUM", "enum"), ("NAMESPACE", "namespace"), ("STRUCT", "struct"),
            ("TEMPLATE", "template"), ("TYPENAME", "typename"), ("PUBLIC", "public"),
            ("PRIVATE", "private"), ("PROTECTED", "protected")]
TYPE_SPEC_ALL = ["void", "bool", "char", "short", "int", "long", "float", "double", "signed",
                 "unsigned", "complex"]
TYPE_SPEC_QUICK = ["void", "int", "long", "char", "unsigned", "double"]
QUALS = ["const", "volatile"]
STORAGE_ALL = ["auto", "register", "static", "extern", "typedef"]
STORAGE_QUICK = ["static"]
IDS_ALL = ["foo", "arg", "size_t", "std", "string", "vector", "Class1", "T", "TypeID", "Color"]
IDS_QUICK = ["foo", "arg", "size_t", "std", "string", "vector", "Class1", "T"]


def alphabet(tier):
    a = list(PUNCT) + list(KEYWORDS)
    ts = TYPE_SPEC_QUICK if tier == "quick" else TYPE_SPEC_ALL
    st = STORAGE_QUICK if tier == "quick" else STORAGE_ALL
    ids = IDS_QUICK if tier == "quick" else IDS_ALL
    a += [("TYPE_SPECIFIER", v) for v in ts]
    a += [("TYPE_QUALIFIER", v) for v in QUALS]
    a += [("STORAGE_CLASS", v) for v in st]
    a += [("ID", v) for v in ids]
    return a


class Alphabet(object):
    def __init__(self, pairs):
        self.pairs = list(pairs)
        self.by_typ = {}
        for i, (t, v) in enumerate(self.pairs):
            self.by_typ.setdefault(t, []).append(i)

    def __len__(self):
        return len(self.pairs)

    def typ_term(self, k, typ):
        idx = self.by_typ.get(typ)
        if not idx:
            return False
        # contiguous ranges
        terms = []
        i = 0
        while i < len(idx):
            j = i
            while j + 1 < len(idx) and idx[j + 1] == idx[j] + 1:
                j += 1
            terms.append(k == idx[i] if i == j else z3.And(k >= idx[i], k <= idx[j]))
            i = j + 1
        return terms[0] if len(terms) == 1 else z3.Or(terms)


class SymKind(object):
    """Token kind: compared with == against kind names (branches); never hashed."""
    __slots__ = ("tok",)

    def __init__(self, tok):
        self.tok = tok

    def __eq__(self, o):
        if isinstance(o, str):
            t = self.tok
            return t.e.branch(t.alpha.typ_term(t.k, o))
        if isinstance(o, SymKind):
            raise Unsupported("SymKind == SymKind")
        return False

    def __ne__(self, o):
        return not self.__eq__(o)

    def __hash__(self):
        raise Unsupported("hash(SymKind)")

    def __str__(self):
        # only used to build diagnostic text; kind names contain no format metacharacters
        return "<KIND>"

    __repr__ = __str__

    def __format__(self, spec):
        return "<KIND>"


class SymTok(object):
    """Token with symbolic index k into the alphabet.  .value realises the token."""
    __slots__ = ("e", "alpha", "k", "typ", "line", "column", "_idx")

    def __init__(self, e, alpha, k, column):
        self.e, self.alpha, self.k = e, alpha, k
        self.typ = SymKind(self)
        self.line = 1
        self.column = column
        self._idx = None

    def realize(self):
        if self._idx is not None:
            return self._idx
        self._idx = self.e.choose(self.k)
        return self._idx

    @property
    def value(self):
        return self.alpha.pairs[self.realize()][1]

    def __iter__(self):
        # namedtuple-like unpacking is not used by the parser
        raise Unsupported("iter(SymTok)")


class ConcTok(object):
    __slots__ = ("typ", "value", "line", "column")

    def __init__(self, typ, value, column):
        self.typ, self.value, self.line, self.column = typ, value, 1, column


def render(pairs):
    """Token spellings -> declaration text accepted by the real tokenizer as the same tokens."""
    return " ".join(v for (_, v) in pairs)


# ---------------------------------------------------------------------------- contexts
_CTX = {}


def context(name):
    """Namespaces the declarations are parsed in.  Built once per process with the real ast."""
    if name in _CTX:
        return _CTX[name]
    from shroud import ast, declast, typemap
    typemap.initialize()       # as main_with_args does, before any node is built
    lib = ast.LibraryNode()   # std::string, std::vector, size_t ...
    lib.add_declaration("typedef int TypeID")
    lib.add_declaration("enum Color { RED, BLUE }")
    cls = lib.add_declaration("class Class1")
    _CTX["lib"] = lib
    _CTX["class"] = cls
    declast.global_namespace = lib
    return _CTX[name]


def run_parser(e, alpha, prefix_pairs, n, ctx="lib", entry="decl_statement", suffix_pairs=()):
    """Drive the real Parser over prefix (concrete) + n symbolic tokens.
    Returns (node, tokens)."""
    from shroud import declast
    ns = context(ctx)
    toks = []
    col = 0
    for (t, v) in prefix_pairs:
        toks.append(ConcTok(t, v, col))
        col += len(v) + 1
    syms = []
    for i in range(n):
        k = z3.Int("k%d" % i)
        e.assume(z3.And(k >= 0, k < len(alpha)))
        st = SymTok(e, alpha, k, col)
        col += 2
        toks.append(st)
        syms.append(st)
    for (t, v) in suffix_pairs:
        toks.append(ConcTok(t, v, col))
        col += len(v) + 1
    p = declast.Parser.__new__(declast.Parser)
    p.decl = "<symbolic token stream>"
    p.namespace = ns
    p.trace = False
    p.indent = 0
    p.token = None
    p.tokenizer = iter(toks)
    p.next()
    node = getattr(p, entry)()
    return node, syms


def witness_pairs(e, alpha, prefix_pairs, n, model, suffix_pairs=()):
    out = list(prefix_pairs)
    for i in range(n):
        v = model.eval(z3.Int("k%d" % i), model_completion=True).as_long()
        out.append(alpha.pairs[v])
    out.extend(suffix_pairs)
    return out
