"""Helpers shared by the configuration-space checks C14, C15, C16 (whole-pipeline runs with
symbolic option values)."""
import glob
import os
import re

LIB_CXX = """
library: geom
cxx_header: geom.hpp
options:
  wrap_python: true
  wrap_lua: true
declarations:
- decl: namespace shapes
  declarations:
  - decl: class Circle
    declarations:
    - decl: Circle()
    - decl: ~Circle()
    - decl: double area(double scale = 1.0) const
    - decl: void setName(const std::string &name)
    - decl: const std::string & getName() const
    - decl: Circle * grow(double factor)
      return_this: true
  - decl: "class Ring : public Circle"
    declarations:
    - decl: Ring()
    - decl: double inner() const
  - decl: class Gadget
    cpp_if: ifdef HAVE_GADGET
    declarations:
    - decl: Gadget()
    - decl: int turn()
  - decl: int count(int n)
  - decl: enum Fill { SOLID = 3, DASHED }
- decl: namespace extras
  options:
    F_flatten_namespace: true
  declarations:
  - decl: enum Mark { DOT, DASH }
  - decl: int weight(int n)
- decl: const std::string getLabel()
  doxygen:
    brief: |-
      The label of the library,
      on two lines, the second of which is long and holds a tab character\tbetween two of its words.
    description: "A description whose first line is long and holds a form feed character\\fbetween two of its words, and whose last line\\nhas no line end."
    return: |-
      the label,
      also on two lines
- decl: void scale(double *v +rank(1), int n +implied(size(v)))
- decl: double widen(double v)
  fortran_generic:
  - decl: (float v)
  - decl: (double v)
- decl: enum Color { RED, BLUE }
- decl: struct Pnt { int ix; double dy; }
- decl: void countTo(int *last +intent(out))
  fstatements:
    f:
      result: num
      f_module:
        iso_c_binding: ["C_INT"]
      declare:
      - "integer(C_INT) :: num"
      post_call:
      - "num = last"
- decl: int overload(int a)
  doxygen:
    details: a field the doxygen writer does not know, alone in its mapping
- decl: int globbed(int n)
  doxygen:
    brief: counts the files matching src/*/*.c below the directory
- decl: int overload(double a)
- decl: void exfunc()
  cpp_if: ifdef USE_A
- decl: void exfunc(int flag)
  cpp_if: ifndef USE_A
"""

LIB_PLAIN = """
library: plain
language: c
patterns:
  check_positive: |
    if (SHC_rv < 0) {{ return 0; }}
declarations:
- decl: int add(int a, int b)
- decl: double half(double x)
- decl: void poke(void)
- decl: int checked(int v)
  C_error_pattern: check_positive
"""

LIB_NEST = """
library: nest
cxx_header: nest.hpp
declarations:
- decl: namespace outer
  declarations:
  - decl: namespace inner
    declarations:
    - decl: int deep(int a)
    - decl: class Leaf
      declarations:
      - decl: Leaf()
      - decl: int value() const
  - decl: namespace quick
    options:
      C_extern_C: true
    declarations:
    - decl: int twice(int n)
    - decl: double halve(double x)
- decl: int apply(int x, int (*fn)(int))
- decl: double apply(double x, double (*fn)(double))
"""

LIB_C = """
library: clib
language: c
options:
  wrap_python: true
  PY_struct_arg: class
declarations:
- decl: int add(int a, int b)
- decl: void fill(char *name +intent(out)+charlen(20))
- decl: struct Pt { int x; double y; }
- decl: double norm(const double *v +rank(1), int n +implied(size(v)))
- decl: enum Mode { OFF, ON = 4 }
"""

LIB_STR = """
library: strs
cxx_header: strs.hpp
options:
  wrap_python: true
  wrap_lua: true
declarations:
- decl: void passString(const std::string &arg1, std::string &arg2 +intent(out))
- decl: char *getChar() +len(30)
- decl: const std::string * getConstPtr() +owner(caller)
- decl: bool isSet(bool flag = true)
- decl: class Acc
  declarations:
  - decl: Acc(int start = 0)
  - decl: int get() const
  - decl: Acc *self() +owner(library)
"""

LIB_NSFIELD = """
library: nsf
cxx_header: nsf.hpp
namespace: outer work
declarations:
- decl: int first(int a)
- decl: double second(double x, int n = 2)
- decl: class Tool
  declarations:
  - decl: Tool()
  - decl: int use(int k)
"""

LIBS = {"geom": LIB_CXX, "clib": LIB_C, "strs": LIB_STR, "plain": LIB_PLAIN, "nest": LIB_NEST, "nsf": LIB_NSFIELD}


def static_is_scan(names):
    """Identity tests (`x is True/False/None`, `is not`) on values that a harness makes symbolic
    cannot be intercepted by proxies.  Parses /repo/shroud/*.py with the ast module and returns the
    offending comparisons whose left operand mentions one of the names (the harness fails closed)."""
    import ast as pyast
    bad = []
    names = set(names)
    import shroud
    for path in sorted(glob.glob(os.path.join(os.path.dirname(os.path.abspath(shroud.__file__)), "*.py"))):
        with open(path) as f:
            src = f.read()
        try:
            tree = pyast.parse(src)
        except SyntaxError:
            bad.append("%s: cannot parse" % os.path.basename(path))
            continue
        for node in pyast.walk(tree):
            if isinstance(node, pyast.Compare) and any(isinstance(op, (pyast.Is, pyast.IsNot)) for op in node.ops):
                mention = set()
                for sub in pyast.walk(node):
                    if isinstance(sub, pyast.Attribute):
                        mention.add(sub.attr)
                    elif isinstance(sub, pyast.Name):
                        mention.add(sub.id)
                    elif isinstance(sub, pyast.Constant) and isinstance(sub.value, str):
                        mention.add(sub.value)
                hit = mention & names
                if hit:
                    bad.append("%s:%d: identity comparison involving %s" % (os.path.basename(path), node.lineno, sorted(hit)))
    return bad


def language_of(fname):
    b = os.path.basename(fname)
    if b.endswith(".f"):
        return "fortran"
    if b.endswith((".py", ".yaml")):
        return "hash"
    if b.endswith((".h", ".hpp", ".c", ".cpp")):
        return "c"
    if b.endswith(".json"):
        return "json"
    return "other"


def strip_comments(fname, text):
    """Language-aware removal of comments and blank lines; returns the token list."""
    lang = language_of(fname)
    out = []
    if lang == "c":
        i, n = 0, len(text)
        buf = []
        while i < n:
            c = text[i]
            if c == '"' or c == "'":
                q = c
                j = i + 1
                while j < n and text[j] != q:
                    if text[j] == "\\":
                        j += 1
                    j += 1
                buf.append(text[i:j + 1])
                i = j + 1
            elif text.startswith("//", i):
                while i < n and text[i] != "\n":
                    i += 1
            elif text.startswith("/*", i):
                j = text.find("*/", i + 2)
                i = n if j < 0 else j + 2
                buf.append(" ")
            else:
                buf.append(c)
                i += 1
        text = "".join(buf)
    elif lang == "fortran":
        lines = []
        for ln in text.split("\n"):
            res, q = [], None
            for ch in ln:
                if q:
                    res.append(ch)
                    if ch == q:
                        q = None
                elif ch in "'\"":
                    q = ch
                    res.append(ch)
                elif ch == "!":
                    break
                else:
                    res.append(ch)
            lines.append("".join(res))
        text = "\n".join(lines)
    elif lang == "hash":
        lines = []
        for ln in text.split("\n"):
            res, q = [], None
            for ch in ln:
                if q:
                    res.append(ch)
                    if ch == q:
                        q = None
                elif ch in "'\"":
                    q = ch
                    res.append(ch)
                elif ch == "#":
                    break
                else:
                    res.append(ch)
            lines.append("".join(res))
        text = "\n".join(lines)
    return re.findall(r"[A-Za-z_0-9.]+|\"(?:[^\"\\]|\\.)*\"|'(?:[^'\\]|\\.)*'|\S", text)


def first_token_diff(a, b):
    for k, (x, y) in enumerate(zip(a, b)):
        if x != y:
            return "token %d: %r vs %r (context %r | %r)" % (k, x, y, " ".join(a[max(0, k - 6):k + 4]), " ".join(b[max(0, k - 6):k + 4]))
    if len(a) != len(b):
        k = min(len(a), len(b))
        return "token count %d vs %d (extra: %r)" % (len(a), len(b), " ".join((a if len(a) > len(b) else b)[k:k + 8]))
    return None


def file_texts(res):
    out = {}
    for name, pieces in res.files.items():
        for p in pieces:
            if not isinstance(p, str):
                raise TypeError("a proxy value was written into %s" % name)
        out[name] = "".join(pieces)
    return out
