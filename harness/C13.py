"""C13 - line wrapping never alters code and respects the line limit.

Executes the real shroud.util.WrapperMixin.write_continue / write_lines on SymStr
proxies (every character a z3 integer over the whole code-point range, linelen a
z3 integer >= 1) and decides, per path, validity queries over the path condition.
"""
import os
import re
import sys
import time

import z3

sys.path.insert(0, os.path.dirname(os.path.dirname(os.path.abspath(__file__))))
from engines.shadowsym.core import Engine, Inconclusive  # noqa: E402
from engines.shadowsym.proxies import SymChar, SymInt, SymStr, is_space_term  # noqa: E402
from engines.shadowsym import driver  # noqa: E402
from lib import checklib  # noqa: E402
from harness import cfg_common as cc  # noqa: E402

PID = "C13"
TAB, FF, CR, NL = 9, 12, 13, 10


class FP(object):
    def __init__(self):
        self.items = []

    def write(self, x):
        self.items.append(x)


def physical_lines(items):
    """Flatten writes, split at concrete newlines.  Returns (lines, ok)."""
    flat = []
    for it in items:
        if isinstance(it, str):
            flat.extend(it)
        elif isinstance(it, SymStr):
            flat.extend(it.c)
        elif isinstance(it, SymChar):
            flat.append(it)
        else:
            return None, "non-string written: %r" % (type(it),)
    lines = []
    cur = []
    for ch in flat:
        if isinstance(ch, str) and ch == "\n":
            lines.append(cur)
            cur = []
        else:
            cur.append(ch)
    if cur:
        return None, "output does not end with a newline"
    return lines, None


def split_line(pl, cont, verbatim=False):
    """pl: list of chars of one physical line -> (prefix str, payload symchars, tail str) or error."""
    i = 0
    while i < len(pl) and isinstance(pl[i], str):
        i += 1
    j = len(pl)
    while j > i and isinstance(pl[j - 1], str):
        j -= 1
    mid = pl[i:j]
    if any(isinstance(c, str) for c in mid):
        return None
    return "".join(pl[:i]), mid, "".join(pl[j:])


class Judge(object):
    """Layout oracle shared by the write_continue and write_lines harnesses."""

    def __init__(self, e, base):
        self.e = e
        self.base = base          # list of extra assumptions (z3) for this case
        self.fail = None

    def valid(self, claim, what):
        """claim must hold for all inputs of the path (and case).  Returns True if valid."""
        if self.fail:
            return False
        if claim is True:
            return True
        if claim is False:
            r = self.e.check(*self.base)
            if r == "sat":
                self.fail = (what, self.e.model(*self.base))
                return False
            return True
        r = self.e.check(z3.Not(claim), *self.base)
        if r == "sat":
            self.fail = (what, self.e.model(z3.Not(claim), *self.base))
            return False
        return True


def check_continue(J, payload, plines, ind_first, ind_cont_term, unit, cont, linelen_z):
    """payload: list of SymChar given to write_continue (in order).
    plines: physical lines (lists of chars).  ind_first: expected indent units of first
    line (z3 term or int); ind_cont_term: expected indent units of continuation lines.
    Returns None or (what, model)."""
    pos = {id(c): k for k, c in enumerate(payload)}
    kept_line = {}      # payload index -> physical line index
    last = -1
    n = len(plines)
    if n == 0:
        J.valid(False, "no output line")
        return
    for li, pl in enumerate(plines):
        sp = split_line(pl, cont)
        if sp is None:
            J.valid(False, "concrete characters inserted inside payload of physical line %d" % li)
            return
        prefix, mid, tail = sp
        want_tail = cont if li < n - 1 else ""
        if not mid:
            # a physical line without payload: all concrete text
            if want_tail and li > 0:
                # (a continuation line that carries nothing: '&' by itself is not a Fortran line, and in C it is a spurious
                # blank line inside a statement)
                # degenerate inputs ask for an empty line themselves and are outside the claim: two break hints side by side,
                # or a part between two hints (or a hint and an end) that is blank.  Every character is a hint, a blank or
                # neither; "a hint is followed by a hint, an end or only blanks up to the next hint" says it.
                hint = [z3.Or(c.z == TAB, c.z == FF) for c in payload]
                blank = [is_space_term(c.z) for c in payload]
                degenerate = []
                for k in range(len(payload)):
                    # the part starting after hint k (up to the next hint or the end) has no non-blank character
                    run = []
                    clause = []
                    for j in range(k + 1, len(payload) + 1):
                        ends_here = hint[j] if j < len(payload) else True
                        clause.append(z3.And(*(run + [ends_here])) if run or ends_here is not True else True)
                        if j < len(payload):
                            run = run + [z3.And(blank[j], z3.Not(hint[j]))]
                    degenerate.append(z3.And(hint[k], z3.Or(clause)))
                if not J.valid(z3.Or(degenerate) if degenerate else False, "continuation line %d holds only the continuation marker" % li):
                    return
            full = prefix + tail
            if want_tail:
                if not full.endswith(want_tail):
                    J.valid(False, "broken line %d does not end with the continuation marker" % li)
                    return
                full = full[:len(full) - len(want_tail)]
            lead = full
        else:
            if tail != want_tail:
                if want_tail and not tail.endswith(want_tail):
                    J.valid(False, "broken line %d does not end with the continuation marker" % li)
                else:
                    J.valid(False, "unexpected text %r after payload on line %d" % (tail, li))
                return
            lead = prefix
        if lead.strip(" ") != "" or (len(unit) and len(lead) % len(unit)):
            J.valid(False, "indentation of line %d is not a multiple of the unit: %r" % (li, lead))
            return
        units = len(lead) // len(unit)
        want = ind_first if li == 0 else ind_cont_term
        if not J.valid(units == want if not isinstance(want, int) else (units == want),
                       "indentation of physical line %d is %d units" % (li, units)):
            return
        for c in mid:
            k = pos.get(id(c))
            if k is None:
                J.valid(False, "a character that is not part of the logical line was emitted")
                return
            if k <= last:
                J.valid(False, "payload characters duplicated or reordered (index %d after %d)" % (k, last))
                return
            last = k
            kept_line[k] = li
        # length limit
        total = len(lead) + len(mid)
        if len(mid) >= 2:
            ks = [pos[id(c)] for c in mid]
            interior = [k for k in range(ks[0] + 1, ks[-1]) if k not in kept_line]
            if interior:
                # an interior hint exists on this line -> the line has >= 2 parts
                hint_inside = z3.Or([z3.Or(payload[k].z == TAB, payload[k].z == FF) for k in interior])
                if not J.valid(z3.Implies(hint_inside, total <= linelen_z),
                               "physical line %d is %d long, longer than linelen, although it contains a break point" % (li, total)):
                    return
    kept = sorted(kept_line)
    # kept characters are never directive characters
    for k in kept:
        if not J.valid(z3.And(payload[k].z != TAB, payload[k].z != FF),
                       "a tab/form-feed break hint was emitted as text (index %d)" % k):
            return
    # dropped characters are justified
    for k in range(len(payload)):
        if k in kept_line:
            continue
        before = [q for q in kept if q < k]
        after = [q for q in kept if q > k]
        lb = kept_line[before[-1]] if before else 0
        la = kept_line[after[0]] if after else n - 1
        z = payload[k].z
        hint = z3.Or(z == TAB, z == FF)
        if la > lb:
            ok = z3.Or(hint, is_space_term(z))
        else:
            ok = hint
        if not J.valid(ok, "payload character %d was removed from the text" % k):
            return
    # breaks only at break points
    for a, b in zip(kept, kept[1:]):
        if kept_line[a] != kept_line[b]:
            gap = range(a + 1, b)
            if not gap:
                J.valid(False, "line broken between characters %d and %d with no break point" % (a, b))
                return
            has_hint = z3.Or([z3.Or(payload[k].z == TAB, payload[k].z == FF) for k in gap])
            if not J.valid(has_hint, "line broken between characters %d and %d with no break point" % (a, b)):
                return
    if kept and kept_line[kept[0]] > 0:
        gap = range(0, kept[0])
        has_hint = z3.Or([z3.Or(payload[k].z == TAB, payload[k].z == FF) for k in gap]) if gap else False
        if not J.valid(has_hint, "line broken before the first character with no break point"):
            return
    if kept and kept_line[kept[-1]] < n - 1:
        gap = range(kept[-1] + 1, len(payload))
        has_hint = z3.Or([z3.Or(payload[k].z == TAB, payload[k].z == FF) for k in gap]) if gap else False
        if not J.valid(has_hint, "line broken after the last character with no break point"):
            return
    if not kept and n > 1:
        has_hint = z3.Or([z3.Or(c.z == TAB, c.z == FF) for c in payload]) if payload else False
        if not J.valid(has_hint, "line broken with no break point"):
            return


def make_mixin(indent, cont, linelen):
    from shroud import util

    class W(util.WrapperMixin):
        pass

    w = W()
    w.linelen = linelen
    w.indent = indent
    w.cont = cont
    return w


class ContinueHarness(object):
    """write_continue(line) for |line| = n, every char symbolic, linelen symbolic."""

    def __init__(self, n, indent, cont, unit, twin=False):
        self.n, self.indent, self.cont, self.unit, self.twin = n, indent, cont, unit, twin

    def run(self, e):
        self.zs = [z3.Int("c%d" % i) for i in range(self.n)]
        for z in self.zs:
            e.assume(z3.And(z >= 1, z <= 0x10FFFF, z != NL))
        self.chars = [SymChar(e, z) for z in self.zs]
        self.ll = z3.Int("linelen")
        e.assume(self.ll >= 1)
        w = make_mixin(self.indent, self.cont, SymInt(e, self.ll))
        fp = FP()
        w.write_continue(fp, SymStr(e, self.chars), self.unit)
        return fp.items

    def witness(self, m):
        line = "".join(chr(m.eval(z, model_completion=True).as_long()) for z in self.zs)
        return {"kind": "write_continue", "line": line,
                "linelen": m.eval(self.ll, model_completion=True).as_long(),
                "indent": self.indent, "cont": self.cont, "unit": self.unit}

    def judge(self, e, kind, value):
        if kind == "exc":
            m = e.model()
            w = self.witness(m)
            w["what"] = "exception %s: %s" % (type(value).__name__, value)
            return {"cls": "exception:" + type(value).__name__, "violation": w}
        plines, err = physical_lines(value)
        J = Judge(e, [])
        if err:
            J.valid(False, err)
        else:
            c0 = self.zs[0]
            for is_cr in (True, False):
                J.base = [c0 == CR] if is_cr else [c0 != CR]
                if e.check(*J.base) != "sat":
                    continue
                payload = self.chars[1:] if is_cr else self.chars
                extra = 2 if is_cr else 1
                # a dropped leading CR is a directive; a kept one would show up as "not part of payload"
                check_continue(J, payload, plines, self.indent, self.indent + extra, self.unit,
                               self.cont, self.ll)
                if J.fail:
                    break
        if self.twin and not J.fail:
            J.base = []
            J.valid(False, "reachability twin")
        cls = "lines=%d" % (len(plines) if plines else 0)
        if J.fail:
            what, m = J.fail
            w = self.witness(m)
            w["what"] = what
            return {"cls": cls, "violation": w}
        m = e.model()
        w = self.witness(m)
        return {"cls": cls, "sample": w, "counters": {"validated": validate_plain(w, value, m)}}


class LinesHarness(object):
    """write_lines([line, "x"]) with |line| = n symbolic; the trailing "x" observes the
    indentation state the directive leaves behind."""

    def __init__(self, n, indent, cont, unit, twin=False):
        self.n, self.indent, self.cont, self.unit, self.twin = n, indent, cont, unit, twin

    def run(self, e):
        self.zs = [z3.Int("c%d" % i) for i in range(self.n)]
        for z in self.zs:
            e.assume(z3.And(z >= 1, z <= 0x10FFFF, z != NL))
        self.chars = [SymChar(e, z) for z in self.zs]
        self.ll = z3.Int("linelen")
        e.assume(self.ll >= 1)
        # domain: payload after the directive characters is non-empty (see DESIGN C13)
        e.assume(self.domain())
        w = make_mixin(self.indent, self.cont, SymInt(e, self.ll))
        fp = FP()
        w.write_lines(fp, [SymStr(e, self.chars), "x"], self.unit)
        return fp.items

    def cases(self):
        """Partition of the domain: (name, condition, mode, payload slice, indent delta, after delta)."""
        z = self.zs
        n = self.n
        o = lambda ch: ord(ch)
        out = []
        notdir0 = z3.And([z[0] != o(c) for c in "#@^+-"])
        out.append(("hash", z[0] == o("#"), "verbatim", (0, n), None, 0))
        out.append(("caret", z[0] == o("^"), "verbatim", (1, n), None, 0))
        if n >= 2:
            out.append(("at", z[0] == o("@"), "cont", (1, n), 0, 0))
            out.append(("plus", z3.And(z[0] == o("+"), z[n - 1] != o("-")), "cont", (1, n), 1, 1))
        if n >= 3:
            out.append(("plus-minus", z3.And(z[0] == o("+"), z[n - 1] == o("-")), "cont", (1, n - 1), 1, 0))
        for m in range(0, n):
            lead = z3.And([z[i] == o("-") for i in range(m)] + [z[m] != o("-")])
            if m == 0:
                lead = notdir0
            # trailing '+' only a directive if something remains
            if n - 1 > m:
                out.append(("minus%d-plus" % m, z3.And(lead, z[n - 1] == o("+")), "cont", (m, n - 1), -m, -m + 1))
            if n - 1 > m:
                out.append(("minus%d" % m, z3.And(lead, z[n - 1] != o("+")), "cont", (m, n), -m, -m))
            else:
                out.append(("minus%d" % m, z3.And(lead, z[n - 1] != o("+")), "cont", (m, n), -m, -m))
        return out

    def domain(self):
        z = self.zs
        n = self.n
        o = lambda ch: ord(ch)
        bad = []
        # only-directive lines (empty payload) are outside the claim
        if n == 1:
            bad.append(z3.Or([z[0] == o(c) for c in "@+-"]))
        if n == 2:
            bad.append(z3.And(z[0] == o("+"), z[1] == o("-")))
        bad.append(z3.And([z[i] == o("-") for i in range(n)]))
        bad.append(z3.And([z[i] == o("-") for i in range(n - 1)] + [z[n - 1] == o("+")]))
        return z3.Not(z3.Or(bad))

    def witness(self, m):
        line = "".join(chr(m.eval(z, model_completion=True).as_long()) for z in self.zs)
        return {"kind": "write_lines", "lines": [line, "x"],
                "linelen": m.eval(self.ll, model_completion=True).as_long(),
                "indent": self.indent, "cont": self.cont, "unit": self.unit}

    def judge(self, e, kind, value):
        if kind == "exc":
            m = e.model()
            w = self.witness(m)
            w["what"] = "exception %s: %s" % (type(value).__name__, value)
            return {"cls": "exception:" + type(value).__name__, "violation": w}
        plines, err = physical_lines(value)
        J = Judge(e, [])
        ncase = 0
        if err:
            J.valid(False, err)
        elif not plines or plines[-1] != list(self.unit * 0) + [c for c in plines[-1]]:
            J.valid(False, "no output")
        else:
            xl = plines[-1]
            body = plines[:-1]
            for name, cond, mode, (a, b), d_ind, d_after in self.cases():
                J.base = [cond]
                if e.check(cond) != "sat":
                    continue
                ncase += 1
                # observer line: "x" at indent + d_after
                xs = "".join(c for c in xl if isinstance(c, str))
                if len(xs) != len(xl) or not xs.endswith("x") or xs[:-1].strip(" ") != "" \
                        or len(xs[:-1]) != len(self.unit) * (self.indent + d_after):
                    J.valid(False, "case %s: indentation after the line is %r, expected %d units"
                            % (name, xs[:-1], self.indent + d_after))
                    break
                payload = self.chars[a:b]
                if mode == "verbatim":
                    flat = [c for pl in body for c in pl]
                    if len(body) != 1 or len(flat) != len(payload) or any(x is not y for x, y in zip(flat, payload)):
                        J.valid(False, "case %s: column-one line not emitted verbatim" % name)
                        break
                else:
                    z0 = payload[0].z
                    base = J.base
                    for is_cr in (True, False):
                        J.base = base + ([z0 == CR] if is_cr else [z0 != CR])
                        if e.check(*J.base) != "sat":
                            continue
                        pl2 = payload[1:] if is_cr else payload
                        check_continue(J, pl2, body, self.indent + d_ind,
                                       self.indent + d_ind + (2 if is_cr else 1),
                                       self.unit, self.cont, self.ll)
                        if J.fail:
                            break
                    if J.fail:
                        J.fail = ("case %s: %s" % (name, J.fail[0]), J.fail[1])
                        break
            if ncase == 0 and not J.fail:
                J.base = []
                J.valid(False, "no directive case matches (oracle partition incomplete)")
        if self.twin and not J.fail:
            J.base = []
            J.valid(False, "reachability twin")
        cls = "lines=%d" % (len(plines) if plines else 0)
        if J.fail:
            what, m = J.fail
            w = self.witness(m)
            w["what"] = what
            return {"cls": cls, "violation": w}
        m = e.model()
        w = self.witness(m)
        return {"cls": cls, "sample": w, "counters": {"validated": validate_plain(w, value, m)}}


class MultiLinesHarness(object):
    """An entry of the list that holds several lines (joined by newlines) is the sequence of its lines: write_lines on
    [a + NL + b, "x"] must write what write_lines on [a, b, "x"] writes (the single-line kernel decides what that is).
    Both runs are the real function; every character of a and b is symbolic."""

    def __init__(self, n1, n2, indent, cont, unit, twin=False):
        self.n1, self.n2, self.indent, self.cont, self.unit, self.twin = n1, n2, indent, cont, unit, twin

    def run(self, e):
        self.zs = [z3.Int("c%d" % i) for i in range(self.n1 + self.n2)]
        for z in self.zs:
            e.assume(z3.And(z >= 1, z <= 0x10FFFF, z != NL))
        # directive-only lines are outside the claim (as in the single-line kernel): the lines begin with no '-' or '+'
        # and do not end in '+' / '-'; '^', '#', '@' directives are inside
        for grp in (self.zs[:self.n1], self.zs[self.n1:]):
            e.assume(z3.And([grp[0] != ord(c) for c in "+-"]))
            e.assume(z3.And([grp[-1] != ord(c) for c in "+-"]))
            if len(grp) == 1:
                e.assume(grp[0] != ord("@"))
        a = [SymChar(e, z) for z in self.zs[:self.n1]]
        b = [SymChar(e, z) for z in self.zs[self.n1:]]
        self.ll = z3.Int("linelen")
        e.assume(self.ll >= 1)
        nlz = z3.Int("newline_char")
        e.assume(nlz == NL)
        out = []
        for lines in ([SymStr(e, a + [SymChar(e, nlz)] + b), "x"], [SymStr(e, a), SymStr(e, b), "x"]):
            w = make_mixin(self.indent, self.cont, SymInt(e, self.ll))
            fp = FP()
            w.write_lines(fp, lines, self.unit)
            out.append(fp.items)
        return out

    def witness(self, m):
        s = "".join(chr(m.eval(z, model_completion=True).as_long()) for z in self.zs)
        return {"kind": "multi", "lines": [s[:self.n1] + "\n" + s[self.n1:], "x"],
                "linelen": m.eval(self.ll, model_completion=True).as_long(),
                "indent": self.indent, "cont": self.cont, "unit": self.unit}

    def judge(self, e, kind, value):
        if kind == "exc":
            w = self.witness(e.model())
            w["what"] = "exception %s: %s" % (type(value).__name__, value)
            return {"cls": "multi/exception:" + type(value).__name__, "violation": w}
        flat = []
        for items in value:
            f = []
            for it in items:
                if isinstance(it, str):
                    f.extend(z3.IntVal(ord(c)) for c in it)
                elif isinstance(it, SymStr):
                    f.extend((c.z if hasattr(c, "z") else z3.IntVal(ord(c))) for c in it.c)
                else:
                    f.append(it.z)
            flat.append(f)
        what = None
        if len(flat[0]) != len(flat[1]):
            what = "a two-line entry writes %d characters, its two lines as separate entries write %d" % (len(flat[0]), len(flat[1]))
        elif flat[0] and e.check(z3.Or([x != y for x, y in zip(flat[0], flat[1])])) == "sat":
            what = "a two-line entry is not written as its two lines are"
        if self.twin and not what:
            what = "reachability twin"
        if what:
            w = self.witness(e.model())
            w["what"] = what
            return {"cls": "multi", "violation": w}
        return {"cls": "multi/ok", "sample": self.witness(e.model())}


def make_multi(**kw):
    return MultiLinesHarness(**kw)


def confirm_multi(w):
    """plain strings through the real function, both ways"""
    outs = []
    for lines in (w["lines"], w["lines"][0].split("\n") + w["lines"][1:]):
        o, exc = plain_run(dict(w, kind="write_lines", lines=lines))
        outs.append(("exception %s" % type(exc).__name__) if exc is not None else o)
    if outs[0] != outs[1]:
        return "%s: %r vs %r" % (w.get("what"), outs[0][:120], outs[1][:120])
    return None


def make_continue(**kw):
    return ContinueHarness(**kw)


def make_lines(**kw):
    return LinesHarness(**kw)


def render_items(items, m):
    txt = []
    for it in items:
        if isinstance(it, str):
            txt.append(it)
        elif isinstance(it, SymStr):
            txt.append(it.concrete(m))
        else:
            txt.append(chr(m.eval(it.z, model_completion=True).as_long()))
    return "".join(txt)


def validate_plain(w, items, m):
    """Translator validation: the real function on the plain witness string must write exactly the
    text the proxy run wrote (rendered under the same model)."""
    out, exc = plain_run(w)
    if exc is not None or out != render_items(items, m):
        raise AssertionError("proxy run and plain run disagree on %r: %r vs %r" % (w, out, render_items(items, m)))
    return 1


# ----------------------------------------------------------------------------- replay
def plain_run(w):
    """The real function on plain str values: no proxy, no engine."""
    mix = make_mixin(w["indent"], w["cont"], w["linelen"])
    fp = FP()
    try:
        if w["kind"] == "write_continue":
            mix.write_continue(fp, w["line"], w["unit"])
        else:
            mix.write_lines(fp, w["lines"], w["unit"])
    except Exception as ex:
        return None, ex
    return "".join(fp.items), None


def confirm(w):
    """Confirm a solver witness on the real code.  Returns (verdict_text|None, plain_output).

    The code under test is run on plain strings.  The layout clauses need to know which
    output character came from which input character, so the same input is also run with
    every symbolic variable pinned to the witness value (a single concrete path); that
    run's rendered output must be byte-identical to the plain run's output, otherwise the
    witness is rejected as non-reproducing."""
    out, exc = plain_run(w)
    if exc is not None:
        return "exception %s: %s" % (type(exc).__name__, exc), None
    kind = w["kind"]
    line = w["line"] if kind == "write_continue" else w["lines"][0]
    n = len(line)
    Hcls = ContinueHarness if kind == "write_continue" else LinesHarness
    h = Hcls(n, w["indent"], w["cont"], w["unit"])
    res = {}

    def pinned(e):
        for i, ch in enumerate(line):
            e.assume(z3.Int("c%d" % i) == ord(ch))
        e.assume(z3.Int("linelen") == w["linelen"])
        return h.run(e)

    def cb(e, kind_, value):
        res["j"] = h.judge(e, kind_, value)
        if kind_ == "ok":
            m = e.model()
            txt = []
            for it in value:
                txt.append(it if isinstance(it, str) else
                           (it.concrete(m) if isinstance(it, SymStr) else chr(m.eval(it.z, model_completion=True).as_long())))
            res["text"] = "".join(txt)

    Engine().explore(pinned, cb)
    if res.get("text") != out:
        return None, out
    v = res.get("j", {}).get("violation")
    return (v["what"] if v else None), out


def replay(path):
    import json
    with open(path) as f:
        w = json.load(f)
    if w.get("kind") == "files":
        verdict = confirm_files(w)
        print("configuration: name_length=%(name_length)s C_line_length=%(C_line_length)s F_line_length=%(F_line_length)s" % w)
        print("verdict: %s" % (verdict or "property holds on this input"))
        return verdict
    if w.get("kind") == "multi":
        verdict = confirm_multi(w)
        print("input  : %r linelen=%s indent=%s cont=%r unit=%r" % (w["lines"], w["linelen"], w["indent"], w["cont"], w["unit"]))
        print("verdict: %s" % (verdict or "property holds on this input"))
        return verdict
    verdict, out = confirm(w)
    print("input  : %r linelen=%s indent=%s cont=%r unit=%r"
          % (w.get("line", w.get("lines")), w["linelen"], w["indent"], w["cont"], w["unit"]))
    print("output : %r" % (out,))
    print("verdict: %s" % (verdict or "property holds on this input"))
    return verdict


# ----------------------------------------------------------------------------- whole generated files
LEN_CONFIGS = [(72, 72), (120, 72), (72, 120), (40, 60)]
NAME_LENGTHS = [8, 20, 31]
_LONG = "accumulate_field_values_of_the_grid_and_more"
_LONGC = "VeryLongClassNameForTestingPurposesWithPlenty"


def long_library(n, cl, fl):
    nm, cn = _LONG[:n], _LONGC[:n]
    return {"library": "lin", "cxx_header": "lin.hpp",
            # with the shortest identifiers a long C prefix instead: it enters the bind(C) names of the helpers Shroud adds
            "format": ({"C_prefix": "ocean_circulation_model_v2_"} if n <= 8 else {}),
            "options": {"wrap_python": True, "wrap_lua": True, "C_line_length": cl, "F_line_length": fl},
            "declarations": [
                {"decl": "class %s" % cn, "declarations": [
                    {"decl": "%s()" % cn},
                    {"decl": "int %s(int first_argument_name, double second_argument_name = 1.0, int third_argument_name = 2, "
                             "int fourth_argument_name = 3, int fifth_argument_name = 4)" % nm},
                    {"decl": "void %s_b(const std::string &text_argument_name, int *output_argument_name +intent(out))" % nm}]},
                {"decl": "double %s(const double *values_argument_name +rank(1), int count_argument_name +implied(size(values_argument_name)), "
                         "const std::string &label_argument_name)" % nm},
                {"decl": "int %s(int only_argument_name)" % nm},
                {"decl": "int %s_cb(int (*callback_argument_name)(int first_callback_parameter_name_that_is_long, "
                         "double second_callback_parameter_name_long, int third_callback_parameter_name_is_long, "
                         "int fourth_callback_parameter_name_long), int count_argument_name)" % nm},
                {"decl": "void %s_g(double first_value, double second_value)" % nm,
                 "fortran_generic": [{"decl": "(float first_value, float second_value)"}, {"decl": "(double first_value, double second_value)"}]},
            ] + [dict(d, options={"wrap_python": False, "wrap_lua": False}) for d in [
                # one declaration per family of argument / result statements, each with a long argument name
                {"decl": "void %s_v1(std::vector<int> &vector_argument_name_that_is_long +intent(out))" % nm},
                {"decl": "void %s_v2(std::vector<int> &vector_argument_name_that_is_long +intent(inout))" % nm},
                {"decl": "void %s_v3(std::vector<int> &vector_argument_name_that_is_long +intent(out)+deref(allocatable))" % nm},
                {"decl": "void %s_v4(std::vector<int> &vector_argument_name_that_is_long +intent(inout)+deref(allocatable))" % nm},
                {"decl": "int %s_v5(const std::vector<double> &vector_argument_name_that_is_long)" % nm},
                {"decl": "void %s_s1(std::string &string_argument_name_that_is_long +intent(inout))" % nm},
                {"decl": "void %s_s2(std::string &string_argument_name_that_is_long +intent(out))" % nm},
                {"decl": "void %s_c1(char *character_argument_name_that_is_long +intent(out)+charlen(40))" % nm},
                {"decl": "void %s_c2(char **names_argument_name_that_is_long +intent(in))" % nm},
                {"decl": "bool %s_b1(bool *logical_argument_name_that_is_long +intent(inout))" % nm},
                {"decl": "int *%s_p1(int *count_argument_name_that_is_long +intent(out)+hidden) +dimension(count_argument_name_that_is_long)" % nm},
                {"decl": "int *%s_p2(int *count_argument_name_that_is_long +intent(out)+hidden) "
                         "+dimension(count_argument_name_that_is_long)+deref(pointer)+owner(caller)" % nm},
                {"decl": "const std::string %s_r1(int selector_argument_name_that_is_long)" % nm},
                {"decl": "const std::string &%s_r2(int selector_argument_name_that_is_long) +deref(allocatable)" % nm},
                {"decl": "int %s_pu(int selector_argument_name_that_is_long, double weight_argument_name_that_is_long) +pure" % nm},
                {"decl": "void %s_b2(bool logical_argument_name_that_is_long, bool *result_argument_name_that_is_long +intent(out))" % nm},
                {"decl": "void %s_mt(int8_t a1, int16_t a2, int32_t a3, int64_t a4, uint8_t a5, uint16_t a6, uint32_t a7, uint64_t a8, float a9, "
                         "double a10, long a11, long long a12, size_t a13, bool a14, short a15, const std::string &name_argument)" % nm},
                {"decl": "void %s_a1(int *array_argument_name_that_is_long +intent(out)+dimension(extent_argument_name_long), int extent_argument_name_long)" % nm},
            ]]}


def file_kind(f):
    b = os.path.basename(f)
    if b.endswith(".f"):
        return "fortran"
    if b.endswith((".h", ".hpp", ".c", ".cpp")):
        return "c-family"
    return None


class FilesHarness(object):
    """Whole pipeline on a library with long identifiers; the engine picks the identifier length and the
    (C_line_length, F_line_length) pair.  (1) no non-comment Fortran line is longer than 132 columns;
    (2) the Fortran files depend on F_line_length only and the C-family files on C_line_length only
    (each emitter wraps at ITS configured length)."""

    def __init__(self, twin=False):
        self.twin = twin

    def run(self, e):
        from gen import pipeline
        vi, vj = z3.Int("name_length_choice"), z3.Int("line_length_choice")
        e.assume(z3.And(vi >= 0, vi < len(NAME_LENGTHS), vj >= 0, vj < len(LEN_CONFIGS)))
        self.n = NAME_LENGTHS[e.choose(vi)]
        self.cl, self.fl = LEN_CONFIGS[e.choose(vj)]
        run_ = lambda cl, fl: {f: "".join(p) for f, p in pipeline.run(long_library(self.n, cl, fl)).files.items()}
        return run_(self.cl, self.fl), run_(72, self.fl), run_(self.cl, 72), run_(WIDE, WIDE)

    def witness(self, what):
        return {"kind": "files", "name_length": self.n, "C_line_length": self.cl, "F_line_length": self.fl, "what": what}

    def judge(self, e, kind, value):
        cls = "files"
        if kind == "exc":
            return {"cls": cls, "violation": self.witness("exception %s: %s" % (type(value).__name__, str(value)[:200])), "vkey": "files:exc"}
        fail = files_verdict(value, self.cl, self.fl)
        if self.twin and not fail:
            fail = "reachability twin"
        if fail:
            return {"cls": cls, "violation": self.witness(fail), "vkey": "files:" + re.sub(r"\d+", "N", fail)[:60]}
        return {"cls": cls, "sample": self.witness(None)}


WIDE = 100000        # a line length at which nothing is ever broken


def fortran_statements(text):
    """The statements of a free-form Fortran file as a Fortran processor reads them: the comment is cut from every line
    (character literals respected), comment and blank lines are dropped - also between a continued line and its
    continuation, where the standard lets them stand -, a line ending in & goes on with the next remaining line (a leading
    & there is dropped), blanks are removed (they are insignificant at break points and the two layouts put them
    differently)."""
    lines = []
    for ln in text.split("\n"):
        if ln.startswith("#"):
            lines.append(ln.strip())          # preprocessor line
            continue
        out, q = [], None
        for ch in ln:
            if q:
                out.append(ch)
                if ch == q:
                    q = None
            elif ch in "'\"":
                q = ch
                out.append(ch)
            elif ch == "!":
                break
            else:
                out.append(ch)
        t = "".join(out).strip()
        if t:
            lines.append(t)
    stmts, cur = [], None
    for t in lines:
        if cur is not None:
            if t.startswith("#"):
                stmts.append(cur + " <continued into a preprocessor line>")
                cur = None
            else:
                t = t[1:] if t.startswith("&") else t
                t = cur + t
                cur = None
        if t.endswith("&") and not t.startswith("#"):
            cur = t[:-1]
            continue
        stmts.append(t if t.startswith("#") else "".join(t.split()))
    if cur is not None:
        stmts.append(cur + " <continued past the end>")
    return stmts


def c_family_tokens(f, text):
    return cc.strip_comments(f, text)


def files_verdict(value, cl, fl):
    got, same_f, same_c, wide = value
    for f, t in sorted(got.items()):
        bad = [c for c in t if ord(c) < 32 and c != "\n"]
        if bad:
            k = t.index(bad[0])
            return "%s holds the control character %r (a layout directive written into the text): %r" % (
                os.path.basename(f), bad[0], t[max(0, k - 30):k + 20])
    # the code does not depend on where lines are broken: the statements a Fortran processor reads (the token stream of a
    # C-family file) are those of the same run with a line length at which nothing is broken
    for f, t in sorted(got.items()):
        k = file_kind(f)
        if f not in wide:
            return "%s is written at the line lengths (%d, %d) but not at unlimited length" % (os.path.basename(f), cl, fl)
        if k == "fortran":
            a, b = fortran_statements(t), fortran_statements(wide[f])
            if a != b:
                i = next((j for j in range(min(len(a), len(b))) if a[j] != b[j]), min(len(a), len(b)))
                return "%s read as Fortran differs from the unbroken file at statement %d: %r vs %r" % (
                    os.path.basename(f), i, (a[i] if i < len(a) else None), (b[i] if i < len(b) else None))
        elif k == "c-family":
            if c_family_tokens(f, t) != c_family_tokens(f, wide[f]):
                return "%s: the code (comments removed, blanks ignored) differs from the unbroken file" % os.path.basename(f)
    for f, t in sorted(got.items()):
        if file_kind(f) == "fortran":
            for k, ln in enumerate(t.split("\n")):
                if len(ln) > 132 and not ln.lstrip().startswith("!"):
                    return "%s line %d is %d columns long (Fortran allows 132): %r" % (os.path.basename(f), k + 1, len(ln), ln[:60])
    for f, t in sorted(got.items()):
        k = file_kind(f)
        if k == "fortran" and same_f.get(f) != t:
            return "%s changes with C_line_length (%d vs 72) although F_line_length is %d in both runs" % (os.path.basename(f), cl, fl)
        if k == "c-family" and same_c.get(f) != t:
            return "%s changes with F_line_length (%d vs 72) although C_line_length is %d in both runs" % (os.path.basename(f), fl, cl)
    return None


def make_files(**kw):
    return FilesHarness(**kw)


def confirm_files(w):
    from gen import pipeline
    run_ = lambda cl, fl: {f: "".join(p) for f, p in pipeline.run(long_library(w["name_length"], cl, fl)).files.items()}
    return files_verdict((run_(w["C_line_length"], w["F_line_length"]), run_(72, w["F_line_length"]), run_(w["C_line_length"], 72), run_(WIDE, WIDE)),
                         w["C_line_length"], w["F_line_length"])


# ----------------------------------------------------------------------------- main
def configs(tier):
    if tier == "quick":
        nmax_c, nmax_l = 6, 5
        cfgs = [(1, "&", "    "), (0, "", " "), (2, "&", " ")]
    else:
        nmax_c, nmax_l = 8, 7
        cfgs = [(0, "", "    "), (1, "&", "    "), (2, "&", " "), (3, "", " "), (0, "&", " ")]
    return nmax_c, nmax_l, cfgs


def main():
    tier, seed, rp = checklib.tier_and_seed()
    if rp:
        v = replay(rp)
        if v:
            print("VIOLATION property=%s replay=%s" % (PID, rp))
        return 1 if v else 0
    rep = checklib.Report(PID)
    nmax_c, nmax_l, cfgs = configs(tier)
    total = driver.Acc()
    runs = []
    budget = 240 if tier == "quick" else 3000
    t_end = time.time() + budget
    jobs = []
    for (indent, cont, unit) in cfgs:
        for n in range(1, nmax_c + 1):
            jobs.append(("make_continue", dict(n=n, indent=indent, cont=cont, unit=unit)))
        for n in range(1, nmax_l + 1):
            jobs.append(("make_lines", dict(n=n, indent=indent + nmax_l, cont=cont, unit=unit)))
    # vacuity twins (small): must report a violation on every path
    twin_ok = True
    for fac, kw in (("make_continue", dict(n=2, indent=1, cont="&", unit=" ", twin=True)),
                    ("make_lines", dict(n=2, indent=3, cont="&", unit=" ", twin=True))):
        a = driver.explore(("harness.C13", fac, kw), nworkers=1)
        if a.inconclusive or a.nviol != a.stats.paths or a.stats.paths == 0:
            twin_ok = False
            rep.inconc("reachability twin %s did not fail on every path (%d/%d) %s"
                       % (fac, a.nviol, a.stats.paths, a.inconclusive[:1]))
    (indent0, cont0, unit0) = cfgs[0]
    for n1, n2 in ((1, 1), (2, 1), (1, 2), (2, 2)) + (((3, 2), (2, 3)) if tier != "quick" else ()):
        jobs.append(("make_multi", dict(n1=n1, n2=n2, indent=indent0 + 2, cont=cont0, unit=unit0)))
    a = driver.explore(("harness.C13", "make_multi", dict(n1=1, n2=1, indent=2, cont="&", unit=" ", twin=True)), nworkers=1)
    if a.inconclusive or a.nviol != a.stats.paths or a.stats.paths == 0:
        twin_ok = False
        rep.inconc("reachability twin make_multi did not fail on every path (%d/%d) %s" % (a.nviol, a.stats.paths, a.inconclusive[:1]))
    jobs.append(("make_files", {}))
    specs = [("harness.C13", fac, kw) for fac, kw in jobs]
    accs = driver.explore_many(specs, split_depth=7, time_budget_s=budget)
    for (fac, kw), a in zip(jobs, accs):
        runs.append({"harness": fac, "bounds": kw, "paths": a.stats.paths, "queries": a.stats.queries,
                     "solver_s": round(a.stats.solver_s, 2), "violations": a.nviol,
                     "classes": dict(a.counts)})
        total.merge(a)
        for msg in a.inconclusive:
            rep.inconc("%s %s: %s" % (fac, kw, msg))
    # confirm and report
    seen = set()
    confirmed = 0
    for i, v in enumerate(total.violations):
        key = (v["kind"], v.get("what"))
        path = checklib.write_replay(PID, "cex%03d" % i, v)
        if v["kind"] == "files":
            verdict = confirm_files(v)
            if verdict is None:
                rep.inconc("counterexample did not reproduce: %r" % (v,))
                continue
            confirmed += 1
            if key not in seen:
                seen.add(key)
                rep.violation(path, "%s  name_length=%d C_line_length=%d F_line_length=%d" % (
                    verdict, v["name_length"], v["C_line_length"], v["F_line_length"]))
            continue
        if v["kind"] == "multi":
            verdict = confirm_multi(v)
            if verdict is None:
                rep.inconc("counterexample did not reproduce on the plain run: %r" % (v,))
                continue
            confirmed += 1
            if key not in seen:
                seen.add(key)
                rep.violation(path, "%s linelen=%s indent=%s cont=%r unit=%r" % (verdict, v["linelen"], v["indent"], v["cont"], v["unit"]))
            continue
        verdict, _ = confirm(v)
        if verdict is None:
            rep.inconc("counterexample did not reproduce on the plain run: %r" % (v,))
            continue
        confirmed += 1
        if key in seen:
            continue
        seen.add(key)
        rep.violation(path, "%s on %r linelen=%s indent=%s cont=%r unit=%r" % (
            v.get("what"), v.get("line", v.get("lines")), v["linelen"], v["indent"], v["cont"], v["unit"]))
    samples = []
    for cls, lst in sorted(total.samples.items()):
        samples.extend(lst[:1])
    cov = {
        "states": total.stats.paths,
        "transitions": total.stats.decisions,
        "traces_validated_against_impl": confirmed + total.counters.get("validated", 0),
        "samples": samples[:8],
        "exhaustive": False,
        "functions_encoded": ["shroud.util.WrapperMixin.write_continue", "shroud.util.WrapperMixin.write_lines",
                              "whole pipeline on a library with long identifiers (files kernel)"],
        "bounds": {"write_continue_len_max": nmax_c, "write_lines_len_max": nmax_l,
                   "configs(indent,cont,unit)": cfgs, "chars": "every code point 1..0x10FFFF except newline",
                   "linelen": "any integer >= 1", "files_kernel_identifier_lengths": NAME_LENGTHS,
                   "files_kernel_(C_line_length,F_line_length)": LEN_CONFIGS},
        "solver": {"name": "z3 " + z3.get_version_string(), "queries": total.stats.queries,
                   "solver_s": round(total.stats.solver_s, 2)},
        "paths_reaching_assertion": total.reached,
        "reachability_twin_ok": twin_ok,
        "runs": runs,
        "explanation": "states = explored paths of the real functions (each path is a class of inputs decided by z3 "
                       "validity queries over its path condition); transitions = branch decisions.",
    }
    assumptions = [
        "logical line non-empty and free of newlines (write_lines splits on newlines first)",
        "a line consisting only of directive characters (e.g. '@', '+', '-', '+-') is outside the claim",
        "lines longer than the bound are outside the claim; linelen is unbounded above",
        "the 132-column clause over whole generated files is decided on one generated library with identifiers of 8/20/31 characters (a class with default-argument methods, array/implied/string arguments, a fortran_generic function), not on the upstream corpus",
    ]
    checklib.write_evidence(PID, tier, seed, "model_checking", cov, assumptions, rep.wall(), len(rep.violations))
    return rep.finish()


if __name__ == "__main__":
    sys.exit(main())
