"""Symbolic execution of one generated extern "C" wrapper against a nondeterministic library stub.

The wrapper's C arguments (scalars, buffer bytes, lengths, capsules) are symbolic; the wrapped
library function is a stub that records what it received and replies with unconstrained values
within its documented contract.  After the wrapper returns, a reference model derived from the
declaration alone (DESIGN.md appendix A.1/A.2) is compared with what the stub received and with
what the C caller sees.  Used by C10 (character data), C02 (call equivalence) and C06 (memory).
"""
import re

import z3

from engines.shadowsym.core import Unsupported, Inconclusive
from engines.llsym import ir, models
from engines.llsym.exec import Executor, Ptr, NULL, FuncPtr, MemViolation, PathAbort, conc, bv
from gen import cgen
from harness import ll_common as lc

BLANK = z3.BitVecVal(32, 8)
STRING_T = '%class.std::__cxx11::basic_string'


def sx(v):
    return z3.SignExt(64 - v.size(), v) if v.size() < 64 else v


def first_nul(arr, base, n):
    t = z3.BitVecVal(n, 64)
    for i in reversed(range(n)):
        t = z3.If(z3.Select(arr, base + i) == 0, z3.BitVecVal(i, 64), t)
    return t


# ---------------------------------------------------------------------------- declaration info
class CxxParam(object):
    def __init__(self, arg):
        self.name = arg.name
        tm = arg.typemap
        self.tname = tm.name
        self.base = tm.base            # 'string', 'shadow', 'vector', 'struct', ... or the sgroup
        self.sgroup = tm.sgroup
        self.nptr = arg.is_pointer()
        self.ref = bool(arg.is_reference())
        self.const = bool(arg.const)
        # the declaration's intent, derived here from the documented defaults and not taken from what Shroud
        # computed: explicit +intent wins; by value, const and function pointers are in; other pointers and
        # references are inout
        explicit = arg.attrs["intent"] if "intent" in arg.attrs else None
        if explicit:
            self.intent = explicit
        elif arg.is_function_pointer() or not (arg.is_pointer() or arg.is_reference()) or arg.const:
            self.intent = "in"
        else:
            self.intent = "inout"
        self.intent_computed = arg.metaattrs["intent"]
        self.attrs = {k: v for k, v in arg.attrs.items() if v is not None}
        self.is_char = tm.name == "char"
        self.is_string = tm.base == "string" and tm.name == "std::string"
        self.is_class = tm.base == "shadow"
        self.is_vector = tm.base == "vector"
        self.is_struct = tm.base == "struct"
        self.cxx_type = tm.cxx_type
        self.c_type = tm.c_type
        self.is_enum = tm.sgroup == "enum" if hasattr(tm, "sgroup") else False
        self.init = arg.init
        self.elem = None
        if self.is_vector and getattr(arg, "template_arguments", None):
            self.elem = arg.template_arguments[0].typemap.name

    def kind(self):
        if self.is_vector:
            return "vector"
        if self.is_string:
            return "string"
        if self.is_char and self.nptr == 1:
            return "charp"
        if self.is_char and self.nptr == 2:
            return "charpp"
        if self.is_class:
            return "class"
        if self.is_struct:
            return "struct"
        if self.nptr or self.ref:
            return "nativep"
        return "scalar"


class FnInfo(object):
    """What the declaration says about one generated C function."""

    def __init__(self, node, orig, proto, build):
        self.node, self.orig = node, orig
        self.cname = node.fmtdict.C_name
        self.ret_c, self.cparams = proto
        self.generated = node._generated
        o = orig.ast
        self.cxx_name = o.name
        self.params = [CxxParam(a) for a in (o.params or [])]
        self.is_ctor, self.is_dtor = bool(o.is_ctor()), bool(o.is_dtor())
        self.result = None
        if not self.is_ctor and not self.is_dtor and not (o.typemap.name == "void" and not o.is_pointer()):
            self.result = CxxParam(o)
            self.result.name = None
            self.result.intent = "result"
        self.result_attrs = {k: v for k, v in o.attrs.items() if v is not None}
        self.is_method = getattr(orig, "_fn_class", None) is not None
        self.cls = getattr(orig, "_fn_class", None)
        self.is_static = "static" in (o.storage or [])
        self.func_const = bool(o.func_const)

    def roles(self):
        """role of each C wrapper parameter: ('arg', p) ('len_trim', p) ('len', p) ('size', p) ('context', p) ('self',) ('result_buf',) ..."""
        byname = {p.name: p for p in self.params}
        out = []
        unmatched = []
        for k, (cty, cn) in enumerate(self.cparams):
            if cn in byname:
                out.append(("arg", byname[cn]))
            elif cn == "self" and self.is_method and k == 0:
                out.append(("self", None))
            elif cn[:1] in "LNDS" and cn[1:] in byname:
                out.append(({"L": "len_trim", "N": "len", "D": "context", "S": "size"}[cn[0]], byname[cn[1:]]))
            elif cn.startswith("SHcfi_") and "CFI_cdesc_t" in cty:
                # Fortran 2018 C descriptor (F_CFI): the argument's address and its length travel together
                out.append(("cfi", byname[cn[6:]]) if cn[6:] in byname else ("res_cfi", None))
            else:
                out.append(None)
                unmatched.append(k)
        # the unmatched ones carry the function result
        names = [self.cparams[k][1] for k in unmatched]
        for k in unmatched:
            cn = self.cparams[k][1]
            if cn[:1] in "LND" and cn[1:] in names:
                out[k] = ({"L": "res_len_trim", "N": "res_len", "D": "res_context"}[cn[0]], None)
            elif cn[:1] == "D" and "SHROUD_array" in self.cparams[k][0]:
                out[k] = ("res_context", None)
            elif "SHROUD_array" in self.cparams[k][0]:
                out[k] = ("res_context", None)
            elif cn == "SHadow_rv" or (self.result is not None and self.result.kind() == "class") or self.is_ctor:
                out[k] = ("res_capsule", None)
            else:
                out[k] = ("res_buf", None)
        return out


def collect(build):
    """FnInfo for every wrapped function of the build's library (C name -> FnInfo)."""
    protos = {}
    for n, t in build.files.items():
        if n.startswith("wrap") and n.endswith(".h") and not n.startswith("wrapf"):
            protos.update(cgen.prototypes(t))
    nodes = []

    def walk(n, cls=None):
        for f in getattr(n, "functions", []):
            f._fn_class = cls
            f._fn_scope = n          # (the same declaration text may occur in two namespaces)
            nodes.append(f)
        for c in getattr(n, "classes", []):
            walk(c, c)
        for s in getattr(n, "namespaces", []):
            walk(s, None)
    walk(build.library)
    out = {}
    for f in nodes:
        if not f.wrap.c or not f.fmtdict.inlocal("C_name"):
            continue
        cname = f.fmtdict.C_name
        if cname not in protos:
            continue
        orig = None
        for g in nodes:
            if g.decl == f.decl and not g._generated and getattr(g, "_fn_class", None) is getattr(f, "_fn_class", None) \
                    and getattr(g, "_fn_scope", None) is getattr(f, "_fn_scope", None):
                orig = g
                break
        if orig is None:
            orig = f
        true_orig = orig
        if f._generated in ("has_default_arg",):
            # an arity clone: its own (shortened) parameter list is the C++ call's
            orig = f
        if f._generated == "cxx_template":
            # an instantiation of a function template: its declaration is the template's with the
            # instantiation's arguments substituted (f.ast); the arguments are in fmtdict.CXX_template
            orig = true_orig = f
        fi = FnInfo(f, orig, protos[cname], build)
        fi.full_params = [CxxParam(a) for a in (true_orig.ast.params or [])]
        fi.template_args = f.fmtdict.CXX_template if f.fmtdict.inlocal("CXX_template") else None
        out[cname] = fi
    return out


def module_of(build, cname):
    for fname, m in build.modules.items():
        f = m.functions.get(cname)
        if f is not None and f.defined:
            return m
    return None


# ---------------------------------------------------------------------------- the stub library
class Recv(object):
    """what the callee received / replied for one C++ parameter"""

    def __init__(self):
        self.value = None       # scalar BV / Ptr
        self.ptr = None
        self.len = None         # BV64 length of the string it saw
        self.arr = None         # byte array snapshot and base
        self.base = None
        self.cap_given = None   # bytes available behind a char* (object size - offset)
        self.reply_len = None
        self.reply_arr = None
        self.reply_value = None # scalar the library wrote through a native pointer argument
        self.elems = None


class Trace(object):
    def __init__(self):
        self.calls = []         # (symbol, [Recv...], result info)


def is_string_ptr_type(t):
    t = ir.resolve(t) if t.kind == "named" else t
    return t.kind == "ptr" and t.to.kind == "named" and t.to.name == STRING_T


class Stub(object):
    """Nondeterministic model of the wrapped library, driven by the declaration."""

    def __init__(self, h):
        self.h = h

    def fresh_cstring(self, ex, name, owner="library"):
        """a NUL-terminated string of symbolic length <= cap in a fresh object the library owns"""
        L = ex.fresh(name + "_len", 64)
        ex.e.assume(z3.ULE(L, ex.cap))
        o = ex.new_obj(name, z3.simplify(L + 1), "extern")
        for i in range(ex.cap + 1):
            I = z3.BitVecVal(i, 64)
            b = z3.Select(o.arr, I)
            ex.e.assume(z3.Implies(z3.ULT(I, L), b != 0))
        o.arr = z3.Store(o.arr, L, z3.BitVecVal(0, 8))
        o.tag["owner"] = owner
        return o, L

    def fresh_string(self, ex, name):
        """abstract std::string with symbolic length <= cap and NUL-free content"""
        L = ex.fresh(name + "_len", 64)
        ex.e.assume(z3.ULE(L, ex.cap))
        src = z3.Array("%s_bytes!%d" % (name, ex.fresh_n), z3.BitVecSort(64), z3.BitVecSort(8))
        for i in range(ex.cap + 1):
            ex.e.assume(z3.Implies(z3.ULT(z3.BitVecVal(i, 64), L), z3.Select(src, z3.BitVecVal(i, 64)) != 0))
        return models.new_sstr(ex, L, lambda i: z3.Select(src, z3.BitVecVal(i, 64)))

    def vector_arg(self, ex, p, v, r):
        """The library sees a std::vector<T> (libstdc++ layout: begin, end, end-of-storage).  What it
        holds on entry is recorded; for out / inout arguments the library replaces the contents with
        0..2 elements of its own (storage from operator new, as std::allocator does)."""
        r.ptr = v
        if not isinstance(v, Ptr) or v.obj is None:
            ex.violation("null-deref", "the library receives a null std::vector reference for '%s'" % p.name)
        esz = VECTOR_ELEM[p.elem]
        v.obj.tag["class"] = "std::vector<%s>" % p.elem
        begin, end = ex.load_ptr(v), ex.load_ptr(Ptr(v.obj, bv(v.off) + 8) if conc(v.off) is None else Ptr(v.obj, conc(v.off) + 8))
        r.vec_begin, r.vec_end = begin, end
        if isinstance(begin, Ptr) and begin.obj is not None:
            ex.flush(begin.obj)
            r.arr, r.base = begin.obj.arr, bv(begin.off)
            r.len = z3.simplify(bv(end.off) - bv(begin.off))       # bytes
        else:
            r.len = z3.BitVecVal(0, 64)
        if not p.const and p.intent in ("out", "inout"):
            off0 = conc(v.off)
            n = 0
            for k in (0, 1):
                if ex.e.branch(z3.Bool("lib_vector_%s_has_more_than_%d" % (p.name, k))):
                    n = k + 1
                else:
                    break
            # the old storage goes back to the allocator
            if isinstance(begin, Ptr) and begin.obj is not None:
                models.release(ex, begin, "new", "std::allocator::deallocate")
            if n == 0:
                nb = NULL
                ne = NULL
                r.reply_obj = None
            else:
                so = ex.new_obj("vector_storage_" + p.name, esz * n, "heap", "new")
                so.tag["owner"] = "vector"
                nb, ne = Ptr(so, 0), Ptr(so, esz * n)
                r.reply_obj = so
            ex.store_ptr(Ptr(v.obj, off0), nb)
            ex.store_ptr(Ptr(v.obj, off0 + 8), ne)
            ex.store_ptr(Ptr(v.obj, off0 + 16), ne)
            r.reply_len = z3.BitVecVal(n, 64)
            r.reply_arr = r.reply_obj.arr if r.reply_obj is not None else None

    def __call__(self, ex, name, argv, argt, rt):
        h = self.h
        info = h.info
        fn = ex.m.functions.get(name)
        recs = []
        k = 0
        sret = None
        if fn is not None and fn.params and any(a.startswith("sret") for a in fn.params[0][2]):
            sret = argv[0]
            k = 1
        this = None
        if info.is_dtor:
            dem = demangle(name)
            if "::~" not in dem:
                raise Unsupported("destructor wrapper calls %s" % dem)
            h.trace.calls.append((name, [], {}, argv[0]))
            ex.events.append(("dtor", name, argv[0]))
            return None
        if info.is_method and not info.is_static:
            this = argv[k]
            k += 1
        params = info.params
        nfull = len(getattr(info, "full_params", params))
        if len(argv) - k != len(params) and len(argv) - k != nfull:
            raise Unsupported("library call %s has %d arguments, declaration has %d" % (name, len(argv) - k, len(params)))
        # arguments beyond this arity are the C++ defaults the compiler supplied at the call site
        res_dim = ((info.result.attrs.get("dimension") or "") if info.result is not None else "")
        res_dim_names = set(re.findall(r"[A-Za-z_]\w*", res_dim if isinstance(res_dim, str) else ""))
        for p, v, t in zip(params, argv[k:], argt[k:]):
            r = Recv()
            kind = p.kind()
            r.value = v
            if kind == "nativep" and p.intent in ("out", "inout") and p.name in res_dim_names and isinstance(v, Ptr) and v.obj is not None \
                    and ir.resolve(t).kind == "ptr":
                # an extent the library reports through an argument (int *n +intent(out) named in the result's dimension):
                # the library writes an arbitrary small non-negative value there
                bits = ir.size_of(ir.resolve(t).to) * 8
                rv = ex.fresh("lib_out_" + p.name, bits)
                ex.e.assume(z3.And(rv >= 0, rv <= 4))
                ex.store_int(v, rv, bits)
                r.reply_value = rv
            if kind == "charp":
                r.ptr = v
                if isinstance(v, Ptr) and v.obj is not None:
                    if p.intent in ("in", "inout"):
                        # the library reads a C string: it must be NUL-terminated inside its object
                        r.len = models.strlen_term(ex, v, "library reading argument '%s'" % p.name)
                        ex.flush(v.obj)
                        r.arr, r.base = v.obj.arr, bv(v.off)
                    r.cap_given = z3.simplify(bv(v.obj.size) - bv(v.off))
                    if not p.const and p.intent in ("out", "inout"):
                        # the library writes a NUL-terminated string that fits the object it was given
                        RL = ex.fresh("reply_%s_len" % p.name, 64)
                        ex.e.assume(z3.And(z3.ULE(RL, ex.cap), z3.ULT(RL, r.cap_given)))
                        rep = z3.Array("reply_%s!%d" % (p.name, ex.fresh_n), z3.BitVecSort(64), z3.BitVecSort(8))
                        ex.flush(v.obj)
                        for i in range(ex.cap + 1):
                            I = z3.BitVecVal(i, 64)
                            ex.e.assume(z3.Implies(z3.ULT(I, RL), z3.Select(rep, I) != 0))
                            idx = bv(v.off) + i
                            v.obj.arr = z3.Store(v.obj.arr, idx, z3.If(z3.ULT(I, RL), z3.Select(rep, I),
                                                                     z3.If(I == RL, z3.BitVecVal(0, 8), z3.Select(v.obj.arr, idx))))
                        r.reply_len, r.reply_arr = RL, rep
            elif kind == "string":
                r.ptr = v
                s = models.sget(ex, v, "library reading argument '%s'" % p.name)
                r.len, r.arr, r.base = s.len, s.buf.arr, z3.BitVecVal(0, 64)
                if not p.const and (p.ref or p.nptr) and p.intent in ("out", "inout"):
                    n = self.fresh_string(ex, "reply_" + p.name)
                    s.buf.live = False
                    s.buf, s.len = n.buf, n.len
                    r.reply_len, r.reply_arr = n.len, n.buf.arr
            elif kind == "charpp":
                r.ptr = v
                r.elems = []
            elif kind == "vector":
                self.vector_arg(ex, p, v, r)
            recs.append(r)
        # result
        res = None
        rinfo = {}
        rp = info.result
        if info.is_ctor:
            res = None
            if isinstance(this, Ptr) and this.obj is not None:
                this.obj.tag["class"] = info.cls.typemap.name
            ex.events.append(("ctor", name, this))
        elif rp is None:
            res = None
        else:
            kind = rp.kind()
            if kind == "scalar":
                bits = ir.resolve(rt).bits if rt.kind in ("int", "float") else None
                if bits is None:
                    raise Unsupported("scalar result of IR type %s" % rt.text())
                res = ex.fresh_bool("lib_result") if bits == 1 else ex.fresh("lib_result", bits)
                rinfo["value"] = res
            elif kind == "charp":
                if ex.e.branch(z3.Bool("lib_returns_null")):
                    res = NULL
                    rinfo["null"] = True
                else:
                    o, L = self.fresh_cstring(ex, "lib_result", "caller" if rp.attrs.get("owner") == "caller" else "library")
                    if rp.attrs.get("owner") == "caller":
                        o.kind, o.alloc = "heap", "malloc"
                    res = Ptr(o, 0)
                    rinfo.update(null=False, obj=o, len=L, arr=o.arr)
            elif kind == "string":
                s = self.fresh_string(ex, "lib_result")
                rinfo.update(len=s.len, arr=s.buf.arr)
                if sret is not None:
                    models.construct(ex, sret, s)
                    res = None
                else:
                    owner = rp.attrs.get("owner", "library")
                    if rp.ref:
                        owner = "library"
                    fam = "pattern:" + rp.attrs["free_pattern"] if rp.attrs.get("free_pattern") else "new"
                    o = ex.new_obj("lib_string", 32, "heap" if owner == "caller" else "extern", fam if owner == "caller" else None)
                    o.tag["owner"] = owner
                    o.tag["class"] = "std::string"
                    ex.strings[(o.id, 0)] = s
                    res = Ptr(o, 0)
                    rinfo["obj"] = o
                    if rp.nptr and False:
                        pass
            elif kind == "nativep":
                owner = rp.attrs.get("owner", "library")
                if ex.e.branch(z3.Bool("lib_returns_null")):
                    res = NULL
                else:
                    o = ex.new_obj("lib_result_target", 64, "heap" if owner == "caller" else "extern",
                                   "malloc" if owner == "caller" else None)
                    o.tag["owner"] = owner
                    res = Ptr(o, 0)
                rinfo["value"] = res
            elif kind == "class":
                owner = rp.attrs.get("owner", "library")
                if rp.ref:
                    owner = "library"
                fam = "new"
                if rp.attrs.get("free_pattern"):
                    fam = "pattern:" + rp.attrs["free_pattern"]
                o = ex.new_obj("lib_instance", 64, "heap" if owner == "caller" else "extern", fam if owner == "caller" else None)
                o.tag["owner"] = owner
                o.tag["class"] = rp.tname
                res = Ptr(o, 0)
                rinfo["value"] = res
                rinfo["owner"] = owner
            else:
                raise Unsupported("library result of kind %s" % kind)
        h.trace.calls.append((name, recs, rinfo, this))
        ex.events.append(("libcall", name))
        return res


# ---------------------------------------------------------------------------- the harness
class WrapperHarness(object):
    """One generated C function.  mode: which clauses to assert ('strings', 'calls', 'memory')."""

    def __init__(self, build_key, cname, cap, twin=False):
        self.build_key, self.cname, self.cap, self.twin = build_key, cname, cap, twin

    def prepare(self):
        self.build = lc.get_build(self.build_key)
        self.infos = collect(self.build)
        self.info = self.infos[self.cname]
        self.module = module_of(self.build, self.cname)
        if self.module is None:
            raise Unsupported("no IR for %s" % self.cname)

    def uses_cfi_allocate(self):
        """does the wrapper allocate its result through the descriptor (deferred-length allocatable result)?"""
        return self.source_mentions("CFI_allocate")

    def source_mentions(self, word):
        for n, t in self.build.files.items():
            if not n.endswith((".c", ".cpp")):
                continue
            m = re.search(r"(?ms)^[^\n]*\b%s\([^)]*\)\s*\{(.*?)^\}" % re.escape(self.cname), t)
            if m and word in m.group(1):
                return True
        return False

    def unsupported_reason(self):
        info = self.info
        for p in info.params + ([info.result] if info.result else []):
            if p.kind() == "vector" and (p is info.result or not (p.nptr or p.ref) or p.elem not in VECTOR_ELEM):
                return "parameter kind vector (%s)" % ("result / by value" if p.elem in VECTOR_ELEM else "of %s" % p.elem)
            if (p.kind() == "struct" and (p is info.result or not (p.nptr or p.ref))):
                return "parameter kind %s%s" % (p.kind(), " by value / as result" if p.kind() == "struct" else "")
            if p.kind() == "class" and not (p.nptr or p.ref) and p is not info.result:
                return "class argument passed by value"
            if p.kind() == "class" and p is info.result and not (p.nptr or p.ref):
                return "class result returned by value"
        return None

    def run(self, e):
        self.prepare()
        info = self.info
        ex = Executor(e, self.module, cap=self.cap)
        self.ex = ex
        self.trace = Trace()
        stub = Stub(self)
        # every undefined, unmodelled function the wrapper calls is the library
        for name, f in self.module.functions.items():
            if not f.defined and name not in ex.intrinsics and not name.startswith("llvm."):
                ex.stubs[name] = stub
        N = self.cap
        roles = info.roles()
        fn = self.module.functions[self.cname]
        h = self

        def cfi_allocate(ex_, name, a, at, rt):
            """CFI_allocate(desc, lower, upper, elem_len) for a character scalar: storage of elem_len bytes (success only)"""
            desc = a[0]
            hit = [v for (kk, key_), v in h.inp.items() if kk == "cfi" and v[0] is desc.obj]
            if not hit:
                raise Unsupported("CFI_allocate on a descriptor the harness did not make")
            d_, st_, _alloc = hit[0]
            cur = ex_.load_ptr(Ptr(d_, ir.field_offset(st_, 0)))
            if isinstance(cur, Ptr) and cur.obj is not None:
                # ISO_Fortran_binding: base_addr must be a null pointer
                return z3.BitVecVal(2, 32)
            n_ = a[3]
            o_ = ex_.new_obj("cfi_allocated", n_ if conc(n_) is None else conc(n_), "heap", "cfi")
            ex_.events.append(("alloc", "cfi", o_))
            ex_.store_ptr(Ptr(d_, ir.field_offset(st_, 0)), Ptr(o_, 0))
            ex_.store_int(Ptr(d_, ir.field_offset(st_, 1)), n_, 64)
            h.cfi_allocated = (o_, n_)
            return z3.BitVecVal(0, 32)
        ex.stubs["CFI_allocate"] = cfi_allocate
        self.cfi_allocated = None
        self.cfi_expect_alloc = False
        self.inp = {}
        argv = []
        lens = {}
        # lengths first
        for (role, p), (t, pn, at) in zip(roles, fn.params):
            key = p.name if p is not None else "@result"
            if role in ("len", "len_trim", "res_len", "res_len_trim", "size"):
                bits = ir.resolve(t).bits
                v = z3.BitVec("%s_%s" % (role, key), bits)
                lens[(role.replace("res_", ""), key)] = v
        for (r, key), v in lens.items():
            if r == "size":
                e.assume(z3.And(v >= 0, v <= 2))
            else:
                e.assume(z3.And(v >= 0, v <= N))
        for (r, key), v in list(lens.items()):
            if r == "len_trim" and ("len", key) in lens:
                e.assume(sx(v) <= sx(lens[("len", key)]))
        if info.result is not None and info.result.kind() == "scalar" and ("len", "@result") in lens:
            # a Fortran character function result has length >= 1
            e.assume(lens[("len", "@result")] >= 1)
        self.lens = lens
        for k, ((role, p), (t, pn, at)) in enumerate(zip(roles, fn.params)):
            key = p.name if p is not None else "@result"
            rt_ = ir.resolve(t)
            if role in ("len", "len_trim", "res_len", "res_len_trim", "size"):
                argv.append(lens[(role.replace("res_", ""), key)])
                continue
            if role in ("context", "res_context"):
                o = lc.sym_buffer(ex, "context_" + key, ir.size_of(rt_.to), "heap")
                self.inp[("context", key)] = o
                argv.append(Ptr(o, 0))
                continue
            if role == "res_capsule":
                o = lc.sym_buffer(ex, "capsule_result", ir.size_of(rt_.to), "heap")
                self.inp[("capsule", "@result")] = o
                argv.append(Ptr(o, 0))
                continue
            if role == "self" or (role == "arg" and p.kind() == "class"):
                key = "self" if role == "self" else p.name
                cap_o = lc.sym_buffer(ex, "capsule_" + key, ir.size_of(rt_.to), "heap")
                owned = info.is_dtor and role == "self"       # what a destructor wrapper releases was created by operator new
                inst = ex.new_obj("instance_" + key, 64, "heap" if owned else "extern", "new" if owned else None)
                inst.tag["class"] = (info.cls.typemap.name if role == "self" else p.tname)
                idt = z3.BitVec("idtor_" + key, 32)
                cap_o.cells[0] = (8, Ptr(inst, 0))
                cap_o.cells[8] = (4, idt)
                self.inp[("capsule", key)] = (cap_o, inst, idt)
                argv.append(Ptr(cap_o, 0))
                continue
            if role in ("cfi", "res_cfi"):
                # descriptor {base_addr, elem_len, ...}: a character scalar of symbolic length 0..N
                st = ir.resolve(rt_.to)
                n = z3.BitVec("len_%s" % key, 64)
                e.assume(z3.ULE(n, N))
                lens[("len", key)] = n
                if role == "res_cfi" and info.result is not None and info.result.kind() == "scalar":
                    e.assume(n != 0)        # a Fortran character function result has length >= 1
                buf = lc.sym_buffer(ex, ("buf_" + key) if role == "cfi" else "result_buf", n)
                desc = lc.sym_buffer(ex, "cfi_" + key, ir.size_of(st), "heap")
                alloc_result = role == "res_cfi" and self.uses_cfi_allocate()
                if role == "res_cfi" and info.result is not None and info.result.kind() in ("string", "charp"):
                    # a character result without +len that is not handed back through a user-named argument is a
                    # deferred-length allocatable: the wrapper has to allocate it through the descriptor
                    self.cfi_expect_alloc = (not info.result_attrs.get("len")) and info.cparams[k][1] == "SHcfi_SHF_rv"
                desc.cells[ir.field_offset(st, 0)] = (8, NULL if alloc_result else Ptr(buf, 0))
                desc.cells[ir.field_offset(st, 1)] = (8, n)
                self.inp[("cfi", key)] = (desc, st, alloc_result)
                if not alloc_result:
                    self.inp[("buf", key)] = (buf, buf.arr)
                if role == "cfi" and p.intent in ("in", "inout"):
                    # what the library is documented to see is the text without trailing blanks: LEN_TRIM by its definition
                    lt = z3.BitVec("spec_len_trim_%s" % key, 64)
                    cons = [z3.ULE(lt, n)]
                    for j in range(N + 1):
                        J = z3.BitVecVal(j, 64)
                        cons.append(z3.Implies(z3.And(z3.UGE(J, lt), z3.ULT(J, n)), z3.Select(buf.arr, J) == BLANK))
                    cons.append(z3.Implies(lt != 0, z3.Select(buf.arr, lt - 1) != BLANK))
                    e.assume(z3.And(cons))
                    lens[("len_trim", key)] = lt
                argv.append(Ptr(desc, 0))
                continue
            if role == "res_buf":
                n = lens.get(("len", "@result"))
                size = sx(n) if n is not None else z3.BitVecVal(N + 1, 64)
                o = lc.sym_buffer(ex, "result_buf", size)
                self.inp[("buf", "@result")] = (o, o.arr)
                argv.append(Ptr(o, 0))
                continue
            # ('arg', p)
            kind = p.kind()
            if rt_.kind in ("int", "float"):
                v = z3.Bool("arg_" + p.name) if rt_.bits == 1 else z3.BitVec("arg_" + p.name, rt_.bits)
                self.inp[("scalar", key)] = v
                argv.append(v)
            elif kind in ("charp", "string") and rt_.kind == "ptr":
                n, lt = lens.get(("len", key)), lens.get(("len_trim", key))
                if n is not None:
                    size = sx(n)
                elif lt is not None:
                    size = sx(lt)
                else:
                    size = None
                if size is not None:
                    o = lc.sym_buffer(ex, "buf_" + key, size)
                else:
                    # plain C API: a NUL-terminated C string (in / inout) or a writable buffer of cap+1 bytes (out)
                    if p.intent == "out":
                        ssz = None
                        o = lc.sym_buffer(ex, "buf_" + key, N + 2)
                    elif p.intent == "inout":
                        # the C caller provides room for whatever the library may write (<= capacity + NUL)
                        ssz = z3.BitVecVal(N + 2, 64)
                        o = lc.sym_buffer(ex, "buf_" + key, N + 2)
                    else:
                        ssz = z3.BitVec("size_" + key, 64)
                        e.assume(z3.And(z3.UGE(ssz, 1), z3.ULE(ssz, N + 1)))
                        o = lc.sym_buffer(ex, "buf_" + key, ssz)
                    if ssz is not None:
                        e.assume(z3.Or([z3.And(z3.Select(o.arr, z3.BitVecVal(i, 64)) == 0, z3.ULT(z3.BitVecVal(i, 64), ssz))
                                        for i in range(N + 1)]))
                self.inp[("buf", key)] = (o, o.arr)
                argv.append(Ptr(o, 0))
            elif kind == "charpp" and ("size", key) in lens:
                tot = sx(lens[("size", key)]) * sx(lens[("len", key)])
                o = lc.sym_buffer(ex, "buf_" + key, z3.simplify(tot))
                self.inp[("buf", key)] = (o, o.arr)
                argv.append(Ptr(o, 0))
            elif kind == "nativep" or (kind in ("charpp", "struct") and rt_.kind == "ptr"):
                o = lc.sym_buffer(ex, "target_" + key, ir.size_of(rt_.to) if rt_.to.kind != "void" else 8)
                self.inp[("target", key)] = (o, o.arr)
                argv.append(Ptr(o, 0))
            else:
                raise Unsupported("argument %s of kind %s" % (p.name, kind))
        self.nobj_before = ex.nobj
        self.ret = ex.call_function(self.cname, argv)
        return ex

    # ------------------------------------------------------------------ oracle
    def checks(self, e, ex):
        """list of (text, bad-condition) derived from the declaration (appendix A.1 / A.2)."""
        info = self.info
        out = []
        calls = self.trace.calls
        if len(calls) != 1:
            return [("the library function is called %d times, expected exactly once" % len(calls), True)]
        sym, recs, rinfo, this = calls[0]
        i = z3.BitVec("idx", 64)
        N = self.cap
        bufferify = info.generated in ("arg_to_buffer",)
        bad_sym = symbol_mismatch(info, sym)
        if bad_sym:
            out.append((bad_sym, True))
        if info.is_dtor:
            cap = self.inp.get(("capsule", "self"))
            ok = isinstance(this, Ptr) and cap is not None and this.obj is cap[1]
            out.append(("the destructor does not run on the object held by the capsule", not ok))
            if cap is not None:
                out.append(("the object held by the capsule is not released by the destructor wrapper", bool(cap[1].live)))
                addr = cap[0].cells.get(0, (0, None))[1]
                out.append(("the capsule still holds the address of the released object",
                            not (isinstance(addr, Ptr) and addr.obj is None)))
            return out
        if info.is_method and not info.is_static and not info.is_ctor:
            cap = self.inp.get(("capsule", "self"))
            ok = isinstance(this, Ptr) and cap is not None and this.obj is cap[1] and conc(this.off) == 0
            out.append(("'this' is not the object held by the self capsule", not ok))
        if info.is_ctor:
            ok = isinstance(this, Ptr) and this.obj is not None and this.obj.alloc == "new" and conc(this.off) == 0
            out.append(("the constructor does not run on freshly allocated (operator new) storage", not ok))
            rc = self.inp.get(("capsule", "@result"))
            if rc is not None:
                addr = rc.cells.get(0, (0, None))[1]
                out.append(("constructor: the capsule does not hold the new object", not (isinstance(addr, Ptr) and ok and addr.obj is this.obj)))
        for p, r in zip(info.params, recs):
            key = p.name
            kind = p.kind()
            L, Nn = self.lens.get(("len_trim", key)), self.lens.get(("len", key))
            if kind == "scalar":
                v = self.inp.get(("scalar", key))
                if v is not None:
                    a, b = r.value, v
                    if z3.is_bool(a) != z3.is_bool(b):
                        a = a if z3.is_bool(a) else a != 0
                        b = b if z3.is_bool(b) else b != 0
                    elif not z3.is_bool(a) and a.size() != b.size():
                        out.append(("argument '%s' reaches the library with another width" % key, True))
                        continue
                    out.append(("argument '%s' does not reach the library with the caller's value" % key, a != b))
            elif kind == "nativep" or (kind in ("charpp", "struct") and ("target", key) in self.inp):
                tgt = self.inp.get(("target", key))
                if tgt is not None:
                    ok = isinstance(r.value, Ptr) and r.value.obj is tgt[0] and conc(r.value.off) == 0
                    out.append(("argument '%s': the library does not receive the caller's address" % key, not ok))
            elif kind == "vector":
                ctx = self.inp.get(("context", key))
                if ctx is not None and p.intent == "out":
                    kk = [k for k, (rl, pp) in enumerate(info.roles()) if rl == "context" and pp is p][0]
                    rs = ir.resolve(ir.resolve(self.module.functions[self.cname].params[kk][0]).to)
                    esz = VECTOR_ELEM[p.elem]
                    n = conc(r.reply_len)
                    addr = ex.load_ptr(Ptr(ctx, ir.field_offset(rs, 0)))
                    base = ex.load_ptr(Ptr(ctx, ir.field_offset(rs, 1)))
                    vec = r.ptr
                    out.append(("vector '%s': the context does not hold the std::vector the library filled" % key,
                                not (isinstance(addr, Ptr) and addr.obj is vec.obj and conc(addr.off) == conc(vec.off))))
                    if n == 0:
                        # an empty vector: no elements to designate
                        pass
                    else:
                        out.append(("vector '%s': the context's base address is not the vector's first element" % key,
                                    not (isinstance(base, Ptr) and base.obj is r.reply_obj and conc(base.off) == 0)))
                    out.append(("vector '%s': elem_len is not sizeof(%s)" % (key, p.elem), ex.load_int(Ptr(ctx, ir.field_offset(rs, 3)), 64) != esz))
                    out.append(("vector '%s': size is not the number of elements the library stored" % key,
                                ex.load_int(Ptr(ctx, ir.field_offset(rs, 4)), 64) != n))
                    out.append(("vector '%s': rank is not 1" % key, ex.load_int(Ptr(ctx, ir.field_offset(rs, 5)), 32) != 1))
                    out.append(("vector '%s': shape(1) is not the number of elements" % key,
                                ex.load_int(Ptr(ctx, ir.field_offset(rs, 6)), 64) != n))
            elif kind in ("charp", "string"):
                b = self.inp.get(("buf", key))
                if b is None:
                    continue
                o, a0 = b
                ex.flush(o)
                if p.intent in ("in", "inout") and r.len is not None:
                    if L is not None:
                        want_len = sx(L)
                        # C receives the argument without trailing blanks, NUL-terminated: bytes [0, L) then NUL
                        if kind == "charp":
                            # what a C function sees of buf[0:len_trim] + NUL: the text up to the first NUL
                            vis = first_nul_bounded(a0, want_len, N)
                            out.append(("argument '%s': the library does not receive the caller's text buf[0:len_trim] + NUL" % key,
                                        z3.Or(r.len != vis, z3.And(z3.ULT(i, vis), z3.Select(r.arr, r.base + i) != z3.Select(a0, i)))))
                        else:
                            out.append(("argument '%s': the library does not receive a std::string equal to buf[0:len_trim]" % key,
                                        z3.Or(r.len != want_len, z3.And(z3.ULT(i, want_len), z3.Select(r.arr, r.base + i) != z3.Select(a0, i)))))
                    elif not bufferify or True:
                        # plain C API: the same C string
                        src_len = first_nul(a0, z3.BitVecVal(0, 64), N + 1)
                        out.append(("argument '%s': the library does not receive the caller's C string" % key,
                                    z3.Or(r.len != src_len, z3.And(z3.ULT(i, src_len), z3.Select(r.arr, r.base + i) != z3.Select(a0, i)))))
                if p.intent == "in":
                    size = bv(o.size)
                    out.append(("argument '%s' is intent(in) but the caller's buffer was modified" % key,
                                z3.And(z3.ULT(i, size), z3.Select(o.arr, i) != z3.Select(a0, i))))
                if kind == "charp" and p.intent in ("out", "inout") and Nn is not None and r.cap_given is not None:
                    # The library cannot know the Fortran length.  intent(inout) goes through a NUL-terminated
                    # temporary, which must have room for LEN(actual) characters and the NUL; intent(out) is
                    # handed the Fortran variable itself (by design: LEN(actual) bytes, blank-filled afterwards).
                    need = sx(Nn) + 1 if p.intent == "inout" else sx(Nn)
                    out.append(("argument '%s': the library is given a buffer of fewer than LEN(actual)%s bytes" % (key, "+1" if p.intent == "inout" else ""),
                                z3.ULT(r.cap_given, need)))
                if p.intent in ("out", "inout") and r.reply_len is not None:
                    if Nn is not None:
                        n64 = sx(Nn)
                        exp = z3.If(z3.ULT(i, r.reply_len), z3.Select(r.reply_arr, i), BLANK)
                        out.append(("argument '%s': the caller's buffer is not the library's text truncated/blank-padded to its length" % key,
                                    z3.And(z3.ULT(i, n64), z3.Select(o.arr, i) != exp)))
                    else:
                        # plain C API: NUL-terminated copy of the reply
                        exp = z3.If(z3.ULT(i, r.reply_len), z3.Select(r.reply_arr, i), z3.BitVecVal(0, 8))
                        out.append(("argument '%s': the caller's buffer does not hold the library's C string" % key,
                                    z3.And(z3.ULE(i, r.reply_len), z3.Select(o.arr, i) != exp)))
        if info.generated == "arg_to_cfi":
            for (role, p_) in info.roles():
                if role == "arg" and p_ is not None and p_.kind() in ("charp", "string"):
                    out.append(("argument '%s' reaches the CFI entry point as a bare address: the Fortran caller passes an assumed-length "
                                "character there, without a NUL and without its length" % p_.name, True))
        rcfi = self.inp.get(("cfi", "@result"))
        if rcfi is not None and getattr(self, "cfi_expect_alloc", False) and not rcfi[2]:
            out.append(("the declaration makes the result a deferred-length allocatable character, but the wrapper does not "
                        "allocate it through the descriptor (the caller gets a character of the length it happened to pass)", True))
        if rcfi is not None and rcfi[2] and info.result is not None and info.result.kind() in ("charp", "string") and not rinfo.get("null"):
            d_, st_, _ = rcfi
            base = ex.load_ptr(Ptr(d_, ir.field_offset(st_, 0)))
            el = ex.load_int(Ptr(d_, ir.field_offset(st_, 1)), 64)
            if not (isinstance(base, Ptr) and base.obj is not None and self.cfi_allocated is not None and base.obj is self.cfi_allocated[0]):
                out.append(("allocatable result: the descriptor does not hold storage allocated with CFI_allocate", True))
            else:
                ex.flush(base.obj)
                out.append(("allocatable result: the character length is not the length of the library's text", el != rinfo["len"]))
                out.append(("allocatable result: the allocated character does not hold the library's text",
                            z3.And(z3.ULT(i, rinfo["len"]), z3.Select(base.obj.arr, i) != z3.Select(rinfo["arr"], i))))
        # result
        rp = info.result
        if rp is not None:
            kind = rp.kind()
            rb = self.inp.get(("buf", "@result"))
            ctx = self.inp.get(("context", "@result"))
            Nn = self.lens.get(("len", "@result"))
            if kind == "scalar" and rb is None:
                a, b = self.ret, rinfo.get("value")
                if a is None:
                    out.append(("the library's result is not returned", True))
                else:
                    if z3.is_bool(a) != z3.is_bool(b):
                        a = a if z3.is_bool(a) else a != 0
                        b = b if z3.is_bool(b) else b != 0
                    if not z3.is_bool(a) and a.size() != b.size():
                        out.append(("the C function returns a %d-bit value, the library function a %d-bit one (result type %s)"
                                    % (a.size(), b.size(), rp.tname), True))
                    else:
                        out.append(("the C caller does not receive the library's result", a != b))
            elif kind == "scalar" and rb is not None and rp.is_char:
                o, a0 = rb
                ex.flush(o)
                n64 = sx(Nn)
                exp = z3.If(i == 0, rinfo["value"], BLANK)
                # a Fortran character result has length >= 1
                out.append(("char result: buffer is not the character followed by blanks",
                            z3.And(n64 != 0, z3.ULT(i, n64), z3.Select(o.arr, i) != exp)))
            elif kind in ("charp", "string") and rb is not None:
                o, a0 = rb
                ex.flush(o)
                n64 = sx(Nn) if Nn is not None else None
                if n64 is not None:
                    if rinfo.get("null"):
                        exp = BLANK
                    else:
                        exp = z3.If(z3.ULT(i, rinfo["len"]), z3.Select(rinfo["arr"], i), BLANK)
                    out.append(("result: buffer is not the library's text truncated/blank-padded to its length",
                                z3.And(z3.ULT(i, n64), z3.Select(o.arr, i) != exp)))
            elif kind in ("charp", "string") and ctx is not None:
                # allocatable result: context describes the C string
                st = ir.resolve(self.module.functions[self.cname].params[[k for k, (r, _) in enumerate(info.roles()) if r == "res_context"][0]][0]).to
                rs = ir.resolve(st)
                o = ctx
                f_elem = Ptr(o, ir.field_offset(rs, 3))
                f_size = Ptr(o, ir.field_offset(rs, 4))
                f_rank = Ptr(o, ir.field_offset(rs, 5))
                elem_len = ex.load_int(f_elem, 64)
                want = z3.BitVecVal(0, 64) if rinfo.get("null") else rinfo["len"]
                out.append(("allocatable result: elem_len is not the length of the library's string", elem_len != want))
                out.append(("allocatable result: size is not 1", ex.load_int(f_size, 64) != 1))
                out.append(("allocatable result: rank is not 0", ex.load_int(f_rank, 32) != 0))
                addr = ex.load_ptr(Ptr(o, ir.field_offset(rs, 1)))
                if rinfo.get("null"):
                    pass
                else:
                    # addr must designate the library's characters (or be NULL for an empty string)
                    if isinstance(addr, Ptr) and addr.obj is not None:
                        ex.flush(addr.obj) if addr.obj.kind != "abstract" else None
                        out.append(("allocatable result: address does not designate the library's characters",
                                    z3.And(z3.ULT(i, want), z3.Select(addr.obj.arr, bv(addr.off) + i) != z3.Select(rinfo["arr"], i))))
                    else:
                        out.append(("allocatable result: address is NULL although the string is not empty", want != 0))
            elif kind == "nativep" and ctx is not None:
                # pointer result described by an array context: the extents are the declared dimension evaluated AFTER the
                # call (an extent may name an argument the library writes)
                dim = rp.attrs.get("dimension")
                names = re.findall(r"[A-Za-z_]\w*", dim) if isinstance(dim, str) else []
                wrote = {p_.name: r_.reply_value for p_, r_ in zip(info.params, recs) if getattr(r_, "reply_value", None) is not None}
                if isinstance(dim, str) and re.match(r"^\s*[A-Za-z_]\w*\s*$", dim) and names[0] in wrote and not rinfo.get("null"):
                    st = ir.resolve(self.module.functions[self.cname].params[[k for k, (r_, _) in enumerate(info.roles()) if r_ == "res_context"][0]][0]).to
                    rs = ir.resolve(st)
                    n_ = sx(wrote[names[0]])
                    out.append(("pointer result: the context's rank is not 1 for dimension(%s)" % dim.strip(), ex.load_int(Ptr(ctx, ir.field_offset(rs, 5)), 32) != 1))
                    out.append(("pointer result: shape(1) is not the extent '%s' the library reported through its argument" % names[0],
                                ex.load_int(Ptr(ctx, ir.field_offset(rs, 6)), 64) != n_))
                    out.append(("pointer result: size is not the extent '%s' the library reported through its argument" % names[0],
                                ex.load_int(Ptr(ctx, ir.field_offset(rs, 4)), 64) != n_))
            elif kind == "nativep" and ctx is None:
                a, b = self.ret, rinfo.get("value")
                same = isinstance(a, Ptr) and isinstance(b, Ptr) and a.obj is b.obj and (a.obj is None or conc(a.off) == conc(b.off))
                out.append(("the C caller does not receive the pointer the library returned", not same))
            elif kind == "class":
                rc = self.inp.get(("capsule", "@result"))
                if rc is not None:
                    addr = rc.cells.get(0, (0, None))[1]
                    b = rinfo.get("value")
                    out.append(("class result: the capsule does not hold the object the library returned",
                                not (isinstance(addr, Ptr) and isinstance(b, Ptr) and addr.obj is b.obj)))
                    idt = rc.cells.get(8, (0, None))[1]
                    if idt is None or isinstance(idt, Ptr):
                        out.append(("class result: the capsule's idtor is not set", True))
                    else:
                        if rinfo.get("owner") == "caller":
                            out.append(("class result owned by the caller has idtor 0 (it would never be released)", idt == 0))
                        else:
                            out.append(("class result owned by the library has a non-zero idtor (the wrapper would free library memory)", idt != 0))
                        self.handoff = (lc_conc(idt), rinfo.get("owner"), rp.tname)
            elif kind in ("charp",) and rb is None and ctx is None and rcfi is None:
                # plain C API returning const char *
                if rinfo.get("null"):
                    out.append(("NULL result is not returned as NULL", not (isinstance(self.ret, Ptr) and self.ret.obj is None)))
                elif isinstance(self.ret, Ptr) and self.ret.obj is not None:
                    out.append(("result pointer does not designate the library's string",
                                z3.And(z3.ULE(i, rinfo["len"]), z3.Select(self.ret.obj.arr, bv(self.ret.off) + i) != z3.Select(rinfo["arr"], i))))
                else:
                    out.append(("library string result is returned as NULL", True))
            elif kind == "string" and rb is None and ctx is None:
                if isinstance(self.ret, Ptr) and self.ret.obj is not None:
                    out.append(("result c_str does not designate the library's string",
                                z3.And(z3.ULT(i, rinfo["len"]), z3.Select(self.ret.obj.arr, bv(self.ret.off) + i) != z3.Select(rinfo["arr"], i))))
        return out

    def handoffs(self, e, ex):
        """(idtor, allocator family, type) of every object this wrapper hands to the caller through a capsule/context."""
        out = []
        for (kind, key), o in self.inp.items():
            if not ((kind == "capsule" and key == "@result") or kind == "context"):
                continue
            if isinstance(o, tuple):
                continue
            addr = o.cells.get(0, (0, None))[1]
            idt = o.cells.get(8, (0, None))[1]
            if not isinstance(addr, Ptr) or addr.obj is None or idt is None or isinstance(idt, Ptr):
                continue
            k = conc(idt)
            out.append({"function": self.cname, "idtor": k, "family": addr.obj.alloc, "type": addr.obj.tag.get("class") or addr.obj.name,
                        "owner": addr.obj.tag.get("owner"), "object_kind": addr.obj.kind})
        return out

    def ownership_checks(self, e, ex):
        out = []
        for h in self.handoffs(e, ex):
            if h["idtor"] is None:
                out.append(("the destructor index stored for the caller is not a constant", True))
                continue
            owned = h["object_kind"] == "heap" and h["family"] is not None
            if owned and h["idtor"] == 0:
                out.append(("memory the caller owns (%s, %s) is handed over with idtor 0: it would never be released" % (h["type"], h["family"]), True))
            if not owned and h["idtor"] != 0:
                out.append(("library-owned memory (%s) is handed over with idtor %d: releasing the handle would free it" % (h["type"], h["idtor"]), True))
        return out

    def memory_checks(self, e, ex):
        """temporaries the wrapper allocated are released exactly once before it returns, unless
        they are handed to the caller through a capsule / context."""
        out = []
        handed = set()
        for (kind, key), o in list(self.inp.items()):
            if kind == "cfi":
                o = o[0]        # what CFI_allocate put into the caller's descriptor is the caller's
            if kind in ("context", "cfi") or (kind == "capsule" and key == "@result"):
                for off, (nb, val) in o.cells.items():
                    if isinstance(val, Ptr) and val.obj is not None:
                        handed.add(val.obj.id)
        if isinstance(self.ret, Ptr) and self.ret.obj is not None:
            handed.add(self.ret.obj.id)
        for o in ex.objects:
            if o.id <= self.nobj_before:
                continue
            if o.kind == "heap" and o.alloc is not None and o.live and o.id not in handed and o.tag.get("owner") != "caller":
                out.append(("a temporary %s block allocated by the wrapper is not released before it returns" % o.alloc, True))
        for (k, s) in ex.strings.items():
            oid, off = k
            owner = [o for o in ex.objects if o.id == oid]
            if owner and owner[0].kind == "stack" and s.live and owner[0].id > self.nobj_before:
                out.append(("a local std::string of the wrapper is not destroyed before it returns", True))
        return out

    # ------------------------------------------------------------------ witness / judge
    def witness(self, m, what):
        w = {"kernel": "wrapper", "function": self.cname, "build": list(self.build_key), "cap": self.cap, "what": what, "inputs": {}}
        for (r, key), v in self.lens.items():
            w["inputs"]["%s:%s" % (r, key)] = lc.mval(m, v, v.size())
        for (kind, key), v in self.inp.items():
            if kind == "scalar":
                w["inputs"]["scalar:" + key] = lc.mval(m, v, None if z3.is_bool(v) else v.size())
            elif kind in ("buf", "target"):
                o, a0 = v
                w["inputs"]["%s:%s" % (kind, key)] = {"size": lc.mval(m, bv(o.size)), "bytes": lc.bytes_of(m, a0, self.cap + 2)}
        rep = {}
        for sym, recs, rinfo, this in self.trace.calls:
            for p, r in zip(self.info.params, recs):
                if r.reply_len is not None:
                    n = lc.mval(m, r.reply_len)
                    rep["reply:" + p.name] = lc.bytes_of(m, r.reply_arr, min(n, self.cap + 1))
            if "value" in rinfo and not isinstance(rinfo["value"], Ptr):
                rep["result"] = lc.mval(m, rinfo["value"], None if z3.is_bool(rinfo["value"]) else rinfo["value"].size())
            if "len" in rinfo:
                n = lc.mval(m, rinfo["len"])
                rep["result_string"] = lc.bytes_of(m, rinfo["arr"], min(n, self.cap + 1))
            if "null" in rinfo:
                rep["result_null"] = bool(rinfo["null"])
        w["library_replies"] = rep
        obs = {}
        try:
            for (kind, key), v in self.inp.items():
                if kind == "buf":
                    o, a0 = v
                    n = lc.mval(m, bv(o.size))
                    self.ex.flush(o)
                    obs["buf:" + key] = lc.bytes_of(m, o.arr, min(n, self.cap + 2))
            if self.ret is not None and not isinstance(self.ret, (Ptr, list)):
                obs["ret"] = lc.mval(m, self.ret, None if z3.is_bool(self.ret) else self.ret.size())
            for sym, recs, rinfo, this in self.trace.calls:
                for p, r in zip(self.info.params, recs):
                    if r.len is not None:
                        n = lc.mval(m, r.len)
                        obs["recv:" + p.name] = [lc.mval(m, z3.Select(r.arr, r.base + k)) for k in range(min(n, self.cap + 2))]
        except Exception:
            pass
        w["observed"] = obs
        return w

    def judge(self, e, kind, value):
        cls = "wrapper/%s" % self.cname
        if kind == "exc":
            if isinstance(value, MemViolation):
                w = self.witness(value.model or e.model(), "memory safety: %s" % value)
                return {"cls": cls, "violation": w, "vkey": "%s:%s" % (self.cname, value.kind)}
            w = self.witness(e.model(), "unexpected %s: %s" % (type(value).__name__, str(value)[:200]))
            return {"cls": cls, "violation": w, "vkey": "%s:exc" % self.cname}
        ex = value
        nq = 0
        for what, bad in self.checks(e, ex) + self.memory_checks(e, ex) + self.ownership_checks(e, ex):
            nq += 1
            if bad is True or (not isinstance(bad, bool) and e.check(bad) == "sat"):
                m = e.model() if bad is True else e.model(bad)
                return {"cls": cls, "violation": self.witness(m, what), "vkey": "%s:%s" % (self.cname, what[:50]),
                        "counters": {"assertions": nq}}
        if self.twin:
            return {"cls": cls, "violation": self.witness(e.model(), "reachability twin"), "vkey": "twin"}
        return {"cls": cls, "sample": self.witness(e.model(), None), "counters": {"assertions": nq}, "extra": self.handoffs(e, ex)}


def lc_conc(v):
    c = conc(v)
    return c


_DEMANGLE = {}


def demangle(sym):
    if sym not in _DEMANGLE:
        import subprocess
        try:
            out = subprocess.run(["llvm-cxxfilt-14", sym], stdout=subprocess.PIPE, universal_newlines=True).stdout.strip()
        except OSError:
            out = subprocess.run(["c++filt", sym], stdout=subprocess.PIPE, universal_newlines=True).stdout.strip()
        _DEMANGLE[sym] = out
    return _DEMANGLE[sym]


VECTOR_ELEM = {"int": 4, "long": 8, "double": 8, "float": 4, "short": 2, "unsigned int": 4, "long long": 8}
NATIVE_TEXT = {"int", "long", "double", "float", "bool", "char", "short", "unsigned int", "unsigned long", "long long",
               "unsigned short", "unsigned char", "signed char", "unsigned long long"}


def split_params(text):
    out, depth, cur = [], 0, ""
    for ch in text:
        if ch in "<(":
            depth += 1
        elif ch in ">)":
            depth -= 1
        if ch == "," and depth == 0:
            out.append(cur.strip())
            cur = ""
        else:
            cur += ch
    if cur.strip():
        out.append(cur.strip())
    return out


def symbol_mismatch(info, sym):
    """Is the called symbol the declared entry point (name, scope, arity, parameter types, const-ness)?"""
    dem = demangle(sym)
    if dem == sym and not sym.startswith("_Z"):
        # a C library function: plain name
        return None if sym == info.cxx_name else "the wrapper calls %s, the declaration names %s" % (sym, info.cxx_name)
    m = re.match(r"^(.*?)\((.*)\)( const)?$", dem)
    if not m:
        return "cannot read callee %s" % dem
    qname, ptext, cst = m.group(1), m.group(2), bool(m.group(3))
    qname = re.sub(r"\[abi:\w+\]", "", qname)
    targs = None
    tm = re.match(r"^(.*?)(<.*>)$", qname)
    if tm:
        # a function template instantiation demangles as 'RET scope::name<ARGS>(params)'
        qname, targs = tm.group(1), tm.group(2)
        depth = 0
        for k in range(len(qname) - 1, -1, -1):
            if qname[k] == ">":
                depth += 1
            elif qname[k] == "<":
                depth -= 1
            elif qname[k] == " " and depth == 0:
                qname = qname[k + 1:]
                break
    want_t = getattr(info, "template_args", None)
    if (targs or want_t) and not (info.is_ctor or info.is_dtor):
        # llvm-cxxfilt spells std::string as libstdc++'s basic_string instantiation
        norm = lambda t: re.sub(r"\s+", "", (t or "").replace(
            "std::__cxx11::basic_string<char, std::char_traits<char>, std::allocator<char> >", "std::string"))
        if norm(targs) != norm(want_t):
            return "the wrapper calls the instantiation %s, the declaration instantiates %s" % (dem, want_t)
    if info.is_ctor or info.is_dtor:
        return None
    if qname.split("::")[-1] != info.cxx_name:
        return "the wrapper calls %s, the declaration names %s" % (dem, info.cxx_name)
    if info.is_method and info.cls is not None and not qname.startswith(info.cls.typemap.name + "::"):
        return "the wrapper calls %s, not a member of %s" % (dem, info.cls.typemap.name)
    if not info.is_method:
        # a free function: the namespaces it is declared in (walked up the declaration tree, not read from a format field)
        scope, n_ = [], getattr(info.orig, "parent", None)
        while n_ is not None:
            if type(n_).__name__ == "NamespaceNode" and getattr(n_, "name", None):
                scope.insert(0, n_.name)
            n_ = getattr(n_, "parent", None)
        want_q = "::".join(scope + [info.cxx_name])
        if scope and qname != want_q:
            return "the wrapper calls %s, the declaration is %s" % (dem, want_q)
    params = [] if ptext in ("", "void") else split_params(ptext)
    full = getattr(info, "full_params", info.params)
    if len(params) != len(full):
        return "the wrapper calls %s (%d parameters), the declared function has %d" % (dem, len(params), len(full))
    if cst != info.func_const:
        return "the wrapper calls %s, the declaration is %sconst" % (dem, "" if info.func_const else "not ")
    for p, got in zip(full, params):
        g = got.replace(" const", "").replace("const ", "").strip()
        if p.kind() == "scalar" and p.cxx_type in NATIVE_TEXT and g != p.cxx_type:
            return "parameter '%s' of the called overload %s is %s, declared %s" % (p.name, dem, got, p.cxx_type)
        if (p.ref or p.nptr) and "(" not in got and ("const" in got) != bool(p.const):
            # two overloads that differ in the const-ness of what a reference / pointer parameter refers to are different functions
            return "parameter '%s' of the called overload %s is %s, the declaration says %sconst" % (p.name, dem, got, "" if p.const else "not ")
    return None


def first_nul_bounded(arr, n, cap):
    """index of the first NUL in arr[0:n) (BV64), n if none."""
    t = n
    for i in reversed(range(cap)):
        I = z3.BitVecVal(i, 64)
        t = z3.If(z3.And(z3.ULT(I, n), z3.Select(arr, I) == 0), I, t)
    return t


def make(**kw):
    kw["build_key"] = tuple(kw["build_key"])
    return WrapperHarness(**kw)
