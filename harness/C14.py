"""C14 - equivalent ways of stating the same customisation give identical output.

K1  util.Scope laws (nearest enclosing setter, update, clone, reparent, inlocal) with symbolic
    "set here" flags and symbolic integer values.
K2  scoping through the whole real pipeline: one option (F_force_wrapper, C_force_wrapper, F_string_len_trim) and one
    user format field referenced from the C/Fortran name templates, placed at library / namespace /
    class / block / function level by symbolic booleans; the output must equal, byte for byte, the
    output of the description without blocks in which every leaf declaration carries the value of its
    nearest enclosing setter directly (so setting on a container == setting on each contained
    declaration, siblings unaffected, a block transparent for everything but the values it sets).
K3  inline attributes == attrs/fattrs: symbolic subsets of attributes on fixed declaration shapes,
    both spellings through the whole pipeline (same output or same diagnostic).
K4  --option / --language == the YAML fields, and create_wrapper == the command line, through the
    real main_with_args on a temporary YAML file, with a symbolic split of the options between YAML
    and command line.
"""
import argparse
import copy
import json
import os
import shutil
import sys
import tempfile

import z3

sys.path.insert(0, os.path.dirname(os.path.dirname(os.path.abspath(__file__))))
from engines.shadowsym.core import Engine  # noqa: E402
from engines.shadowsym.proxies import SymBool, SymInt  # noqa: E402
from engines.shadowsym import driver  # noqa: E402
from gen import pipeline  # noqa: E402
from harness import cfg_common as cc  # noqa: E402
from lib import checklib  # noqa: E402

PID = "C14"


# ---------------------------------------------------------------------------- K1 Scope laws
class ScopeHarness(object):
    """chain s0 <- s1 <- s2 <- s3; key 'k' set at level i iff flag_i, with value v_i."""

    def __init__(self, twin=False):
        self.twin = twin

    def run(self, e):
        from shroud import util
        self.flags = [z3.Bool("set%d" % i) for i in range(4)]
        self.vals = [z3.Int("v%d" % i) for i in range(4)]
        scopes = []
        parent = None
        self.setpy = []
        for i in range(4):
            s = util.Scope(parent)
            here = e.branch(self.flags[i])      # placement decided by the engine
            self.setpy.append(here)
            if here:
                s.update({"k": SymInt(e, self.vals[i])})
            s.update({"own%d" % i: i})
            scopes.append(s)
            parent = s
        obs = {}
        for i, s in enumerate(scopes):
            obs["get%d" % i] = s.get("k", None)
            obs["in%d" % i] = ("k" in s)
            obs["local%d" % i] = s.inlocal("k")
        # clone of the innermost scope: same locals, same parent
        c = scopes[3].clone()
        obs["clone_get"] = c.get("k", None)
        obs["clone_local"] = c.inlocal("k")
        obs["clone_own"] = c.get("own3", None)
        obs["clone_parent_is_same"] = c.get_parent() is scopes[2]
        # update(replace=False) keeps visible values, adds missing ones
        u = util.Scope(scopes[1])
        u.update({"k": 12345}, replace=False)
        obs["norepl_get"] = u.get("k", None)
        # reparent: innermost scope moved directly under s0
        r = scopes[3].clone()
        r.reparent(scopes[0])
        obs["reparent_get"] = r.get("k", None)
        # sibling of s2 under s1 is unaffected by s2/s3
        sib = util.Scope(scopes[1])
        obs["sibling_get"] = sib.get("k", None)
        return obs

    def expect(self, upto, also=None):
        """value of the nearest setter among levels listed (innermost last); None if none."""
        levels = list(upto)
        for i in reversed(levels):
            if self.setpy[i]:
                return self.vals[i]
        return None

    def judge(self, e, kind, value):
        m = e.model()
        w = {"kernel": "scope", "set": [bool(x) for x in getattr(self, "setpy", [])],
             "values": [m.eval(v, model_completion=True).as_long() for v in self.vals]}
        if kind == "exc":
            w["what"] = "exception %s: %s" % (type(value).__name__, value)
            return {"cls": "scope", "violation": w}
        fail = None

        def same(got, want, what):
            nonlocal fail
            if fail:
                return
            if want is None:
                if got is not None:
                    fail = "%s: expected no value, got one" % what
                return
            if got is None:
                fail = "%s: expected the nearest setter's value, got none" % what
                return
            gz = got.z if isinstance(got, SymInt) else got
            if e.check(gz != want) == "sat":
                fail = "%s: value differs from the nearest enclosing setter's" % what
        for i in range(4):
            same(value["get%d" % i], self.expect(range(i + 1)), "lookup at level %d" % i)
            if not fail and value["in%d" % i] != (self.expect(range(i + 1)) is not None):
                fail = "'in' at level %d disagrees with lookup" % i
            if not fail and value["local%d" % i] != self.setpy[i]:
                fail = "inlocal at level %d is %r" % (i, value["local%d" % i])
        same(value["clone_get"], self.expect(range(4)), "lookup through a clone")
        if not fail and value["clone_local"] != self.setpy[3]:
            fail = "clone lost or invented a local value (inlocal %r, original %r)" % (value["clone_local"], self.setpy[3])
        if not fail and (value["clone_own"] != 3 or not value["clone_parent_is_same"]):
            fail = "clone does not keep locals / parent"
        want = self.expect(range(2))
        if not fail:
            if want is None:
                if value["norepl_get"] != 12345:
                    fail = "update(replace=False) did not add a missing key"
            else:
                same(value["norepl_get"], want, "update(replace=False) on a visible key")
        if not fail:
            if self.setpy[3]:
                same(value["reparent_get"], self.vals[3], "reparented scope (local value)")
            else:
                same(value["reparent_get"], self.expect([0]), "reparented scope")
        same(value["sibling_get"], self.expect(range(2)), "sibling scope")
        if self.twin and not fail:
            fail = "reachability twin"
        if fail:
            w["what"] = fail
            return {"cls": "scope", "violation": w, "vkey": fail[:60]}
        return {"cls": "scope", "sample": w}


def confirm_scope(w):
    from shroud import util
    parent = None
    scopes = []
    for i in range(4):
        s = util.Scope(parent)
        if w["set"][i]:
            s.update({"k": w["values"][i]})
        s.update({"own%d" % i: i})
        scopes.append(s)
        parent = s

    def near(levels):
        for i in reversed(list(levels)):
            if w["set"][i]:
                return w["values"][i]
        return None
    for i, s in enumerate(scopes):
        if s.get("k", None) != near(range(i + 1)):
            return "lookup at level %d gives %r, nearest setter has %r" % (i, s.get("k", None), near(range(i + 1)))
        if s.inlocal("k") != w["set"][i]:
            return "inlocal at level %d is %r" % (i, s.inlocal("k"))
    c = scopes[3].clone()
    if c.get("k", None) != near(range(4)) or c.inlocal("k") != w["set"][3] or c.get("own3", None) != 3:
        return "clone: get %r inlocal %r own3 %r; original: get %r inlocal %r" % (
            c.get("k", None), c.inlocal("k"), c.get("own3", None), near(range(4)), w["set"][3])
    r = scopes[3].clone()
    r.reparent(scopes[0])
    want = w["values"][3] if w["set"][3] else near([0])
    if r.get("k", None) != want:
        return "reparent: get %r expected %r" % (r.get("k", None), want)
    return None


# ---------------------------------------------------------------------------- K2 pipeline scoping
SCOPE_LIB = """
library: scp
cxx_header: scp.hpp
options:
  wrap_python: true
  C_name_template: "{C_prefix}{C_name_scope}{tag}{underscore_name}{function_suffix}{template_suffix}"
format:
  tag: t0_
declarations:
- block: True
  declarations:
  - decl: namespace early
    declarations:
    - decl: int earlyfunc(int n)
- decl: namespace ns
  declarations:
  - decl: class Cls
    declarations:
    - decl: Cls()
    - block: True
      declarations:
      - decl: void setName(const std::string &name)
      - decl: int area(const std::string &unit, int scale = 1)
      - block: True
        declarations:
        - decl: void accum(int *arr +dimension(..), int n)
        - decl: enum Tint { PALE, DEEP = 4 }
        - decl: int visit(int (*fn)(int, double), int n)
          options:
            wrap_python: false
            wrap_lua: false
    - decl: int other()
    - decl: void put(int a)
    - decl: void put(double a)
    - block: True
      declarations:
      - decl: Cls(int size)
      - decl: ~Cls()
  - decl: int nsfunc(int n)
- decl: int libfunc(int n)
- block: True
  declarations:
  - decl: int inblock(int n)
"""
ENUMERATED_OPTIONS = ("F_string_len_trim",)
INTEGER_OPTIONS = {"F_assumed_rank_max": {"lib": 1, "ns": 2, "cls": 3, "blk": 4, "fn": 5, "fn2": 5, "fn3": 6, "en": 5, "fn4": 5}}   # a distinct value per level
LEVELS = ["lib", "ns", "cls", "blk", "fn", "fn2", "fn3", "en", "fn4"]
TAGS = {"lib": "tL_", "ns": "tN_", "cls": "tC_", "blk": "tB_", "fn": "tF_", "fn2": "tG_", "fn3": "tH_", "en": "tE_", "fn4": "tI_"}
# options whose value is text: a distinct template per level
TEXT_OPTIONS = {"C_enum_member_template": {lv: "{C_prefix}{C_name_scope}%s{enum_member_name}" % TAGS[lv] for lv in TAGS},
                "F_enum_member_template": {lv: "{F_name_scope}%s{enum_member_lower}" % TAGS[lv].lower() for lv in TAGS},
                # names of the unnamed parameters of a callback's abstract interface
                "F_abstract_interface_argument_template": {lv: "%s{index}" % TAGS[lv].lower().rstrip("_") for lv in TAGS}}
# the leaf declarations an option can show on (the four container levels are always explored)
LEAF_LEVELS = {"F_assumed_rank_max": ["fn3"], "C_enum_member_template": ["en"], "F_enum_member_template": ["en"],
               "F_abstract_interface_argument_template": ["fn4"]}


def levels_for(what):
    return ["lib", "ns", "cls", "blk"] + LEAF_LEVELS.get(what, ["fn", "fn2"])


def scope_nodes(d):
    ns = d["declarations"][1]
    cls = ns["declarations"][0]
    blk = cls["declarations"][1]
    fn = blk["declarations"][0]        # setName: has a bufferify clone
    fn2 = blk["declarations"][1]       # area: has default-argument clones
    inner = blk["declarations"][2]     # a block inside the block (no level of its own: it sets nothing)
    fn3 = inner["declarations"][0]     # accum: assumed-rank argument, one Fortran specific per rank
    en = inner["declarations"][1]      # an enumeration: the member-name templates are options
    fn4 = inner["declarations"][2]     # visit: a callback with unnamed parameters (abstract interface)
    return {"lib": d, "ns": ns, "cls": cls, "blk": blk, "fn": fn, "fn2": fn2, "fn3": fn3, "en": en, "fn4": fn4}


def leaves(d):
    """(leaf decl dict, chain of level names enclosing it, outermost first)"""
    n = scope_nodes(d)
    ns, cls, blk = n["ns"], n["cls"], n["blk"]
    out = [(d["declarations"][0]["declarations"][0]["declarations"][0], ["lib"]),
           (cls["declarations"][0], ["lib", "ns", "cls"]),
           (blk["declarations"][0], ["lib", "ns", "cls", "blk", "fn"]),
           (blk["declarations"][1], ["lib", "ns", "cls", "blk", "fn2"]),
           (n["fn3"], ["lib", "ns", "cls", "blk", "fn3"]),
           (n["en"], ["lib", "ns", "cls", "blk", "en"]),
           (n["fn4"], ["lib", "ns", "cls", "blk", "fn4"]),
           (cls["declarations"][2], ["lib", "ns", "cls"]),
           (cls["declarations"][3], ["lib", "ns", "cls"]),
           (cls["declarations"][4], ["lib", "ns", "cls"]),
           # a second block of the class holds a constructor and the destructor (a block is no level of its own here)
           (cls["declarations"][5]["declarations"][0], ["lib", "ns", "cls"]),
           (cls["declarations"][5]["declarations"][1], ["lib", "ns", "cls"]),
           (ns["declarations"][1], ["lib", "ns"]),
           (d["declarations"][2], ["lib"]),
           (d["declarations"][3]["declarations"][0], ["lib"])]
    return out


def flatten_blocks(node):
    """The description without blocks: a block's declarations take its place in the parent."""
    decls = node.get("declarations")
    if not decls:
        return
    flat = []
    for d in decls:
        if d.get("block"):
            flatten_blocks(d)
            flat.extend(d.get("declarations", []))
        else:
            flatten_blocks(d)
            flat.append(d)
    node["declarations"] = flat


class ScopePipeHarness(object):
    def __init__(self, what, twin=False):
        self.what = what      # 'F_force_wrapper' | 'C_force_wrapper' | 'tag'
        self.twin = twin

    def run(self, e):
        dA = pipeline.load_yaml(SCOPE_LIB)
        dB = pipeline.load_yaml(SCOPE_LIB)
        nodes = scope_nodes(dA)
        self.val = {}
        self.zf = {lv: z3.Bool("set_" + lv) for lv in LEVELS}
        self.zv = {lv: z3.Bool("val_" + lv) for lv in LEVELS}
        self.set = {lv: False for lv in LEVELS}
        for lv in levels_for(self.what):
            here = e.branch(self.zf[lv])
            self.set[lv] = here
            if here:
                if self.what == "tag":
                    nodes[lv].setdefault("format", {})["tag"] = TAGS[lv]
                else:
                    nodes[lv].setdefault("options", {})[self.what] = self.value(e, lv)
        # description B: each leaf declaration carries the value of its nearest enclosing setter
        for (leafA, chain), (leafB, _) in zip(leaves(dA), leaves(dB)):
            near = None
            for lv in chain:
                if self.set[lv]:
                    near = lv
            if near is not None:
                if self.what == "tag":
                    leafB.setdefault("format", {})["tag"] = TAGS[near]
                else:
                    leafB.setdefault("options", {})[self.what] = self.value(e, near)
        flatten_blocks(dB)
        rA = pipeline.run(dA, deep=False)
        rB = pipeline.run(dB, deep=False)
        return rA, rB

    def value(self, e, lv):
        if self.what in INTEGER_OPTIONS:
            return INTEGER_OPTIONS[self.what][lv]
        if self.what in TEXT_OPTIONS:
            return TEXT_OPTIONS[self.what][lv]
        if self.what in ENUMERATED_OPTIONS:
            # Shroud tests this option with `is False`: a proxy cannot stand for it, so the engine picks
            # the concrete value (one path per value, still decided by the solver's enumeration)
            if lv not in self.val:
                self.val[lv] = bool(e.branch(self.zv[lv]))
            return self.val[lv]
        return SymBool(e, self.zv[lv])

    def witness(self, m, what):
        return {"kernel": "scoping", "field": self.what, "set": {lv: bool(self.set.get(lv)) for lv in LEVELS},
                "value": {lv: bool(z3.is_true(m.eval(self.zv[lv], model_completion=True))) for lv in LEVELS}, "what": what}

    def judge(self, e, kind, value):
        m = e.model()
        cls = "scoping/" + self.what
        if kind == "exc":
            return {"cls": cls, "violation": self.witness(m, "exception %s: %s" % (type(value).__name__, str(value)[:200])),
                    "vkey": "exception:" + type(value).__name__}
        what = compare_runs(value[0], value[1])
        if self.twin and not what:
            what = "reachability twin"
        if what:
            return {"cls": cls, "violation": self.witness(m, what), "vkey": what[:60]}
        return {"cls": cls, "sample": self.witness(m, None)}


def compare_runs(rA, rB, skip=(".json",)):
    try:
        a = cc.file_texts(rA)
        b = cc.file_texts(rB)
    except TypeError as ex:
        return "proxy leaked into output: %s" % ex
    a = {f: t for f, t in a.items() if not f.endswith(skip)}
    b = {f: t for f, t in b.items() if not f.endswith(skip)}
    if set(a) != set(b):
        return "file sets differ: only in first %r, only in second %r" % (sorted(set(a) - set(b)), sorted(set(b) - set(a)))
    for f in sorted(a):
        if a[f] != b[f]:
            k = next(i for i, (x, y) in enumerate(zip(a[f] + "\0", b[f] + "\0")) if x != y)
            return "%s differs: %r vs %r" % (os.path.basename(f), a[f][max(0, k - 50):k + 30], b[f][max(0, k - 50):k + 30])
    return None


def fixed_value(field, lv, boolean):
    if field in INTEGER_OPTIONS:
        return INTEGER_OPTIONS[field][lv]
    if field in TEXT_OPTIONS:
        return TEXT_OPTIONS[field][lv]
    return boolean


def confirm_scoping(w):
    dA = pipeline.load_yaml(SCOPE_LIB)
    dB = pipeline.load_yaml(SCOPE_LIB)
    nodes = scope_nodes(dA)
    for lv in LEVELS:
        if w["set"][lv]:
            if w["field"] == "tag":
                nodes[lv].setdefault("format", {})["tag"] = TAGS[lv]
            else:
                nodes[lv].setdefault("options", {})[w["field"]] = fixed_value(w["field"], lv, w["value"][lv])
    for (leafA, chain), (leafB, _) in zip(leaves(dA), leaves(dB)):
        near = None
        for lv in chain:
            if w["set"][lv]:
                near = lv
        if near is not None:
            if w["field"] == "tag":
                leafB.setdefault("format", {})["tag"] = TAGS[near]
            else:
                leafB.setdefault("options", {})[w["field"]] = fixed_value(w["field"], near, w["value"][near])
    flatten_blocks(dB)
    try:
        return compare_runs(pipeline.run(dA, deep=False), pipeline.run(dB, deep=False))
    except Exception as ex:
        return "exception %s: %s" % (type(ex).__name__, ex)


# ---------------------------------------------------------------------------- K3 inline attributes vs attrs/fattrs
ATTR_SHAPES = [
    # (bare declaration with {a0} {a1} ... placeholders for argument attribute text and {f} for function attrs,
    #  argument names, candidate attributes per argument, candidate function attributes)
    dict(name="getData", bare="int *getData(int *len{a0}){f}", args=["len"],
         cand_args=[[("intent", "out"), ("hidden", True)]],
         cand_fn=[("dimension", "len"), ("deref", "pointer"), ("owner", "caller")]),
    dict(name="fill", bare="void fill(char *name{a0}, int n{a1}){f}", args=["name", "n"],
         cand_args=[[("intent", "out"), ("charlen", "20")], [("value", True)]],
         cand_fn=[("name", "fill_it")]),
    dict(name="sum", bare="double sum(const double *v{a0}, int n{a1}){f}", args=["v", "n"],
         cand_args=[[("rank", "1"), ("intent", "in")], [("implied", "size(v)")]],
         cand_fn=[]),
    dict(name="getName", bare="const std::string & getName(){f}", args=[],
         cand_args=[], cand_fn=[("len", "30"), ("deref", "allocatable")]),
    # the same attributes on a function with further fields beside the declaration (Fortran generic variants)
    dict(name="sumg", bare="double sumg(const double *v{a0}, int n{a1}){f}", args=["v", "n"],
         cand_args=[[("rank", "1")], [("implied", "size(v)")]],
         cand_fn=[],
         extra={"fortran_generic": [{"decl": "(const float *v +rank(1))"}, {"decl": "(const double *v +rank(1))"}]}),
]


def attr_text(pairs):
    out = []
    for k, v in pairs:
        out.append(" +%s" % k if v is True else " +%s(%s)" % (k, v))
    return "".join(out)


class AttrHarness(object):
    def __init__(self, shape, twin=False):
        self.shape = ATTR_SHAPES[shape]
        self.twin = twin

    def run(self, e):
        sh = self.shape
        chosen_args = []
        self.choice = {}
        for i, cands in enumerate(sh["cand_args"]):
            sel = []
            for (k, v) in cands:
                z = z3.Bool("a%d_%s" % (i, k))
                if e.branch(z):
                    sel.append((k, v))
                    self.choice["%s.%s" % (sh["args"][i], k)] = True
            chosen_args.append(sel)
        sel_fn = []
        for (k, v) in sh["cand_fn"]:
            z = z3.Bool("f_%s" % k)
            if e.branch(z):
                sel_fn.append((k, v))
                self.choice["fn.%s" % k] = True
        self.chosen_args, self.sel_fn = chosen_args, sel_fn
        return run_attr(sh, chosen_args, sel_fn)

    def witness(self, what):
        return {"kernel": "attrs", "shape": self.shape["name"], "chosen_args": [[list(p) for p in s] for s in self.chosen_args],
                "chosen_fn": [list(p) for p in self.sel_fn], "what": what}

    def judge(self, e, kind, value):
        cls = "attrs/" + self.shape["name"]
        if kind == "exc":
            return {"cls": cls, "violation": self.witness("exception %s: %s" % (type(value).__name__, str(value)[:200])),
                    "vkey": "exception:" + type(value).__name__}
        what = value
        if self.twin and not what:
            what = "reachability twin"
        if what:
            return {"cls": cls, "violation": self.witness(what), "vkey": what[:50]}
        return {"cls": cls, "sample": self.witness(None)}


def run_attr(sh, chosen_args, sel_fn):
    fill = {"a%d" % i: attr_text(s) for i, s in enumerate(chosen_args)}
    fill["f"] = attr_text(sel_fn)
    inline = sh["bare"].format(**fill)
    bare = sh["bare"].format(**{k: "" for k in fill})
    base = {"library": "att", "cxx_header": "att.hpp", "options": {"wrap_python": True, "wrap_lua": False}}
    extra = sh.get("extra", {})
    dA = dict(base, declarations=[dict(copy.deepcopy(extra), decl=inline)])
    node = dict(copy.deepcopy(extra), decl=bare)
    attrs = {sh["args"][i]: {k: v for k, v in s} for i, s in enumerate(chosen_args) if s}
    if attrs:
        node["attrs"] = attrs
    if sel_fn:
        node["fattrs"] = {k: v for k, v in sel_fn}
    dB = dict(base, declarations=[node])
    outs = []
    for d in (dA, dB):
        try:
            outs.append(("ok", pipeline.run(d)))
        except (RuntimeError, SystemExit) as ex:
            outs.append(("diag", "%s: %s" % (type(ex).__name__, ex)))
    if outs[0][0] != outs[1][0]:
        return "inline form %r and attrs/fattrs form disagree: %s vs %s" % (
            inline, outs[0][0] if outs[0][0] == "ok" else outs[0][1][:120], outs[1][0] if outs[1][0] == "ok" else outs[1][1][:120])
    if outs[0][0] == "diag":
        if outs[0][1] != outs[1][1]:
            # the message may quote the declaration text, which legitimately differs
            a = outs[0][1].replace(inline, "<decl>")
            b = outs[1][1].replace(bare, "<decl>")
            if a.split(":")[0] != b.split(":")[0]:
                return "different diagnostics: %r vs %r" % (outs[0][1][:150], outs[1][1][:150])
        return None
    d = compare_runs(outs[0][1], outs[1][1])
    if d:
        return "inline %r vs attrs/fattrs: %s" % (inline, d)
    return None


def confirm_attr(w):
    sh = [s for s in ATTR_SHAPES if s["name"] == w["shape"]][0]
    return run_attr(sh, [[tuple(p) for p in s] for s in w["chosen_args"]], [tuple(p) for p in w["chosen_fn"]])


# ---------------------------------------------------------------------------- K4 command line vs YAML, create_wrapper
CMD_LIB = """
library: cmdl
cxx_header: cmdl.hpp
declarations:
- decl: void setName(const std::string &name)
- decl: int area(int scale = 1, bool flag = true)
- decl: void many(int aaaaaaaaaa, int bbbbbbbbbb, int cccccccccc, int dddddddddd, int eeeeeeeeee, int ffffffffff, int gggggggggg)
"""
CMD_OPTIONS = [("debug", True, "true"), ("wrap_lua", True, "true"), ("F_line_length", 60, "60"),
               ("C_line_length", 50, "50"), ("wrap_python", True, "True"), ("doxygen", False, "false")]
# the value the file may carry for an option that is also given on the command line (main.py: "Add options from command
# line last so they replace values from YAML files")
CMD_STALE = {"debug": False, "wrap_lua": False, "F_line_length": 100, "C_line_length": 100, "wrap_python": False, "doxygen": True}


def run_main(yaml_text, option_args, language=None, use_create_wrapper=False):
    """Real main_with_args / create_wrapper on a temporary file; output captured in memory."""
    from shroud import main as smain, wrapc, wrapp
    import shroud.util as U
    tmp = tempfile.mkdtemp(prefix="c14_")
    cwd = os.getcwd()
    files = {}
    try:
        os.chdir(tmp)
        with open("lib.yaml", "w") as f:
            f.write(yaml_text)

        def mem_open(path, mode="r", *a, **k):
            if "w" in mode:
                return pipeline.MemFile(files, path)
            return open(path, mode, *a, **k)
        U.open = mem_open
        U.print = lambda *a, **k: None
        wrapc.Wrapc.capsule_code, wrapc.Wrapc.capsule_order, wrapc.Wrapc.capsule_include = {}, [], {}
        wrapp.Wrapp.capsule_code, wrapp.Wrapp.capsule_order = {}, []
        try:
            if use_create_wrapper:
                smain.create_wrapper("lib.yaml", outdir="")
            else:
                args = argparse.Namespace(cmake="", cfiles="", ffiles="", filename=["lib.yaml"], logdir="", outdir="",
                                          outdir_c_fortran="", outdir_lua="", outdir_python="", outdir_yaml="", path=[],
                                          write_helpers="", write_statements="", yaml_types="", write_version=False,
                                          option=list(option_args), language=language)
                smain.main_with_args(args)
        finally:
            del U.open
            del U.print
    finally:
        os.chdir(cwd)
        shutil.rmtree(tmp, ignore_errors=True)
    r = pipeline.Result()
    r.files = files
    return r


class CmdHarness(object):
    def __init__(self, twin=False, stale=False):
        # stale: every option (and the language) is on the command line; which of them the file states with ANOTHER value
        # is symbolic.  Otherwise: which options are on the command line (and in which spelling) is symbolic.
        self.twin, self.stale_mode = twin, stale

    def run(self, e):
        import yaml
        self.on_cmd = {}
        self.stale = {}
        d = yaml.safe_load(CMD_LIB)
        dall = yaml.safe_load(CMD_LIB)
        cmd = []
        for (name, val, txt) in CMD_OPTIONS:
            z = z3.Bool("cmd_" + name)
            dall.setdefault("options", {})[name] = val
            if self.stale_mode or e.branch(z):
                self.on_cmd[name] = True
                if isinstance(val, bool) and self.stale_mode:
                    self.on_cmd[name] = txt
                elif isinstance(val, bool):
                    # the spellings of a boolean a YAML file may use for the same field: true/false, True/False, yes/no, on/off
                    sp = z3.Int("spelling_" + name)
                    e.assume(z3.And(sp >= 0, sp < 4))
                    txt = (["true", "True", "yes", "on"] if val else ["false", "False", "no", "off"])[e.choose(sp)]
                    self.on_cmd[name] = txt
                cmd.append("%s=%s" % (name, txt))
                if self.stale_mode and e.branch(z3.Bool("stale_" + name)):
                    # the file states another value: the command line replaces it
                    d.setdefault("options", {})[name] = CMD_STALE[name]
                    self.stale[name] = True
            else:
                self.on_cmd[name] = False
                d.setdefault("options", {})[name] = val
        self.blank = False
        if "options" not in d and e.branch(z3.Bool("blank_options")):
            # every option is on the command line and the file keeps an `options:` line with nothing under it
            d["options"] = None
            self.blank = True
        lang_cmd = True if self.stale_mode else e.branch(z3.Bool("cmd_language"))
        self.lang_cmd = lang_cmd
        dall["language"] = "c++"
        if not lang_cmd:
            d["language"] = "c++"
        elif self.stale_mode and e.branch(z3.Bool("stale_language")):
            d["language"] = "c"
            self.stale["language"] = True
        try:
            rA = ("ok", run_main(yaml.safe_dump(dall), [], None))
        except (RuntimeError, SystemExit) as ex:
            rA = ("diag", str(ex))
        rB = ("ok", run_main(yaml.safe_dump(d), cmd, "c++" if lang_cmd else None))
        return rA, rB

    def witness(self, what):
        return {"kernel": "cmdline", "on_command_line": dict(self.on_cmd), "language_on_command_line": self.lang_cmd,
                "other_value_in_file": dict(self.stale), "blank_options_in_file": bool(getattr(self, "blank", False)), "what": what}

    def judge(self, e, kind, value):
        if kind == "exc":
            return {"cls": "cmdline", "violation": self.witness("--option form fails: %s: %s" % (type(value).__name__, str(value)[:200])),
                    "vkey": "exception:" + type(value).__name__}
        rA, rB = value
        what = None
        if rA[0] != "ok":
            what = "all-YAML run failed: " + rA[1][:100]
        else:
            what = compare_runs(rA[1], rB[1], skip=(".json", ".log"))
        if self.twin and not what:
            what = "reachability twin"
        if what:
            return {"cls": "cmdline", "violation": self.witness(what), "vkey": what[:50]}
        return {"cls": "cmdline", "sample": self.witness(None)}


def confirm_cmd(w):
    import yaml
    d = yaml.safe_load(CMD_LIB)
    dall = yaml.safe_load(CMD_LIB)
    cmd = []
    for (name, val, txt) in CMD_OPTIONS:
        dall.setdefault("options", {})[name] = val
        if w["on_command_line"].get(name):
            if isinstance(w["on_command_line"][name], str):
                txt = w["on_command_line"][name]
            cmd.append("%s=%s" % (name, txt))
            if w.get("other_value_in_file", {}).get(name):
                d.setdefault("options", {})[name] = CMD_STALE[name]
        else:
            d.setdefault("options", {})[name] = val
    if w.get("blank_options_in_file") and "options" not in d:
        d["options"] = None
    dall["language"] = "c++"
    if not w["language_on_command_line"]:
        d["language"] = "c++"
    elif w.get("other_value_in_file", {}).get("language"):
        d["language"] = "c"
    try:
        rA = run_main(yaml.safe_dump(dall), [], None)
        rB = run_main(yaml.safe_dump(d), cmd, "c++" if w["language_on_command_line"] else None)
    except Exception as ex:
        return "--option form fails: %s: %s" % (type(ex).__name__, str(ex)[:200])
    return compare_runs(rA, rB, skip=(".json", ".log"))


def check_create_wrapper():
    """create_wrapper(filename, outdir) must equal the command line with the same arguments."""
    try:
        rA = run_main(CMD_LIB, [], None)
    except Exception as ex:
        return "command-line run failed: %s" % ex
    try:
        rB = run_main(CMD_LIB, [], None, use_create_wrapper=True)
    except Exception as ex:
        return "create_wrapper('lib.yaml', outdir='') fails: %s: %s" % (type(ex).__name__, str(ex)[:200])
    # create_wrapper has no --nowrite-version: compare modulo the version line
    import re
    strip = lambda t: re.sub(r"(?m)^(.{1,3}) This file is generated by Shroud [^\n]*\n", "", t)
    a = {f: strip(t) for f, t in cc.file_texts(rA).items() if not f.endswith((".json", ".log"))}
    b = {f: strip(t) for f, t in cc.file_texts(rB).items() if not f.endswith((".json", ".log"))}
    if a != b:
        return "create_wrapper output differs from the command line's: files %r" % sorted(f for f in set(a) | set(b) if a.get(f) != b.get(f))[:5]
    return None


# a library processed earlier in the same process (a setup.py that builds two extension modules calls create_wrapper twice);
# each call must still equal its own command-line run.  The earlier library uses the documented `typemap:` section to
# change a predefined type, or is the library itself.
HISTORY_PREV = {
    "none": None,
    "typemap-c": """
library: first
language: c
options:
  wrap_python: false
  wrap_lua: false
typemap:
- type: int
  fields:
    f_type: integer(C_INT32_T)
    f_kind: C_INT32_T
    f_module:
      iso_c_binding: [C_INT32_T]
declarations:
- decl: int First(int arg)
""",
    "same": None,   # filled below
}
HISTORY_LIB = """
library: second
language: c
options:
  wrap_python: false
  wrap_lua: false
declarations:
- decl: int Second(int arg)
- decl: double Third(const double *v +rank(1), int n +implied(size(v)))
"""
HISTORY_PREV["same"] = HISTORY_LIB


def check_create_wrapper_history(only=None):
    """create_wrapper(file, outdir) called after another create_wrapper call of the same process must equal the command
    line (a fresh process: `python -m shroud.main`) on the same file."""
    import re
    import subprocess
    import sys
    from shroud import main as smain
    import shroud.util as U
    strip = lambda t: re.sub(r"(?m)^(.{1,3}) This file is generated by Shroud [^\n]*\n", "", t)

    def read_dir(d):
        out = {}
        for f in sorted(os.listdir(d)):
            if f.endswith((".json", ".log")):
                continue
            with open(os.path.join(d, f)) as fh:
                out[f] = strip(fh.read())
        return out
    tmp = tempfile.mkdtemp(prefix="c14h_")
    cwd = os.getcwd()
    try:
        os.chdir(tmp)
        with open("second.yaml", "w") as f:
            f.write(HISTORY_LIB)
        os.mkdir("cmd")
        env = dict(os.environ, PYTHONPATH=os.pathsep.join(p for p in sys.path if p))
        r = subprocess.run([sys.executable, "-c", "import sys, shroud.main; sys.argv = ['shroud'] + sys.argv[1:]; shroud.main.main()",
                            "--outdir", "cmd", "second.yaml"], env=env, stdout=subprocess.PIPE, stderr=subprocess.STDOUT, timeout=120)
        if r.returncode != 0:
            return "command-line run failed: %s" % r.stdout.decode()[-200:]
        ref = read_dir("cmd")
        U.print = lambda *a, **k: None
        try:
            for name in sorted(HISTORY_PREV):
                if only and name != only:
                    continue
                prev = HISTORY_PREV[name]
                if prev is not None:
                    with open("prev.yaml", "w") as f:
                        f.write(prev)
                    os.mkdir("p_" + name)
                    smain.create_wrapper("prev.yaml", outdir="p_" + name)
                os.mkdir("o_" + name)
                smain.create_wrapper("second.yaml", outdir="o_" + name)
                got = read_dir("o_" + name)
                if got != ref:
                    bad = sorted(f for f in set(got) | set(ref) if got.get(f) != ref.get(f))
                    return "create_wrapper after an earlier create_wrapper call (history %r) differs from the command line's output: files %r" % (name, bad[:5])
        finally:
            del U.print
    except Exception as ex:
        return "create_wrapper history kernel fails: %s: %s" % (type(ex).__name__, str(ex)[:200])
    finally:
        os.chdir(cwd)
        shutil.rmtree(tmp, ignore_errors=True)
    return None


# ---------------------------------------------------------------------------- main
def make_scope(**kw):
    return ScopeHarness(**kw)


def make_scope_pipe(**kw):
    return ScopePipeHarness(**kw)


def make_attr(**kw):
    return AttrHarness(**kw)


# ---------------------------------------------------------------------------- K5 other placements
PLACE_LIB = """
library: plc
cxx_header: plc.hpp
options:
  wrap_python: true
  wrap_lua: true
declarations:
- decl: int libfunc(int n)
- decl: namespace calc
  declarations:
  - decl: int twice(int n)
  - decl: double half(double x)
- decl: template<typename T> class Box
  cxx_template:
  - instantiation: <int>
  declarations:
  - decl: Box()
  - decl: int *count()
  - decl: void put(T value)
  - block: true
    declarations:
    - decl: void tune(T value, int level)
    - decl: int level() const
"""
PLACEMENTS = [
    # (name, container placement, equivalent placement on the contained declarations)
    ("namespace format CXX_this_call", ("ns", "format", {"CXX_this_call": "calc::impl::"}), ("ns-functions", "format", {"CXX_this_call": "calc::impl::"})),
    ("namespace format LUA_this_call", ("ns", "format", {"LUA_this_call": "calc::impl::"}), ("ns-functions", "format", {"LUA_this_call": "calc::impl::"})),
    ("namespace format PY_this_call", ("ns", "format", {"PY_this_call": "calc::impl::"}), ("ns-functions", "format", {"PY_this_call": "calc::impl::"})),
    ("instantiation options F_force_wrapper", ("inst", "options", {"F_force_wrapper": True}), ("class", "options", {"F_force_wrapper": True})),
    ("instantiation options return_scalar_pointer", ("inst", "options", {"return_scalar_pointer": "scalar"}),
     ("class", "options", {"return_scalar_pointer": "scalar"})),
    ("instantiation options debug", ("inst", "options", {"debug": True}), ("class-functions", "options", {"debug": True})),
    ("class options F_force_wrapper", ("class", "options", {"F_force_wrapper": True}), ("class-functions", "options", {"F_force_wrapper": True})),
    # a block inside the class template: what it sets must reach its functions in every instantiation
    ("block in a class template: options F_force_wrapper", ("tblock", "options", {"F_force_wrapper": True}), ("tblock-functions", "options", {"F_force_wrapper": True})),
    ("block in a class template: format function_suffix", ("tblock", "format", {"function_suffix": "_blk"}), ("tblock-functions", "format", {"function_suffix": "_blk"})),
    ("block in a class template: options wrap_fortran", ("tblock", "options", {"wrap_fortran": False}), ("tblock-functions", "options", {"wrap_fortran": False})),
]


def place(d, where, field, values):
    ns = d["declarations"][1]
    cls = d["declarations"][2]
    blk = [t for t in cls["declarations"] if "block" in t][0]
    targets = {"ns": [ns], "ns-functions": ns["declarations"], "class": [cls],
               "class-functions": [t for t in cls["declarations"] if "block" not in t] + blk["declarations"],
               "inst": [cls["cxx_template"][0]], "tblock": [blk], "tblock-functions": blk["declarations"]}[where]
    for t in targets:
        t.setdefault(field, {}).update(values)


class PlacementHarness(object):
    """A format field / option placed on a container and, equivalently, on what it contains (K2 covers
    library / namespace / class / block / function for three options and a user field; this kernel covers the
    placements K2 does not have: the this_call format fields of a namespace, and the options of a class
    template instantiation entry)."""

    def __init__(self, twin=False):
        self.twin = twin

    def run(self, e):
        v = z3.Int("placement")
        e.assume(z3.And(v >= 0, v < len(PLACEMENTS)))
        self.k = e.choose(v)
        name, a, b = PLACEMENTS[self.k]
        dA, dB = pipeline.load_yaml(PLACE_LIB), pipeline.load_yaml(PLACE_LIB)
        place(dA, *a)
        place(dB, *b)
        return pipeline.run(dA, deep=False), pipeline.run(dB, deep=False)

    def witness(self, what):
        return {"kernel": "placement", "placement": PLACEMENTS[self.k][0], "index": self.k, "what": what}

    def judge(self, e, kind, value):
        cls = "placement"
        if kind == "exc":
            return {"cls": cls, "violation": self.witness("exception %s: %s" % (type(value).__name__, str(value)[:200])), "vkey": "placement:exc"}
        what = compare_runs(value[0], value[1])
        if self.twin and not what:
            what = "reachability twin"
        if what:
            return {"cls": cls, "violation": self.witness(what), "vkey": "placement:%d" % self.k}
        return {"cls": cls, "sample": self.witness(None)}


def confirm_placement(w):
    name, a, b = PLACEMENTS[w["index"]]
    dA, dB = pipeline.load_yaml(PLACE_LIB), pipeline.load_yaml(PLACE_LIB)
    place(dA, *a)
    place(dB, *b)
    try:
        return compare_runs(pipeline.run(dA, deep=False), pipeline.run(dB, deep=False))
    except Exception as ex:
        return "exception %s: %s" % (type(ex).__name__, ex)


def make_placement(**kw):
    return PlacementHarness(**kw)


def make_cmd(**kw):
    return CmdHarness(**kw)


def confirm(w):
    k = w.get("kernel")
    if k == "scope":
        return confirm_scope(w)
    if k == "scoping":
        return confirm_scoping(w)
    if k == "attrs":
        return confirm_attr(w)
    if k == "cmdline":
        return confirm_cmd(w)
    if k == "placement":
        return confirm_placement(w)
    if k == "create_wrapper":
        return check_create_wrapper()
    if k == "create_wrapper_history":
        return check_create_wrapper_history()
    return None


def main():
    tier, seed, rp = checklib.tier_and_seed()
    if rp:
        with open(rp) as f:
            w = json.load(f)
        v = confirm(w)
        print("case:", json.dumps({k: w[k] for k in w if k != "what"}))
        print("verdict:", v or "property holds on this case")
        if v:
            print("VIOLATION property=%s replay=%s" % (PID, rp))
        return 1 if v else 0
    rep = checklib.Report(PID)
    scan = cc.static_is_scan(["F_force_wrapper", "C_force_wrapper"])
    for ln in scan:
        rep.inconc("identity test on a value this harness makes symbolic: " + ln)
    specs = [("harness.C14", "make_scope", {})]
    labels = ["util.Scope laws"]
    for what in ("tag", "F_force_wrapper", "C_force_wrapper", "F_string_len_trim", "F_create_generic", "F_assumed_rank_max", "C_enum_member_template", "F_enum_member_template", "F_abstract_interface_argument_template"):
        specs.append(("harness.C14", "make_scope_pipe", dict(what=what)))
        labels.append("pipeline scoping of %s" % what)
    for i in range(len(ATTR_SHAPES)):
        specs.append(("harness.C14", "make_attr", dict(shape=i)))
        labels.append("inline vs attrs/fattrs: %s" % ATTR_SHAPES[i]["name"])
    specs.append(("harness.C14", "make_cmd", {}))
    labels.append("--option/--language vs YAML")
    specs.append(("harness.C14", "make_cmd", dict(stale=True)))
    labels.append("--option/--language replace another value stated in the file")
    specs.append(("harness.C14", "make_placement", {}))
    labels.append("namespace this_call fields / class template instantiation options")
    accs = driver.explore_many(specs, split_depth=4, time_budget_s=600 if tier == "quick" else 3000, max_decisions=20000)
    total = driver.Acc()
    runs = []
    for lab, a in zip(labels, accs):
        total.merge(a)
        runs.append({"exploration": lab, "paths": a.stats.paths, "violations": a.nviol})
        for msg in a.inconclusive:
            rep.inconc("%s: %s" % (lab, msg))
    tws = [driver.explore(("harness.C14", f, dict(kw, twin=True)), nworkers=1)
           for f, kw in (("make_scope", {}), ("make_attr", dict(shape=1)))]
    twin_ok = all(t.stats.paths > 0 and t.nviol == t.stats.paths and not t.inconclusive for t in tws)
    if not twin_ok:
        rep.inconc("reachability twin failed")
    viol = list(total.violations)
    cw = check_create_wrapper()
    if cw:
        viol.append({"kernel": "create_wrapper", "what": cw, "_vkey": "create_wrapper"})
    ch = check_create_wrapper_history()
    if ch:
        viol.append({"kernel": "create_wrapper_history", "what": ch, "_vkey": "create_wrapper_history"})
    known = [k for k in checklib.load_known(PID) if k.get("status") == "known"]
    seen, confirmed, printed = set(), 0, set()
    for i, v in enumerate(viol):
        verdict = confirm(v)
        if verdict is None:
            rep.inconc("counterexample did not reproduce on the plain run: %r" % (v,))
            continue
        confirmed += 1
        kf = [k for k in known if k["key"] in verdict]
        if kf:
            if kf[0]["key"] not in printed:
                printed.add(kf[0]["key"])
                rep.known_finding("%s (%s)" % (kf[0]["what_fails"], verdict[:160]))
            continue
        key = v.get("_vkey")
        if key in seen:
            continue
        seen.add(key)
        path = checklib.write_replay(PID, "cex%03d" % i, v)
        rep.violation(path, "%s  case=%r [%d paths]" % (verdict, {k: v[k] for k in v if k not in ("what", "_vkey")}, total.vcount.get(key, 1)))
    samples = []
    for cls, lst in sorted(total.samples.items()):
        samples.extend(lst[:1])
    cov = {
        "explanation": "K1 decides the Scope laws with z3 over symbolic integer values and engine-chosen placements. K2-K4 run the whole "
                       "real pipeline twice per path (two equivalent ways of stating a customisation, chosen by symbolic booleans) and "
                       "compare all generated files byte for byte; the placements/splits are exhaustive within the listed shapes.",
        "evaluations": total.stats.paths + 1,
        "distinct_nontrivial": total.stats.paths + 1,
        "samples": samples[:8],
        "exhaustive": True,
        "functions_encoded": ["shroud.util.Scope (__getattr__, get, update, clone, reparent, inlocal, __contains__)",
                              "Library/Namespace/Class/Block/FunctionNode.__init__ and default_format; FunctionNode.clone",
                              "FunctionNode.__init__ attrs/fattrs merge; declast.Parser.attribute; generate.VerifyAttrs",
                              "shroud.main.main_with_args (--option, --language), create_wrapper"],
        "bounds": {"scope_chain_depth": 4, "pipeline_levels": LEVELS, "scoped_fields": ["format field tag (referenced from C_name_template)", "F_force_wrapper", "C_force_wrapper", "F_string_len_trim", "F_create_generic", "F_assumed_rank_max (a distinct integer per level)", "C_enum_member_template / F_enum_member_template / F_abstract_interface_argument_template (a distinct template per level)"],
                   "attribute_shapes": [s["bare"] for s in ATTR_SHAPES], "command_line_options": [o[0] for o in CMD_OPTIONS]},
        "solver": {"name": "z3 " + z3.get_version_string(), "queries": total.stats.queries, "solver_s": round(total.stats.solver_s, 2)},
        "reachability_twin_ok": twin_ok,
        "create_wrapper_checked": True,
        "runs": runs,
    }
    assumptions = [
        "K2: equality is byte equality of every generated file except the JSON dump (which records where an option was written)",
        "K3: attribute values in attrs/fattrs are given as the same text the inline form carries",
        "K4: runs go through the real main_with_args on a temporary YAML file in a temporary directory; output files are captured in memory",
        "options compared with `is True/False` inside Shroud are never made symbolic (static scan on every run)",
    ]
    checklib.write_evidence(PID, tier, seed, "other", cov, assumptions, rep.wall(), len(rep.violations))
    return rep.finish()


if __name__ == "__main__":
    sys.exit(main())
