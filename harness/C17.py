"""C17 - invalid input is rejected with a diagnostic, never by an internal failure (bounded)."""
import json
import sys
import os

sys.path.insert(0, os.path.dirname(os.path.dirname(os.path.abspath(__file__))))
from lib import checklib  # noqa: E402
from harness import parse_explore as pe  # noqa: E402

PID = "C17"

ASSUMPTIONS = [
    "token values come from a finite alphabet (listed in coverage.bounds); identifiers resolve to: unknown name, typedef, namespace, class, std::string, std::vector, template parameter",
    "the reference reading (gen/refdecl.py) is the C++ meaning for the documented subset; accepted inputs the reference cannot give a meaning to (semantic:*) are counted, not judged",
    "agreement with a real compiler's std::is_same is outside the technique",
    "SymKind.__format__ renders token kinds as '<KIND>' inside diagnostics (kind names contain no format metacharacters)",
    "default values: renderings with '=init' are only required to denote the same type; round trip is required for declarations without default values",
]


def run_kernels(tier, rep):
    """Attribute-validation and YAML-structure kernels (harness/c17_kernels.py)."""
    import contextlib
    import io
    from engines.shadowsym import driver
    from harness import c17_kernels as ck
    specs, labels = ck.specs(tier)
    with contextlib.redirect_stdout(io.StringIO()):
        accs = driver.explore_many(specs, split_depth=2, time_budget_s=1200, max_decisions=20000)
        tw = driver.explore(("harness.c17_kernels", "make_attr", dict(kind="arg", shape=1, nattr=1, twin=True)), nworkers=1)
    total = driver.Acc()
    for lab, a in zip(labels, accs):
        total.merge(a)
        for msg in a.inconclusive:
            rep.inconc("%s: %s" % (lab, msg))
    if not (tw.stats.paths > 0 and tw.nviol == tw.stats.paths and not tw.inconclusive):
        rep.inconc("attribute kernel reachability twin failed")
    known = checklib.load_known(PID)
    groups = {}
    for v in total.violations:
        groups.setdefault(v["_vkey"], []).append(v)
    confirmed = 0
    for key, vs in sorted(groups.items()):
        v = vs[0]
        with contextlib.redirect_stdout(io.StringIO()):
            ok, detail = ck.confirm(v)
        if not ok:
            rep.inconc("kernel counterexample (%s) did not reproduce: %r" % (key, detail))
            continue
        confirmed += 1
        kf = [k for k in known if k.get("key") == key and k.get("status") == "known"]
        if kf:
            rep.known_finding("%s (e.g. %s; %d paths)" % (kf[0]["what_fails"], json.dumps(v.get("fields") or v.get("decl")), total.vcount.get(key, 1)))
            continue
        path = checklib.write_replay(PID, "kernel_%03d" % confirmed, v)
        rep.violation(path, "%s  input=%s  [%d paths; key=%s]" % (v["what"], json.dumps(v.get("fields") or v.get("decl")), total.vcount.get(key, 1), key))
    samples = []
    for cls, lst in sorted(total.samples.items()):
        s0 = lst[0]
        samples.append({"class": cls, "input": s0.get("decl") or s0.get("fields")})
    return {"attribute_and_yaml_kernels": {
        "paths": total.stats.paths, "queries": total.stats.queries, "solver_s": round(total.stats.solver_s, 2),
        "outcome_classes": dict(total.counts), "violation_classes_confirmed": confirmed,
        "attribute_candidates": len(ck.ATTR_CANDIDATES), "argument_shapes": ck.ARG_SHAPES, "result_shapes": ck.RESULT_SHAPES,
        "yaml_fields": ["/".join(p) for p, _ in ck.FIELDS], "yaml_shapes_per_field": ck.WRONG,
        "samples": samples[:10],
        "functions_encoded": ["shroud.generate.VerifyAttrs.check_fcn_attrs/check_arg_attrs/check_var_attrs/check_common_attrs/"
                              "check_intent_attr/check_deref_attr/check_implied_attrs", "shroud.generate.check_implied / CheckImplied",
                              "shroud.ast.clean_dictionary, add_declarations, create_library_from_dictionary, LibraryNode.__init__"]}}


def main():
    tier, seed, rp = checklib.tier_and_seed()
    if rp:
        with open(rp) as f:
            w = json.load(f)
        if w.get("kernel") in ("attrs", "yaml"):
            from harness import c17_kernels as ck
            ok, detail = ck.confirm(w)
        else:
            ok, detail = pe.confirm(PID, w)
        print(json.dumps(detail, indent=1, default=str))
        if ok:
            print("VIOLATION property=%s replay=%s" % (PID, rp))
            return 1
        print("property holds on this input")
        return 0
    rep = checklib.Report(PID)
    extra = run_kernels(tier, rep)
    if os.environ.get("C17_KERNELS_ONLY"):          # dev switch: no evidence is written
        print(json.dumps(extra["attribute_and_yaml_kernels"]["outcome_classes"], indent=1))
        return rep.finish()
    cov = pe.run_check(PID, tier, seed, rep, extra_cov=extra)
    checklib.write_evidence(PID, tier, seed, "model_checking", cov, ASSUMPTIONS, rep.wall(), len(rep.violations))
    return rep.finish()


if __name__ == "__main__":
    sys.exit(main())
