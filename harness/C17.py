"""C17 - invalid input is rejected with a diagnostic, never by an internal failure (bounded)."""
import json
import sys
import os

sys.path.insert(0, os.path.dirname(os.path.dirname(os.path.abspath(__file__))))
from lib import checklib  # noqa: E402
from harness import parse_explore as pe  # noqa: E402

PID = "C17"

ASSUMPTIONS = [
    "token values come from a finite alphabet (listed in coverage.bounds); identifiers resolve to: unknown name, typedef, namespace, class, std::string, std::vector, template parameter",
    "the reference reading (gen/refdecl.py) is the C++ meaning for the documented subset; accepted inputs the reference cannot give a meaning to (semantic:*) are counted, not judged",
    "agreement with a real compiler's std::is_same is outside the technique",
    "SymKind.__format__ renders token kinds as '<KIND>' inside diagnostics (kind names contain no format metacharacters)",
    "default values: renderings with '=init' are only required to denote the same type; round trip is required for declarations without default values",
]


def main():
    tier, seed, rp = checklib.tier_and_seed()
    if rp:
        with open(rp) as f:
            w = json.load(f)
        ok, detail = pe.confirm(PID, w)
        print(json.dumps(detail, indent=1, default=str))
        if ok:
            print("VIOLATION property=%s replay=%s" % (PID, rp))
            return 1
        print("property holds on this input")
        return 0
    rep = checklib.Report(PID)
    cov = pe.run_check(PID, tier, seed, rep)
    checklib.write_evidence(PID, tier, seed, "model_checking", cov, ASSUMPTIONS, rep.wall(), len(rep.violations))
    return rep.finish()


if __name__ == "__main__":
    sys.exit(main())
