"""Additional C17 kernels: attribute validation and YAML structure validation.

Both run the real code (ast.create_library_from_dictionary -> generate.generate_functions, i.e.
VerifyAttrs.check_fcn_attrs / check_arg_attrs / check_var_attrs and everything before any file is
written) on inputs chosen by the engine from finite candidate lists (Engine.choose on z3 integers):
the attribute set on each argument / function, and the shape of each YAML field.
Outcome per path must be acceptance or a RuntimeError / SystemExit diagnostic with a message.
"""
import copy
import os
import re
import traceback

import z3

from engines.shadowsym.core import Infeasible

OK_EXC = (RuntimeError, SystemExit)

ATTR_CANDIDATES = [
    None,
    ("intent", "in"), ("intent", "out"), ("intent", "inout"), ("intent", "bogus"),
    ("value", True), ("hidden", True), ("external", True), ("cdesc", True), ("assumedtype", True),
    ("rank", "0"), ("rank", "1"), ("rank", "2"), ("rank", "x"), ("rank", "-1"), ("rank", "9"),
    ("dimension", "n"), ("dimension", ":"), ("dimension", ".."), ("dimension", "n+1,2"), ("dimension", ""), ("dimension", True), ("dimension", "n+"),
    ("implied", "size(p)"), ("implied", "size()"), ("implied", "size(p,2)"), ("implied", "size(q)"), ("implied", "len(p)"),
    ("implied", "len()"), ("implied", "len_trim(p)"), ("implied", "n+"), ("implied", "bad("), ("implied", "1+size()"),
    ("len", "30"), ("len", "n"), ("charlen", "20"), ("charlen", "x y"),
    ("deref", "allocatable"), ("deref", "pointer"), ("deref", "raw"), ("deref", "scalar"), ("deref", "bogus"),
    ("owner", "caller"), ("owner", "library"), ("owner", "bogus"),
    ("allocatable", "mold=p"), ("allocatable", "n"), ("free_pattern", "pat"), ("free_pattern", "nosuch"),
    ("api", "buf"), ("api", "capi"), ("api", "cfi"), ("api", "bogus"),
    ("default", "1"), ("name", "other"), ("nosuchattribute", True), ("pure", True), ("template", "T"),
    # attributes that take a value, written without one
    ("intent", True), ("rank", True), ("deref", True), ("owner", True), ("implied", True), ("len", True), ("api", True),
    ("free_pattern", True), ("allocatable", True), ("name", True), ("len_trim", True), ("size", True),
    # the argument of size/len/len_trim is not an argument name; text after a complete expression
    ("implied", "size(3)"), ("implied", "size(p+1)"), ("implied", "len(3)"), ("implied", "size(p) 4"), ("implied", "n 1"),
    ("dimension", "3 4"), ("dimension", "n,2 n"), ("rank", "8"), ("rank", "7"), ("implied", "size(zzz)"), ("implied", "len(zzz)"),
    ("implied", "size(p,)"), ("implied", "size(p,2,)"),
    # documented form +name=scalar with a number where text is expected (and +len=30, documented)
    ("intent", "=1"), ("implied", "=1"), ("dimension", "=2"), ("name", "=1.5"), ("deref", "=1"), ("owner", "=x"), ("len", "=30"),
    ("charlen", "=8"), ("rank", "=1"), ("free_pattern", "=1"),
]

ARG_SHAPES = ["int a", "int *p", "const int *p", "int &p", "char *p", "const char *p", "char **p", "std::string &p",
              "const std::string &p", "std::vector<int> &p", "const std::vector<double> &p", "void *p", "bool a",
              "void (*p)(int)", "Color a", "Class1 *p", "Class1 &p", "double **p",
              # {A}: the attributes go on the parameter of the function pointer / on the defaulted first parameter
              "void (*cb)(int x{A})", "void (*cb)(int *p{A})", "void (*cb)(std::vector<int> &p{A})", "int a{A} = 1"]
DEFAULT_FIRST = ARG_SHAPES.index("int a{A} = 1")
RESULT_SHAPES = ["void", "int", "int *", "const char *", "std::string", "const std::string &", "std::vector<int>",
                 "Class1 *", "Class1 &", "double *", "bool", "void *", "char"]


TMPL_HEADERS = ["", "template<>", "template<typename T>", "template<class T>", "template<typename T, typename U>", "template<int N>"]
TMPL_BODIES = ["void f()", "void f(T a)", "T f(U a)", "T *f(int n)", "class C", "class Class1", "int v", "T v", "namespace inner", "typedef int ty",
               "struct S { T a; }", "void f(Class1<T> *p)", "void f(std::vector<T> &a)"]
TMPL_INSTANCES = [None, ["<int>"], ["<int>", "<double>"], ["<int,double>"], ["<>"], ["int"], ["<nosuchtype>"], ["<int"], [],
                  ["<int> garbage"], ["<int>>"], ["<int> <double>"], ["<int,double> x"]]


# text after the closing parenthesis of a fortran_generic entry's parameter list
GENERIC_TAILS = ["", " junk", " )"]


def attr_text(pair):
    if pair is None:
        return ""
    k, v = pair
    if v is True:
        return " +%s" % k
    if v.startswith("="):
        return " +%s%s" % (k, v)
    return " +%s(%s)" % (k, v)


def site_of(ex):
    tb = traceback.extract_tb(ex.__traceback__)
    site = None
    for fr in tb:
        if "/shroud/" in fr.filename:
            site = (os.path.basename(fr.filename), fr.name, (fr.line or "").strip())
    return site


def via_of(ex):
    """Innermost frame in generate.py / ast.py: tells apart failures that end in the same utility (tokenizer, un_camel)."""
    via = None
    for fr in traceback.extract_tb(ex.__traceback__):
        if fr.filename.endswith(("/shroud/generate.py", "/shroud/ast.py")):
            via = fr.name
    return via


def generate_only(d):
    """The real front half of main_with_args: build the library and run generate_functions."""
    from shroud import ast, generate, main as smain, typemap
    import io
    typemap.initialize()
    config = smain.Config()
    config.log = io.StringIO()
    lib = ast.create_library_from_dictionary(d)
    generate.generate_functions(lib, config)
    return lib


def base_library(decls, language="c++"):
    return {"library": "att", "cxx_header": "att.hpp", "language": language,
            "options": {"wrap_python": True, "wrap_lua": False},
            "patterns": {"pat": "free_it({cxx_var});"},
            "declarations": [{"decl": "class Class1"}, {"decl": "enum Color { RED, BLUE }"}] + decls}


class AttrHarness(object):
    """kind='arg': one argument shape with <= 2 engine-chosen attributes (+ a second int argument n);
    kind='result': one result shape with <= 2 engine-chosen function attributes."""

    def __init__(self, kind, shape, nattr=2, twin=False):
        self.kind, self.shape, self.nattr, self.twin = kind, shape, nattr, twin

    def run(self, e):
        picks = []
        for i in range(self.nattr):
            v = z3.Int("att%d" % i)
            e.assume(z3.And(v >= 0, v < len(ATTR_CANDIDATES)))
            if i > 0:
                e.assume(z3.Or(v == 0, v > z3.Int("att%d" % (i - 1))))      # unordered pairs
            picks.append(ATTR_CANDIDATES[e.choose(v)])
        self.picks = picks
        at = "".join(attr_text(p) for p in picks)
        if self.kind == "arg":
            shape = ARG_SHAPES[self.shape]
            shape = shape.replace("{A}", at) if "{A}" in shape else shape + at
            self.decl = "void f(%s, int n, int *q)" % shape
        elif self.kind == "generic":
            # the attributes sit on an argument of a fortran_generic entry (its own parameter list), not on the declaration
            self.decl = "void f(double *p, int n, int *q)"
            tv = z3.Int("generic_tail")
            e.assume(z3.And(tv >= 0, tv < len(GENERIC_TAILS)))
            self.tail = GENERIC_TAILS[e.choose(tv)]
            self.entry = {"decl": self.decl, "fortran_generic": [{"decl": "(float *p, int n%s, int *q)%s" % (at, self.tail)},
                                                                 {"decl": "(double *p, int n, int *q)"}]}
            generate_only(base_library([copy.deepcopy(self.entry)]))
            return "accepted"
        elif self.kind == "tmpl":
            self.decl = None
            return self.run_template(e)
        elif self.kind == "var":
            self.decl = "%s%s" % (ARG_SHAPES[self.shape].replace(" p", " gv").replace(" a", " gv").replace("*p", "*gv").replace("&p", "*gv"), at)
        else:
            self.decl = "%s f(int n, int *p)%s" % (RESULT_SHAPES[self.shape], at)
        generate_only(base_library([{"decl": self.decl}]))
        return "accepted"

    def run_template(self, e):
        """kind='tmpl': a template header, a declaration body and a cxx_template list, each engine-chosen."""
        idx = []
        for name, lst in (("hdr", TMPL_HEADERS), ("body", TMPL_BODIES), ("inst", TMPL_INSTANCES)):
            v = z3.Int("tmpl_" + name)
            e.assume(z3.And(v >= 0, v < len(lst)))
            idx.append(e.choose(v))
        self.decl = ("%s %s" % (TMPL_HEADERS[idx[0]], TMPL_BODIES[idx[1]])).strip()
        self.entry = {"decl": self.decl}
        if TMPL_INSTANCES[idx[2]] is not None:
            self.entry["cxx_template"] = [{"instantiation": t} for t in TMPL_INSTANCES[idx[2]]]
        generate_only(base_library([copy.deepcopy(self.entry)]))
        return "accepted"

    def witness(self, what, extra=None):
        w = {"kernel": "attrs", "decl": self.decl, "what": what}
        if self.kind in ("tmpl", "generic"):
            w["entry"] = getattr(self, "entry", None)
        if extra:
            w.update(extra)
        return w

    def judge(self, e, kind, value):
        cls = "attrs/%s" % self.kind
        if kind == "exc":
            if isinstance(value, OK_EXC):
                if not str(value).strip():
                    return {"cls": cls + "/rejected-empty", "violation": self.witness("rejected without any message", {"exc": type(value).__name__}),
                            "vkey": "attrs/empty-diagnostic"}
                if self.twin:
                    return {"cls": cls, "violation": self.witness("reachability twin"), "vkey": "twin"}
                ok = documented_valid(self.kind, self.shape, self.picks)
                if ok:
                    return {"cls": cls + "/rejected-valid",
                            "violation": self.witness("rejected (%s) although %s" % (str(value).strip().splitlines()[0][:80], ok), {"valid": ok}),
                            "vkey": "attrs/rejected-valid:" + ok[:50]}
                return {"cls": cls + "/rejected", "sample": self.witness(None)}
            site = site_of(value)
            via = via_of(value)
            key = "internal/%s@%s:%s" % (type(value).__name__, site[1] if site else None, site[2] if site else None)
            if via and site and via != site[1]:
                key += ";via=" + via
            return {"cls": cls + "/internal:" + type(value).__name__,
                    "violation": self.witness("internal %s: %s" % (type(value).__name__, str(value)[:120]),
                                              {"exc": type(value).__name__, "site": list(site) if site else None, "via": via}),
                    "vkey": key}
        why = documented_misuse(self.kind, self.shape, self.picks)
        if not why and self.kind == "generic" and getattr(self, "tail", "").strip():
            why = "the fortran_generic entry has text (%r) after its parameter list" % self.tail.strip()
        if not why and self.kind == "tmpl" and (self.decl or "").startswith("template") and \
                ("(" in self.decl or self.decl.endswith("class C")):
            # judged where the list is read: function templates and a new class template.  (Without a template header, on a
            # variable / typedef / namespace / struct, and on `class Class1` - which re-declares a class the library already
            # has, so that Shroud returns the existing node - nothing of the entry is read at all.)
            for txt in [d["instantiation"] for d in (getattr(self, "entry", None) or {}).get("cxx_template", [])]:
                # a template argument list is '<' arguments '>' and nothing else (decided on the characters)
                s_ = txt.strip()
                depth, end = 0, None
                for i_, ch in enumerate(s_):
                    depth += (ch == "<") - (ch == ">")
                    if depth == 0:
                        end = i_
                        break
                if s_.startswith("<") and end is not None and s_[end + 1:].strip():
                    why = "the instantiation %r has text after its template argument list" % txt
        if why:
            return {"cls": cls + "/accepted-misuse", "violation": self.witness("silently accepted although %s" % why, {"misuse": why}),
                    "vkey": "attrs/accepted:" + why[:50]}
        if self.twin:
            return {"cls": cls, "violation": self.witness("reachability twin"), "vkey": "twin"}
        return {"cls": cls + "/accepted", "sample": self.witness(None)}


def documented_misuse(kind, shape, picks):
    """Attribute uses that docs/input.rst (section Attributes) states are errors or not meaningful for the
    declaration; an accepted path that matches one is a silent acceptance.  Independent of the code's own tests."""
    attrs = dict(p for p in picks if p is not None)
    if kind == "arg":
        text = ARG_SHAPES[shape]
        base = text.replace("const ", "").strip()
        nptr = base.count("*")
        is_text = base.startswith("char") or base.startswith("std::string")
        nind = nptr + base.count("&")
        if "charlen" in attrs:
            if attrs["charlen"] is True:
                return "charlen needs a value"
            # documented for 'char *arg+intent(out)'; the std::string spelling of the same thing is tolerated
            if not (is_text and nind == 1):
                return "charlen is only for a character argument with one level of indirection (docs: size of a char *arg+intent(out))"
        if attrs.get("intent") in ("out", "inout") and nind == 0 and "(*" not in text and "{A}" not in text:
            return "intent(%s) on an argument passed by value (docs: non-pointer arguments can only be intent(in))" % attrs["intent"]
        given = [q for q in picks if q is not None]
        if shape == DEFAULT_FIRST and (not given or given[-1][1] is not True):
            # (after a valueless attribute, '= 1' is that attribute's value, documented form +name=scalar, not a default)
            return "a parameter without a default value follows one that has a default value (not a C++ declaration)"
    if kind in ("arg", "generic") and isinstance(attrs.get("implied"), str) and not (kind == "arg" and "(*cb)" in ARG_SHAPES[shape]):
        m_ = re.match(r"^(size|len|len_trim)\((\w+)\)$", attrs["implied"])
        if m_ and m_.group(2) not in ("p", "n", "q", "a", "cb"):
            return "implied %s() of '%s', which is not an argument of the function" % (m_.group(1), m_.group(2))
    if kind == "generic":
        for k in ("implied",):
            v = attrs.get(k)
            if isinstance(v, str) and trailing_text(v):
                return "the value of %s has text after a complete expression" % k
    if kind in ("arg", "var", "result"):
        r = attrs.get("rank")
        if isinstance(r, str) and r.lstrip("-").isdigit() and not 0 <= int(r) <= 7:
            return "rank must be 0-7"
        inner = kind == "arg" and "(*cb)" in ARG_SHAPES[shape]
        for k in ("dimension", "implied"):
            if k == "implied" and inner:
                continue        # implied is documented for the function's own arguments; on a callback's parameter it is not read
            v = attrs.get(k)
            if isinstance(v, str) and trailing_text(v):
                return "the value of %s has text after a complete expression" % k
    if kind in ("arg", "generic"):
        v = attrs.get("implied")
        if isinstance(v, str) and re.search(r",\s*\)", v) and not (kind == "arg" and "(*cb)" in ARG_SHAPES[shape]):
            return "the value of implied has a ',' with no argument after it"
    if "nosuchattribute" in attrs:
        return "the attribute name 'nosuchattribute' is not one Shroud knows"
    if "dimension" in attrs and attrs["dimension"] is True:
        return "a dimension attribute without any value is documented as an error"
    if "rank" in attrs and attrs.get("dimension") not in (None, ""):
        # (an empty `+dimension()` is not covered by the documented rule and is left out)
        return "rank and dimension cannot be specified together"
    return None


DEREF_VALUES = ("allocatable", "pointer", "raw", "scalar")


def documented_valid(kind, shape, picks):
    """Attribute uses the documentation presents as legal (docs/input.rst, section Attributes; docs/pointers.rst;
    appendix A): a rejected path that matches one is a rejection of a documented declaration.  Deliberately small:
    only combinations the text states outright."""
    attrs = dict(p for p in picks if p is not None)
    if isinstance(attrs.get("rank"), str) and re.match(r"^=\d+$", attrs["rank"]):
        # +rank=1 (and `rank: 1` in an attrs mapping) gives the integer itself: the same documented use as rank(1)
        attrs["rank"] = attrs["rank"][1:]
    if any(isinstance(v, str) and v.startswith("=") for v in attrs.values()):
        return None
    names = set(attrs)
    if not names:
        return None
    if kind == "arg":
        text = ARG_SHAPES[shape]
        if "{A}" in text or "(*" in text:
            return None
        indirect = "*" in text or "&" in text
        if names <= {"deref", "intent"} and "deref" in names and attrs["deref"] in DEREF_VALUES \
                and attrs.get("intent", "out") == "out" and indirect:
            return "deref(%s) on a pointer or reference argument is documented (how to dereference pointers returned via an argument)" % attrs["deref"]
        if names == {"intent"} and (attrs["intent"] == "in" or (attrs["intent"] in ("out", "inout") and indirect)):
            return "intent(%s) on this argument is documented" % attrs["intent"]
        if text in ("int *p", "const int *p"):
            if names == {"rank"} and attrs["rank"] in ("0", "1", "2", "7"):
                return "rank(0-7) on a pointer to a native type is documented"
            if names == {"dimension"} and attrs["dimension"] in ("n", "n+1,2"):
                return "dimension(%s) on a pointer to a native type is documented" % attrs["dimension"]
    elif kind == "result":
        text = RESULT_SHAPES[shape]
        indirect = "*" in text or "&" in text
        if names == {"deref"} and attrs["deref"] in DEREF_VALUES and indirect:
            return "deref(%s) on a function returning a pointer or reference is documented" % attrs["deref"]
        if names == {"owner"} and attrs["owner"] in ("caller", "library") and text.endswith("*"):
            return "owner(%s) on a function returning a pointer is documented" % attrs["owner"]
    return None


def trailing_text(v):
    """Two operands with no operator between them at parenthesis depth 0 (decided on the characters; independent of
    Shroud's tokenizer): e.g. '3 4', 'size(p) 4', 'n,2 n'."""
    import re
    toks = re.findall(r"[A-Za-z_][A-Za-z_0-9]*|[0-9]+|\S", v)
    prev_operand = False
    depth = 0
    for i, t in enumerate(toks):
        if t == "(":
            if depth == 0 and prev_operand and not re.match(r"[A-Za-z_]", toks[i - 1]):
                return True
            depth += 1
            prev_operand = False
            continue
        if t == ")":
            depth -= 1
            prev_operand = True
            continue
        if depth > 0:
            continue
        operand = bool(re.match(r"[A-Za-z_0-9]", t))
        if operand and prev_operand:
            return True
        prev_operand = operand
    return False


def make_attr(**kw):
    return AttrHarness(**kw)


# ---------------------------------------------------------------------------- YAML structure
WRONG = ["absent", "ok", "none", "int", "str", "list", "dict"]


def wrong_value(kind):
    return {"none": None, "int": 7, "str": "text", "list": ["x"], "dict": {"k": "v"}}[kind]


FIELDS = [
    # (path, ok value)  -- path: tuple of keys from the library dict; 'D0' = first declaration entry
    (("library",), "att"),
    (("cxx_header",), "att.hpp"),
    (("namespace",), "outer"),
    (("language",), "c++"),
    (("options",), {"debug": True}),
    (("format",), {"C_prefix": "ATT_"}),
    (("copyright",), ["line"]),
    (("declarations",), None),
    (("splicer_code",), {"c": {"function": {"f": ["// x"]}}}),
    (("patterns",), {"pat": "x"}),
    (("typemap",), [{"type": "Class9", "fields": {"base": "shadow"}}]),
    (("D0", "decl"), "void f(int a = 1)"),
    (("D0", "options"), {"debug": True}),
    (("D0", "format"), {"function_suffix": None}),
    (("D0", "default_arg_suffix"), ["_a", "_b"]),
    (("D0", "attrs"), {"a": {"intent": "in"}}),
    (("D0", "fattrs"), {"name": "g"}),
    (("D0", "splicer"), {"c": "// code"}),
    (("D0", "fortran_generic"), [{"decl": "(float a)"}]),
    (("D0", "cxx_template"), [{"instantiation": "<int>"}]),
    (("D0", "doxygen"), {"brief": "text"}),
    (("D0", "cpp_if"), "ifdef X"),
    (("D0", "return_this"), True),
    (("D0", "declarations"), [{"decl": "void g()"}]),
    (("D0", "fstatements"), {"c": {"pre_call": "// x"}}),
    # one level further down: the value of one entry inside a documented container ('key>inner')
    (("D0", "attrs>a"), {"intent": "in"}),
    (("D0", "fortran_generic>decl"), "(float a)"),
    (("D0", "cxx_template>instantiation"), "<int>"),
    (("D0", "doxygen>brief"), "text"),
]
# how an inner value sits in its container
INNER = {"attrs>a": lambda v: {"a": v}, "fortran_generic>decl": lambda v: [{"decl": v}],
         "cxx_template>instantiation": lambda v: [{"instantiation": v}], "doxygen>brief": lambda v: {"brief": v}}


# values of the right YAML type that are still no documented use of the field (round 9): a declaration that names nothing,
# a list where an attribute's number is expected, an empty text where code is expected
ALTS = {
    "D0/decl": ["int", "int *", ""],
    "D0/attrs>a": [{"rank": [1]}, {"intent": ["in"]}],
    "D0/splicer": [{"c": ""}, {"c": None}],
    "D0/doxygen>brief": [""],
}
# the whole input is not a mapping
TOP_SHAPES = [None, ["x"], "text", 7]

# fields whose documented value does not fit the declaration used here ('void f(int a = 1)')
NOT_VALID_ALONE = ("typemap", "D0/cxx_template", "D0/declarations", "D0/cxx_template>instantiation")


class YamlHarness(object):
    """Two fields (engine-chosen, i < j) take an engine-chosen shape each; all others are as documented."""

    def __init__(self, twin=False):
        self.twin = twin

    def run(self, e):
        fi = z3.Int("f_i")
        fj = z3.Int("f_j")
        e.assume(z3.And(fi >= 0, fi < len(FIELDS), fj > fi, fj <= len(FIELDS)))
        i = e.choose(fi)
        j = e.choose(fj)
        chosen = [i] + ([j] if j < len(FIELDS) else [])
        d = {"library": "att", "cxx_header": "att.hpp",
             "declarations": [{"decl": "void f(int a = 1)"}, {"decl": "class Class1", "declarations": [{"decl": "Class1()"}]}]}
        self.desc = []
        tv = z3.Int("top_shape")
        e.assume(z3.And(tv >= 0, tv <= len(TOP_SHAPES)))
        top = e.choose(tv)
        if top:
            # (only with the first pair of fields: the fields play no role here)
            if (i, j) != (0, 1):
                raise Infeasible()
            self.desc = [("<top level>", repr(TOP_SHAPES[top - 1]))]
            self.shared = False
            self.d = copy.deepcopy(TOP_SHAPES[top - 1])
            generate_only(copy.deepcopy(self.d))
            return "accepted"
        for n, idx in enumerate(chosen):
            path, okv = FIELDS[idx]
            alts = ALTS.get("/".join(path), [])
            kv = z3.Int("k_%d" % n)
            e.assume(z3.And(kv >= 0, kv < len(WRONG) + len(alts)))
            kc = e.choose(kv)
            kind = WRONG[kc] if kc < len(WRONG) else "alt%d" % (kc - len(WRONG))
            self.desc.append(("/".join(path), kind))
            target = d
            if path[0] == "D0":
                if not isinstance(d.get("declarations"), list) or not d["declarations"] or not isinstance(d["declarations"][0], dict):
                    raise Infeasible()
                target = d["declarations"][0]
                key = path[1]
            else:
                key = path[0]
            wrap = (lambda v: v)
            if ">" in key:
                wrap = INNER[key]
                key = key.split(">")[0]
            if kind == "absent":
                target.pop(key, None)
            elif kind == "ok":
                if okv is not None:
                    target[key] = wrap(copy.deepcopy(okv))
            elif kind.startswith("alt"):
                target[key] = wrap(copy.deepcopy(alts[int(kind[3:])]))
            else:
                target[key] = wrap(wrong_value(kind))
        # the first declaration's mapping may occur a second time (a YAML alias: the same object in two places)
        self.shared = bool(e.branch(z3.Bool("declaration_is_aliased")))
        if self.shared and isinstance(d.get("declarations"), list) and d["declarations"] and isinstance(d["declarations"][0], dict):
            d["declarations"].append({"decl": "namespace second", "declarations": [d["declarations"][0]]})
        self.d = copy.deepcopy(d)
        if self.shared:
            # deepcopy keeps the sharing; nothing more to do
            pass
        generate_only(d)
        return "accepted"

    def witness(self, what, extra=None):
        w = {"kernel": "yaml", "fields": [list(x) for x in self.desc], "input": self.d, "what": what, "aliased": getattr(self, "shared", False)}
        if extra:
            w.update(extra)
        return w

    def judge(self, e, kind, value):
        if kind == "exc":
            if isinstance(value, OK_EXC):
                if self.twin:
                    return {"cls": "yaml", "violation": self.witness("reachability twin"), "vkey": "twin"}
                if all(k in ("ok", "absent") and f not in NOT_VALID_ALONE and not (f == "D0/decl" and k == "absent") for f, k in self.desc):
                    return {"cls": "yaml/rejected-valid",
                            "violation": self.witness("a documented structure is rejected: %s" % str(value).strip().splitlines()[0][:100], {"valid": True}),
                            "vkey": "yaml/rejected-valid"}
                return {"cls": "yaml/rejected", "sample": self.witness(None)}
            site = site_of(value)
            return {"cls": "yaml/internal:" + type(value).__name__,
                    "violation": self.witness("internal %s: %s" % (type(value).__name__, str(value)[:120]),
                                              {"exc": type(value).__name__, "site": list(site) if site else None}),
                    "vkey": "internal/%s@%s:%s" % (type(value).__name__, site[1] if site else None, site[2] if site else None)}
        if self.twin:
            return {"cls": "yaml", "violation": self.witness("reachability twin"), "vkey": "twin"}
        return {"cls": "yaml/accepted", "sample": self.witness(None)}


def make_yaml(**kw):
    return YamlHarness(**kw)


def confirm(w):
    """Plain re-run.  Returns (reproduced, detail)."""
    try:
        if w["kernel"] == "attrs":
            generate_only(base_library([copy.deepcopy(w["entry"]) if w.get("entry") else {"decl": w["decl"]}]))
        else:
            inp = copy.deepcopy(w["input"])
            if w.get("aliased") and isinstance(inp.get("declarations"), list) and len(inp["declarations"]) > 1:
                try:
                    inp["declarations"][-1]["declarations"] = [inp["declarations"][0]]       # (a witness read from JSON lost the sharing)
                except Exception:
                    pass
            generate_only(inp)
    except OK_EXC as ex:
        if w.get("valid"):
            return True, {"outcome": "rejected", "message": str(ex)[:200]}
        return (w.get("what") == "rejected without any message" and not str(ex).strip()), {"outcome": "rejected", "message": str(ex)[:200]}
    except Exception as ex:
        site = site_of(ex)
        return (w.get("exc") == type(ex).__name__), {"outcome": "internal", "exc": type(ex).__name__, "message": str(ex)[:200],
                                                      "site": list(site) if site else None}
    return bool(w.get("misuse")), {"outcome": "accepted"}


def specs(tier):
    out, labels = [], []
    for i in range(len(ARG_SHAPES)):
        out.append(("harness.c17_kernels", "make_attr", dict(kind="arg", shape=i, nattr=2 if tier == "thorough" or i < 10 else 1)))
        labels.append("attributes on argument %r" % ARG_SHAPES[i])
    for i in range(len(RESULT_SHAPES)):
        out.append(("harness.c17_kernels", "make_attr", dict(kind="result", shape=i, nattr=2 if tier == "thorough" or i < 8 else 1)))
        labels.append("attributes on function returning %r" % RESULT_SHAPES[i])
    for i in (0, 1, 4, 7):
        out.append(("harness.c17_kernels", "make_attr", dict(kind="var", shape=i, nattr=1)))
        labels.append("attributes on variable %r" % ARG_SHAPES[i])
    out.append(("harness.c17_kernels", "make_attr", dict(kind="generic", shape=0, nattr=1)))
    labels.append("attributes on an argument of a fortran_generic entry")
    out.append(("harness.c17_kernels", "make_attr", dict(kind="tmpl", shape=0, nattr=0)))
    labels.append("template header x declaration x cxx_template list")
    out.append(("harness.c17_kernels", "make_yaml", {}))
    labels.append("YAML structure: shapes of two fields")
    return out, labels
