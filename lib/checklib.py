"""Shared plumbing for checks: evidence files, known findings, replay files, exit codes."""
import json
import os
import sys
import time

ROOT = os.path.dirname(os.path.dirname(os.path.abspath(__file__)))
EXIT_OK = 0
EXIT_VIOLATION = 1
EXIT_INCONCLUSIVE = 3


def tier_and_seed(argv=None):
    argv = sys.argv[1:] if argv is None else argv
    tier = os.environ.get("VERIF_TIER", "quick")
    replay = None
    i = 0
    while i < len(argv):
        if argv[i] == "--tier":
            tier = argv[i + 1]
            i += 2
        elif argv[i] == "--replay":
            replay = argv[i + 1]
            i += 2
        else:
            i += 1
    if tier not in ("quick", "thorough"):
        tier = "quick"
    try:
        seed = int(os.environ.get("VERIF_SEED", "0"))
    except ValueError:
        seed = 0
    return tier, seed, replay


def load_known(pid):
    path = os.path.join(ROOT, "known_findings.json")
    if not os.path.exists(path):
        return []
    with open(path) as f:
        data = json.load(f)
    return [k for k in data.get("findings", []) if k.get("property") == pid]


def write_replay(pid, name, witness):
    d = os.path.join(ROOT, "replay", pid)
    os.makedirs(d, exist_ok=True)
    path = os.path.join(d, name + ".json")
    with open(path, "w") as f:
        json.dump(witness, f, indent=1, sort_keys=True, default=str)
    return path


def write_evidence(pid, tier, seed, level, coverage, assumptions, wall_s, violations, extra=None):
    d = os.path.join(ROOT, "evidence-dev" if os.environ.get("SHROUD_VERIF_DEVREPO") else "evidence")
    os.makedirs(d, exist_ok=True)
    ev = {
        "property_id": pid,
        "tier": tier,
        "seed": seed,
        "level": level,
        "coverage": coverage,
        "assumptions": assumptions,
        "wall_s": round(wall_s, 2),
        "violations": violations,
    }
    if extra:
        ev.update(extra)
    tmp = os.path.join(d, pid + ".json.tmp")
    with open(tmp, "w") as f:
        json.dump(ev, f, indent=1, default=str)
    os.replace(tmp, os.path.join(d, pid + ".json"))


class Report(object):
    """Collects the verdict of one check run and turns it into output + exit code."""

    def __init__(self, pid):
        self.pid = pid
        self.t0 = time.time()
        self.violations = []      # list of (replay_path, text)
        self.known = []           # KNOWN-FINDING lines
        self.inconclusive = []
        self.notes = []

    def wall(self):
        return time.time() - self.t0

    def violation(self, replay_path, text):
        self.violations.append((replay_path, text))

    def known_finding(self, text):
        self.known.append(text)

    def inconc(self, text):
        self.inconclusive.append(text)

    def finish(self):
        for k in self.known:
            print("KNOWN-FINDING: property=%s %s" % (self.pid, k))
        for n in self.notes:
            print("NOTE: " + n)
        if self.violations:
            for path, text in self.violations[:20]:
                print("VIOLATION property=%s replay=%s" % (self.pid, path))
                print("  " + text)
            sys.stdout.flush()
            return EXIT_VIOLATION
        if self.inconclusive:
            for t in self.inconclusive[:20]:
                print("INCONCLUSIVE property=%s %s" % (self.pid, t))
            sys.stdout.flush()
            return EXIT_INCONCLUSIVE
        print("OK property=%s held on everything explored (%.1fs)" % (self.pid, self.wall()))
        sys.stdout.flush()
        return EXIT_OK
