#!/usr/bin/env python3
"""Regenerates MANIFEST.json from the table below (dev tool; MANIFEST.json is the committed interface)."""
import json, os
ROOT = os.path.dirname(os.path.dirname(os.path.abspath(__file__)))
CHECKS = {}
def chk(pid, engine, cat, text, note, tech, ref):
    CHECKS[pid] = dict(property_id=pid, quick_cmd="./bin/check %s --tier quick" % pid,
        thorough_cmd="./bin/check %s --tier thorough" % pid, evidence_file="evidence/%s.json" % pid,
        replay_cmd_template="./bin/check %s --replay {path}" % pid, engine=engine,
        level_claimed=dict(category=cat, text=text, design_ref=ref), level_note=note, technique=tech)

chk("C13", "shadowsym", "model_checking",
    "Bounded symbolic execution of the real write_continue/write_lines: every path of the real byte-code for every logical line of <= N characters (each character a z3 integer over all code points), every linelen >= 1, a few indents/markers; on each path the C13 clauses are validity queries to z3 over the path condition. Holds-for-all within the bound, silent outside it.",
    "Trusted: the shadowsym proxies (SymStr/SymChar/SymInt) mirror str/int semantics for the operations used; z3. Outside: lines longer than the bound, directive-only lines, the corpus-wide 132-column clause.",
    "dynamic symbolic execution of Python byte-code with z3 (own engine shadowsym), validity queries per path", "DESIGN.md 3/C13")

chk("C09", "shadowsym", "model_checking",
    "Bounded symbolic execution of the real declast.Parser on symbolic token streams (token = z3 integer over a finite alphabet of spellings): every sequence of <= N tokens from the start symbol, every window mutation (<= 2 tokens replaced by k symbolic tokens) and every prefix+symbolic-tail of 32 seed declarations. z3 decides which parser branches are feasible; each accepted path is one concrete declaration, judged against an independent reference declarator reader (structure, renderings gen_decl/gen_arg_as_cxx/gen_arg_as_c re-read by the reference, parse(gen_decl(parse(d))) round trip through the real tokenizer).",
    "Trusted: gen/refdecl.py as the C++ meaning of the documented subset; the finite alphabet; z3. Accepted inputs the reference cannot give a C++ meaning (semantic:*) are counted, not judged. A real compiler's is_same is outside the technique.",
    "dynamic symbolic execution of Python byte-code with z3 (shadowsym) over symbolic token streams + independent reference reader", "DESIGN.md 3/C09")
chk("C17", "shadowsym", "model_checking",
    "Same exploration as C09, judged for rejection behaviour: on every path (i.e. for every token sequence satisfying its path condition) the outcome must be acceptance or a RuntimeError-class diagnostic with a message; internal exceptions (AttributeError, TypeError, KeyError, IndexError, ValueError, ...) and acceptance of unbalanced brackets, dangling '=' / ',' / '+' / '::' or keyword confusion are violations, each replayed through the real regex tokenizer and Parser before it is reported.",
    "Trusted: reference grammar's notion of dangling/unbalanced text; finite alphabet; z3. Attribute-combination and YAML-structure validation are covered by separate kernels listed in the evidence (when present).",
    "dynamic symbolic execution of Python byte-code with z3 (shadowsym) over symbolic token streams", "DESIGN.md 3/C17")

chk("C11", "shadowsym", "model_checking",
    "For every enumerated enum shape (<= 3/4 members; implicit, literal, negated literal, expressions of depth <= 2 over + - * / parentheses, unary sign, literals and earlier members; plain / enum class / enum struct; library, namespace and class scope) the real parse -> EnumNode -> Wrapc/Wrapf.wrap_enum pipeline is executed with every integer literal a z3 integer; the C++ meaning of the declaration, the meaning of the emitted C enum and the meaning of the emitted Fortran parameters are built as z3 integer terms (truncating division) and z3 decides that no literal values in [-2^20, 2^20] make any of them differ. Branches of the real code on literal values (e.g. truthiness of a value) fork paths.",
    "Trusted: gen/refdecl.py expression reader for the C++ meaning; the harness's reader of emitted C/Fortran lines; z3. Outside: int overflow, non-decimal literals, cross-enum references, the Python wrapper's enum constants.",
    "symbolic execution of the real Python with z3 integer literals (shadowsym); equality of three z3 terms per enumerator", "DESIGN.md 3/C11")

chk("C12", "shadowsym", "model_checking",
    "Symbolic execution of the real block emitter and reader: user splicer bodies of <= 2/3 lines x <= 4/6 characters (every character a z3 integer over all code points) flow through WrapperMixin._create_splicer -> write_lines -> write_continue into memory and back through splicer.get_splicers, then through a second generation; and through the WHOLE real pipeline (ast -> generate -> Wrapc/Wrapf/Wrapp/Wrapl) on two small libraries with the symbolic lines supplied for every splicer block the library has. Per path, z3 validity queries decide that each block holds the user's lines, complete, in order, identical up to leading indentation and trailing blanks (by character provenance), that unsupplied blocks keep their default, force > user > default, and that reading back and regenerating is a fixed point.",
    "Trusted: shadowsym proxies; z3; block markers are located by the harness. Domain: lines not starting in column one with # @ ^ + -; the recorded known-finding line shapes (trailing +/-, interior TAB, form feed, leading CR) are excluded from the main query and replayed separately. Longer bodies are outside the bound.",
    "dynamic symbolic execution of Python byte-code with z3 (shadowsym), kernel and whole-pipeline level", "DESIGN.md 3/C12")

chk("C15", "shadowsym", "other",
    "Kernel 1: ast.promote_wrap on a library/namespace/class/function tree whose wrap options are symbolic booleans; z3 validity queries decide 'a container's flag after promotion == OR of the options in its subtree' for every container and language. Kernel 2: the whole real pipeline with wrap_python/wrap_lua symbolic at library level and on one declaration at a time, wrap_c/wrap_fortran and five distinct output directories enumerated; on every feasible path: C/Fortran files byte-identical to the Python/Lua-off run, --cfiles/--ffiles == files written, every file in its designated directory, an off language writes nothing, a declaration with a wrapper off is absent from that language's output.",
    "The symbolic variables are booleans: the exploration is exhaustive over the branch outcomes the code actually takes and z3's role is feasibility and the promotion law's validity. wrap_c/wrap_fortran are enumerated because Shroud tests them with `is False` (static scan on every run). Files are captured in memory.",
    "symbolic execution of the real pipeline with symbolic option booleans (shadowsym) + z3 validity queries", "DESIGN.md 3/C15")
chk("C16", "shadowsym", "other",
    "The whole real pipeline runs with debug, debug_index, doxygen, show_splicer_comments symbolic at library level and debug, doxygen, literalinclude symbolic on each declaration in turn (write_version enumerated) on 4-5 small libraries; every feasible combination of branch outcomes is a path; on every path the file set and the comment-stripped token streams of all generated files equal the all-defaults run.",
    "Symbolic variables are booleans (exhaustive over feasible branch outcomes; z3 does feasibility bookkeeping). Comment stripping is the harness's own language-aware lexer. Library-level literalinclude excluded by the property.",
    "symbolic execution of the real pipeline with symbolic option booleans (shadowsym)", "DESIGN.md 3/C16")

chk("C14", "shadowsym", "other",
    "K1: util.Scope laws (nearest enclosing setter, update, clone, reparent, inlocal) decided by z3 over symbolic integer values and engine-chosen placements. K2: one user format field referenced from the C name template and the options F_force_wrapper / C_force_wrapper placed at library/namespace/class/block/function level by symbolic booleans; per path the whole real pipeline runs on the description and on the equivalent one where every leaf declaration carries its nearest enclosing setter's value, outputs byte-identical. K3: symbolic subsets of attributes on four declaration shapes, inline spelling vs attrs/fattrs through the whole pipeline. K4: symbolic split of six options and the language between YAML and --option/--language through the real main_with_args, plus create_wrapper vs the command line.",
    "Placements, subsets and splits are boolean choices explored exhaustively by the engine (z3: feasibility; K1 also value equalities). Equality is byte equality of all generated files except the JSON dump. Other option/format names, deeper trees and other attribute shapes are outside the bound.",
    "symbolic execution of the real code with symbolic placement booleans (shadowsym), two-run equivalence per path", "DESIGN.md 3/C14")

chk("C08", "shadowsym", "model_checking",
    "A: util.un_camel executed symbolically for every identifier of <= 6/8 characters (each character a z3 integer within an engine-chosen class upper/lower/digit/underscore) against the documented conversion. B: 229+ expansion structures (<= 3 overloads, <= 2 trailing defaults, 0/2 template instantiations, 0/2 fortran_generic entries, library/namespace/class scope, default and explicit suffixes, one or two names per scope) through the whole real pipeline with placeholder identifiers: emitted C prototypes, Fortran specifics/generic interfaces, PyMethodDef and luaL_Reg tables against the reference count of callable signatures, pairwise distinct, generic interfaces listing exactly their name's specifics; names decomposed into templates over the placeholders (checked parametric with a second placeholder set). C: z3's sequence theory decides for every pair of emitted-name templates of a structure that they cannot be equal for any identifiers in the claimed domain.",
    "Trusted: the harness's readers of generated headers/modules/tables; z3 (strings). Identifier domain for injectivity: [a-z]([a-z0-9]*[a-z])?, length <= 8, no underscore. Three known findings are excluded and replayed on every run.",
    "symbolic execution of un_camel (shadowsym) + z3 sequence-theory injectivity queries over name templates extracted from real pipeline runs", "DESIGN.md 3/C08")

chk("C10", "llsym", "translation_validation",
    "The string helper functions exactly as Shroud emits them (ShroudStrCopy, ShroudStrBlankFill, ShroudLenTrim, ShroudStrAlloc, ShroudStrArrayAlloc/Free; language c and c++) and every generated wrapper of two string libraries (char, char*, char**, std::string by value/reference/pointer, const and not, every intent, results as +len / as argument / allocatable context; plain C API and *_bufferify) are compiled with clang -O0 to LLVM IR and executed symbolically: all lengths 0..cap (and nsrc=-1), every byte of every buffer, NULL and non-NULL sources and the library's replies are symbolic; buffers are exact-fit objects, so any read or write outside the given lengths is a bounds violation. For an arbitrary index, z3 decides that the final buffers / what the library received equal the reference rule of DESIGN.md appendix A.1. Counterexamples are replayed natively (same generated source + recording stub library + driver built from the witness, ASan/UBSan) before they are reported.",
    "Trusted: llsym's IR semantics and its models of memcpy/memset/strlen/strcpy/strncpy/malloc/free/new/delete and std::string members; clang -O0 IR as the code under test; the stub library's contract (listed in the evidence). cap = 4 quick / 8 thorough. The Fortran side of the same rules and F_CFI descriptors are outside.",
    "bounded symbolic execution of the LLVM IR of generated code (own engine llsym over z3 bit-vectors/arrays) against a reference model; native sanitizer replay", "DESIGN.md 3/C10")

chk("C02", "llsym", "translation_validation",
    "Every extern \"C\" function Shroud writes for three libraries (a C++ library with namespace, classes with overloaded/const/static methods, constructors with default arguments, destructor, enum/bool/native scalar/pointer/reference arguments, functions returning class instances owned by caller or library, overloads and default-argument arities; a C++ and a C string library) is compiled to LLVM IR and executed symbolically against a nondeterministic stub of the wrapped library: every scalar argument full-width symbolic, buffers symbolic, capsules with arbitrary idtor. z3 decides per path that the callee symbol (name, scope, arity, native parameter types, const-ness), 'this', each argument as received, the return value and output arguments as seen by the C caller equal the reference model of DESIGN.md appendix A.2/A.1; the set of C entry points is compared with the callable signatures (default-argument arities) of each declaration.",
    "Trusted: llsym IR semantics and models; the stub library's contract; demangling by llvm-cxxfilt. Class instances are opaque objects. Outside: class arguments/results by value, std::vector, struct arguments, templates, function pointers, exceptions, allocation failure. Native replay exists for the string libraries; for the class library a violation is the symbolic result only (stated in the output).",
    "bounded symbolic execution of the LLVM IR of generated code (llsym) against a reference model derived from the declaration", "DESIGN.md 3/C02")

chk("C06", "llsym", "translation_validation",
    "Three parts over four generated libraries (ownership, classes, C++ strings, C strings). (1) Every generated wrapper under llsym with exact-fit buffers: all reads/writes bounds- and liveness-checked, every temporary (malloc/new/std::string) the wrapper creates is released exactly once by the matching deallocator before it returns, caller-owned results carry a non-zero destructor index and library-owned results carry 0. (2) The hand-off table idtor -> (type, allocator family) collected from those runs: one index, one way of releasing. (3) One inductive step of the generated <PREFIX>_SHROUD_memory_destructor from every pre-state {idtor in [-1, max+2]} x {NULL, live object of the family the table names}: exactly one release by the matching deallocator (after the class / std::string destructor) for table indices and none otherwise, post-state {NULL, 0}, a second call releases nothing - which covers call histories of any length under the stated representation invariant.",
    "Trusted: llsym IR semantics and allocator/std::string models; stub library contract; the representation invariant (established by parts 1-2). Outside: the Fortran finaliser/assignment, Python capsule destructors and reference counts, std::vector copies, allocation failure. String-library violations are replayed natively under ASan; others are confirmed by re-execution of the harness.",
    "bounded symbolic execution of the LLVM IR of generated code (llsym): memory-safety queries, allocation/release event pairing, one inductive step of the release function", "DESIGN.md 3/C06")

NA = {
 "C01": "generated Fortran run-time behaviour: no Fortran front end yields anything a solver can execute; C-side kernels covered under C02/C06/C10",
 "C04": "finite structural comparison of two emitted texts with a Fortran processor's interoperability rules as oracle; nothing symbolic to decide",
 "C05": "oracle is gcc/g++/gfortran and the linker; not encodable",
 "C07": "quantifies over hash seeds, cwd, environment, pre-existing files, in-process histories; decided by re-execution and byte comparison, not by a solver",
}
PENDING = "check not built yet in this round (planned; see DESIGN.md section 5)"
ALL = ["C%02d" % i for i in range(1, 19)]
m = dict(version=1, setup_cmd="./bin/ensure-env",
    hooks=dict(guard="SHROUD_VERIF", enable="no hooks are needed: harnesses import /repo's modules directly", baseline_off_cmd="cd /repo && /venv/bin/python -m pytest -ra -q -p no:cacheprovider --timeout=900 --continue-on-collection-errors tests", source_commits=[], add_only=True),
    engines=[dict(name="shadowsym", path="engines/shadowsym", serves_properties=sorted(p for p,c in CHECKS.items() if c["engine"]=="shadowsym"), kind_free_text="dynamic symbolic execution of Shroud's real Python by proxy values + z3 (DFS by re-execution)"),
             dict(name="llsym", path="engines/llsym", serves_properties=sorted(p for p,c in CHECKS.items() if c["engine"]=="llsym"), kind_free_text="bounded symbolic execution of the LLVM IR (clang -O0) of the C/C++ that Shroud generates, z3 bit-vectors/arrays")],
    checks=[CHECKS[p] for p in ALL if p in CHECKS],
    notes="All checks: exit 0 held / 1 VIOLATION (replay-confirmed) / 3 inconclusive. See DESIGN.md.",
    not_applicable=[dict(property_id=p, reason=NA.get(p, PENDING)) for p in ALL if p not in CHECKS])
m["engines"] = [e for e in m["engines"] if e["serves_properties"]]
json.dump(m, open(os.path.join(ROOT, "MANIFEST.json"), "w"), indent=1)
print("checks:", [c["property_id"] for c in m["checks"]])
